/-
  Proofs.CacheAll — size policy, timer wheel and table in ONE joint state (the `Impl.Cache` of DESIGN 5.5, for single-goroutine
  use with a same-goroutine executor): a new entry is handed to both policies (Impl.Maint.runTask add), the eviction pass runs,
  and the eviction callback unlinks every victim from the table AND from the timer wheel (cache.evictNode: policy.delete,
  expirationPolicy.Delete).  Shown: both joint invariants (Proofs.CacheJoint.JInv, Impl.Wheel.WJ) hold together afterwards.
-/
import OtterVerif.Proofs.CacheJoint
import OtterVerif.Proofs.WheelJoint

namespace OtterVerif.Proofs.CacheAll
open OtterVerif OtterVerif.Impl.Policy OtterVerif.Proofs.CacheJoint
open OtterVerif.Impl.Wheel (Wheel WJ)

/-- unscheduling a list of nodes keeps every other mapped node scheduled -/
theorem wj_remove_many {w : Wheel} {live : List (Nat × Nat)} (h : WJ w live) (E : List Nat) :
    WJ (E.foldl Impl.Wheel.delete w) (live.filter (fun q => !E.contains q.1)) := by
  induction E generalizing w live with
  | nil =>
    have : live.filter (fun q => !([] : List Nat).contains q.1) = live := by
      rw [List.filter_eq_self]; intro q _; simp
    rw [this]; exact h
  | cons e rest ih =>
    have h1 := Impl.Wheel.wj_remove h e
    have h2 := ih h1
    rw [List.foldl_cons]
    have : (live.filter (fun q => q.1 != e)).filter (fun q => !rest.contains q.1)
        = live.filter (fun q => !(e :: rest).contains q.1) := by
      rw [List.filter_filter]
      apply List.filter_congr
      intro q _
      simp only [List.contains_cons, Bool.not_or, bne, Bool.and_comm]
    rw [this] at h2
    exact h2

structure CState where
  S : List Nat
  p : Policy
  w : Wheel
  live : List (Nat × Nat)        -- mapped nodes with their deadlines

structure CInv (s : CState) : Prop where
  pol : JInv s.S s.p (s.live.map (·.1))
  whl : WJ s.w s.live

/-- the nodes of `l` the policy has killed -/
def victims (p : Policy) (l : List (Nat × Nat)) : List Nat := (l.filter (fun q => (p.node q.1).st != .alive)).map (·.1)

theorem not_victim_iff (p : Policy) (l : List (Nat × Nat)) (q : Nat × Nat) (hq : q ∈ l) :
    (!(victims p l).contains q.1) = ((p.node q.1).st == .alive) := by
  unfold victims
  cases hs : ((p.node q.1).st == .alive)
  · have hm : q.1 ∈ (l.filter (fun q => (p.node q.1).st != .alive)).map (·.1) :=
      List.mem_map.mpr ⟨q, List.mem_filter.mpr ⟨hq, by simp [bne, hs]⟩, rfl⟩
    simp [hm]
  · have hm : q.1 ∉ (l.filter (fun q => (p.node q.1).st != .alive)).map (·.1) := by
      intro hm
      obtain ⟨r, hr, e⟩ := List.mem_map.mp hm
      have := (List.mem_filter.mp hr).2
      rw [e] at this
      simp [bne, hs] at this
    simp [hm]

/-- **a new entry, through both policies**: created alive, scheduled in the wheel and added to the size policy (runTask add), the
    eviction pass, and the callback unlinking every victim from the table and the wheel -/
def cinsert (s : CState) (id key wt d : Nat) : CState :=
  let p' := evictNodes (add (mkNode s.p id key wt .alive) id)
  let l1 := (id, d) :: s.live
  { S := id :: s.S, p := p',
    w := (victims p' l1).foldl Impl.Wheel.delete (Impl.Wheel.add s.w id d),
    live := l1.filter (fun q => !(victims p' l1).contains q.1) }

/-- the list part of the step, for any policy state p' (kept abstract so that nothing unfolds the eviction pass) -/
theorem survivors_map (p' : Policy) (l1 : List (Nat × Nat)) :
    (l1.filter (fun q => !(victims p' l1).contains q.1)).map (·.1) = react p' (l1.map (·.1)) := by
  have hc : l1.filter (fun q => !(victims p' l1).contains q.1) = l1.filter (fun q => (p'.node q.1).st == .alive) :=
    List.filter_congr (fun q hq => not_victim_iff p' l1 q hq)
  rw [hc]
  unfold react
  rw [List.filter_map]
  rfl

theorem cinsert_inv (s : CState) (h : CInv s) (id key wt d : Nat) (hs : id ∉ s.S) (hd : d < Impl.Wheel.two64) :
    CInv (cinsert s id key wt d) := by
  have hnl : id ∉ s.live.map (·.1) := fun hm => hs ((h.pol.alive id).mp hm).1
  have hj := jinsert h.pol id key wt hs
  have hw := Impl.Wheel.wj_insert h.whl id d hd hnl
  unfold cinsert
  simp only
  generalize evictNodes (add (mkNode s.p id key wt .alive) id) = p' at hj ⊢
  constructor
  · show JInv (id :: s.S) p' ((((id, d) :: s.live).filter (fun q => !(victims p' ((id, d) :: s.live)).contains q.1)).map (·.1))
    rw [survivors_map p' ((id, d) :: s.live)]
    exact hj
  · exact wj_remove_many hw _

/-- **a removed entry, through both policies** (Invalidate, or a Compute that deletes): the table retires the node, runTask
    delete unschedules it and replays policy.delete, the eviction pass runs, victims are unlinked from table and wheel -/
def cremove (s : CState) (old : Nat) : CState :=
  let p' := evictNodes (delete (retire s.p old) old)
  let l1 := s.live.filter (fun q => q.1 != old)
  { S := s.S, p := p',
    w := (victims p' l1).foldl Impl.Wheel.delete (Impl.Wheel.delete s.w old),
    live := l1.filter (fun q => !(victims p' l1).contains q.1) }

theorem map_filter_ne (live : List (Nat × Nat)) (old : Nat) :
    (live.filter (fun q => q.1 != old)).map (·.1) = (live.map (·.1)).filter (· != old) := by
  rw [List.filter_map]; rfl

theorem cremove_inv (s : CState) (h : CInv s) (old : Nat) (ho : old ∈ s.live.map (·.1)) : CInv (cremove s old) := by
  have hj := jdelete h.pol old ho
  have hw := Impl.Wheel.wj_remove h.whl old
  unfold cremove
  simp only
  generalize evictNodes (delete (retire s.p old) old) = p' at hj ⊢
  constructor
  · show JInv s.S p' (((s.live.filter (fun q => q.1 != old)).filter
        (fun q => !(victims p' (s.live.filter (fun q => q.1 != old))).contains q.1)).map (·.1))
    rw [survivors_map p' (s.live.filter (fun q => q.1 != old)), map_filter_ne]
    exact hj
  · exact wj_remove_many hw _

/-- **an expired entry**: the wheel handed it to the callback during DeleteExpired (it is no longer scheduled), the table retires
    it and policy.delete is called — one node of a sweep -/
def cexpireOne (s : CState) (old : Nat) : CState :=
  { S := s.S, p := delete (retire s.p old) old, w := s.w, live := s.live.filter (fun q => q.1 != old) }

theorem cexpireOne_inv (s : CState) (h : CInv s) (old : Nat) (ho : old ∈ s.live.map (·.1)) : CInv (cexpireOne s old) := by
  constructor
  · show JInv s.S (delete (retire s.p old) old) ((s.live.filter (fun q => q.1 != old)).map (·.1))
    rw [map_filter_ne]; exact jexpire h.pol old ho
  · show WJ s.w (s.live.filter (fun q => q.1 != old))
    exact ⟨h.whl.reach, fun q hq => h.whl.sched q (List.mem_filter.mp hq).1,
      List.Nodup.sublist (List.Sublist.map _ List.filter_sublist) h.whl.ids⟩

/-- **a replaced value, through both policies**: the table retires the old node and creates the new one alive, runTask update
    unschedules the old node, schedules the new one and replays policy.update, the eviction pass runs, victims are unlinked -/
def creplace (s : CState) (id old key wt d : Nat) : CState :=
  let p' := evictNodes (update (mkNode (retire s.p old) id key wt .alive) id old)
  let l1 := (id, d) :: s.live.filter (fun q => q.1 != old)
  { S := id :: s.S, p := p',
    w := (victims p' l1).foldl Impl.Wheel.delete (Impl.Wheel.add (Impl.Wheel.delete s.w old) id d),
    live := l1.filter (fun q => !(victims p' l1).contains q.1) }

theorem creplace_inv (s : CState) (h : CInv s) (id old key wt d : Nat) (hs : id ∉ s.S) (ho : old ∈ s.live.map (·.1))
    (hd : d < Impl.Wheel.two64) : CInv (creplace s id old key wt d) := by
  have hj := jreplace h.pol id old key wt hs ho
  have hw1 := Impl.Wheel.wj_remove h.whl old
  have hnl : id ∉ (s.live.filter (fun q => q.1 != old)).map (·.1) := by
    intro hm
    obtain ⟨q, hq, e⟩ := List.mem_map.mp hm
    exact hs ((h.pol.alive id).mp (List.mem_map.mpr ⟨q, (List.mem_filter.mp hq).1, e⟩)).1
  have hw := Impl.Wheel.wj_insert hw1 id d hd hnl
  unfold creplace
  simp only
  generalize evictNodes (update (mkNode (retire s.p old) id key wt .alive) id old) = p' at hj ⊢
  constructor
  · show JInv (id :: s.S) p' ((((id, d) :: s.live.filter (fun q => q.1 != old)).filter
        (fun q => !(victims p' ((id, d) :: s.live.filter (fun q => q.1 != old))).contains q.1)).map (·.1))
    rw [survivors_map p' ((id, d) :: s.live.filter (fun q => q.1 != old)), List.map_cons, map_filter_ne]
    exact hj
  · exact wj_remove_many hw _

/-- several expired nodes, one after the other -/
theorem jexpire_many {S : List Nat} (E : List Nat) : ∀ {p : Policy} {live : List Nat}, JInv S p live → E.Nodup →
    (∀ e ∈ E, e ∈ live) →
    JInv S (E.foldl (fun p x => delete (retire p x) x) p) (live.filter (fun x => !E.contains x)) := by
  induction E with
  | nil =>
    intro p live h _ _
    have : live.filter (fun x => !([] : List Nat).contains x) = live := by
      rw [List.filter_eq_self]; intro q _; simp
    rw [this]; exact h
  | cons e rest ih =>
    intro p live h hnd hsub
    have hnd' := List.nodup_cons.mp hnd
    have h1 := jexpire h e (hsub e List.mem_cons_self)
    have h2 := ih h1 hnd'.2 (fun e' he' => List.mem_filter.mpr ⟨hsub e' (List.mem_cons_of_mem _ he'),
      by simpa using (fun (eq : e' = e) => hnd'.1 (eq ▸ he'))⟩)
    rw [List.foldl_cons]
    have : (live.filter (· != e)).filter (fun x => !rest.contains x) = live.filter (fun x => !(e :: rest).contains x) := by
      rw [List.filter_filter]
      apply List.filter_congr
      intro q _
      simp only [List.contains_cons, Bool.not_or, bne, Bool.and_comm]
    rw [this] at h2
    exact h2

/-- **a maintenance sweep, through both policies**: the wheel hands the overdue nodes `X` to cache.evictNode, which unlinks each
    mapped one from the table and calls policy.delete for it; `w'` is the wheel after DeleteExpired -/
def csweepWith (s : CState) (X : List Nat) (w' : Wheel) : CState :=
  { S := s.S, p := ((s.live.map (·.1)).filter (fun x => X.contains x)).foldl (fun p x => delete (retire p x) x) s.p,
    w := w', live := s.live.filter (fun q => !X.contains q.1) }

theorem csweepWith_inv (s : CState) (h : CInv s) (X : List Nat) (w' : Wheel)
    (hw : WJ w' (s.live.filter (fun q => !X.contains q.1))) : CInv (csweepWith s X w') := by
  constructor
  · have hE : ((s.live.map (·.1)).filter (fun x => X.contains x)).Nodup := List.Nodup.sublist List.filter_sublist h.pol.nodup
    have hj := jexpire_many _ h.pol hE (fun e he => (List.mem_filter.mp he).1)
    have e : (s.live.filter (fun q => !X.contains q.1)).map (·.1)
        = (s.live.map (·.1)).filter (fun x => !((s.live.map (·.1)).filter (fun x => X.contains x)).contains x) := by
      rw [List.filter_map]
      congr 1
      apply List.filter_congr
      intro q hq
      have hm : q.1 ∈ s.live.map (·.1) := List.mem_map.mpr ⟨q, hq, rfl⟩
      have key : ((s.live.map (·.1)).filter (fun x => X.contains x)).contains q.1 = X.contains q.1 := by
        cases hc : X.contains q.1
        · apply Bool.eq_false_iff.mpr
          intro hh
          have hmem : q.1 ∈ (s.live.map (·.1)).filter (fun x => X.contains x) := by simpa using hh
          have := (List.mem_filter.mp hmem).2
          rw [hc] at this; cases this
        · have hmem : q.1 ∈ (s.live.map (·.1)).filter (fun x => X.contains x) := List.mem_filter.mpr ⟨hm, hc⟩
          simpa using hmem
      simp only [Function.comp, key]
    show JInv s.S _ ((s.live.filter (fun q => !X.contains q.1)).map (·.1))
    rw [e]; exact hj
  · exact hw

theorem jinv_of_perm {S : List Nat} {p : Policy} {l l' : List Nat} (h : JInv S p l) (hp : l.Perm l') : JInv S p l' :=
  ⟨h.reach, h.quiet, hp.nodup_iff.mp h.nodup, fun id => by rw [← hp.mem_iff]; exact h.alive id⟩

theorem perm_move (l : List Nat) (id : Nat) (hn : l.Nodup) (hm : id ∈ l) : l.Perm (id :: l.filter (· != id)) := by
  rw [List.perm_ext_iff_of_nodup hn]
  · intro x
    rw [List.mem_cons, List.mem_filter]
    constructor
    · intro hx
      by_cases e : x = id
      · exact Or.inl e
      · exact Or.inr ⟨hx, by simpa using e⟩
    · rintro (e | ⟨hx, _⟩)
      · rw [e]; exact hm
      · exact hx
  · rw [List.nodup_cons]
    refine ⟨?_, List.Nodup.sublist List.filter_sublist hn⟩
    intro hx; have := (List.mem_filter.mp hx).2; simp at this

/-- **a drained read that moved the deadline, through both policies** (onAccess): policy.access, the node unscheduled and
    scheduled again with its new deadline, then the eviction pass and the callback -/
def cread (s : CState) (id d' : Nat) : CState :=
  let p' := evictNodes (access s.p id)
  let l1 := (id, d') :: s.live.filter (fun q => q.1 != id)
  { S := s.S, p := p',
    w := (victims p' l1).foldl Impl.Wheel.delete (Impl.Wheel.add (Impl.Wheel.delete s.w id) id d'),
    live := l1.filter (fun q => !(victims p' l1).contains q.1) }

theorem cread_inv (s : CState) (h : CInv s) (id d' : Nat) (hm : id ∈ s.live.map (·.1)) (hd : d' < Impl.Wheel.two64) :
    CInv (cread s id d') := by
  have hj := jmove h.pol (Reach.access id h.pol.reach) (Dn.of_mv (mv_access _ id (reach_inv h.pol.reach).c))
  have hw1 := Impl.Wheel.wj_remove h.whl id
  have hnl : id ∉ (s.live.filter (fun q => q.1 != id)).map (·.1) := by
    intro hx
    obtain ⟨q, hq, e⟩ := List.mem_map.mp hx
    have := (List.mem_filter.mp hq).2
    simp [e] at this
  have hw := Impl.Wheel.wj_insert hw1 id d' hd hnl
  unfold cread
  simp only
  generalize evictNodes (access s.p id) = p' at hj ⊢
  constructor
  · show JInv s.S p' ((((id, d') :: s.live.filter (fun q => q.1 != id)).filter
        (fun q => !(victims p' ((id, d') :: s.live.filter (fun q => q.1 != id))).contains q.1)).map (·.1))
    rw [survivors_map p' ((id, d') :: s.live.filter (fun q => q.1 != id)), List.map_cons, map_filter_ne]
    exact jinv_of_perm hj ((perm_move _ id h.pol.nodup hm).filter _)
  · exact wj_remove_many hw _

/-! ### histories of the combined state -/

inductive COp where
  | insert (id key wt d : Nat) | replace (id old key wt d : Nat) | remove (old : Nat) | expireOne (old : Nat)
  | sweep (T : Nat) | read (id d' : Nat)

/-- operations whose precondition fails are not steps of the cache (relation, not a function with `if d < 2^64`: see WheelJoint) -/
inductive CStep : CState → CState → Prop
  | insert (s : CState) (id key wt d : Nat) : id ∉ s.S → d < Impl.Wheel.two64 → CStep s (cinsert s id key wt d)
  | replace (s : CState) (id old key wt d : Nat) : id ∉ s.S → old ∈ s.live.map (·.1) → d < Impl.Wheel.two64 →
      CStep s (creplace s id old key wt d)
  | remove (s : CState) (old : Nat) : old ∈ s.live.map (·.1) → CStep s (cremove s old)
  | expireOne (s : CState) (old : Nat) : old ∈ s.live.map (·.1) → CStep s (cexpireOne s old)
  | read (s : CState) (id d' : Nat) : id ∈ s.live.map (·.1) → d' < Impl.Wheel.two64 → CStep s (cread s id d')
  | sweep (s s' : CState) (T : Nat) : s.w.time ≤ T → T < Impl.Wheel.two64 →
      s' = csweepWith s (Impl.Wheel.deleteExpired s.w T).2 (Impl.Wheel.deleteExpired s.w T).1 → CStep s s'

inductive CRun : CState → CState → Prop
  | done (s : CState) : CRun s s
  | step {s s' s'' : CState} : CStep s s' → CRun s' s'' → CRun s s''

theorem cstep_inv {s s' : CState} (st : CStep s s') (h : CInv s) : CInv s' := by
  cases st with
  | insert id key wt d hs hd => exact cinsert_inv s h id key wt d hs hd
  | replace id old key wt d hs ho hd => exact creplace_inv s h id old key wt d hs ho hd
  | remove old ho => exact cremove_inv s h old ho
  | expireOne old ho => exact cexpireOne_inv s h old ho
  | read id d' hm hd => exact cread_inv s h id d' hm hd
  | sweep _ T hle hT e => rw [e]; exact csweepWith_inv s h _ _ (Impl.Wheel.wj_sweep h.whl T hle hT)

/-- **both agreements after every history of insertions, removals and expirations** -/
theorem crun_inv {s s' : CState} (r : CRun s s') (h : CInv s) : CInv s' := by
  induction r with
  | done s => exact h
  | step st _ ih => exact ih (cstep_inv st h)

end OtterVerif.Proofs.CacheAll
