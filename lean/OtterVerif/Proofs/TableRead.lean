/-
  Proofs.TableRead — the observers of Impl.Table refine the spec's: GetEntryQuietly, GetEntry (the snapshot nodeToEntry
  builds) and the iteration filter of cache.nodes() (All / Keys / Values / entries).

  The snapshot shows "unreachable" for a deadline whose policy is off; the spec's entries carry maxI64 there.  That the
  table's nodes do too is the invariant `Unreach`, shown to be established by every write (atomicSet) and kept by every read.
-/
import OtterVerif.Proofs.TableTrace

namespace OtterVerif.Proofs.TableRead
open OtterVerif OtterVerif.Impl.Table OtterVerif.Proofs.TableRefine OtterVerif.Proofs.TableTrace
open OtterVerif.Spec (Cause Event Out Entry Cfg Kind)

/-- a policy that is off leaves its deadline unreachable -/
def Unreach (c : TCfg) (n : TNode) : Prop := (c.withExp = false → n.exp = maxI64) ∧ (c.withRef = false → n.ref = maxI64)

theorem unreach_atomicSet (c : TCfg) (k v : Nat) (old : Option TNode) (now : Int) (kd : RefKind) :
    Unreach c (atomicSet c k v old now kd).1 := by
  unfold atomicSet
  simp only
  constructor
  · intro h
    unfold calcRefreshableAt calcExpiresAtAfterWrite newNode
    simp only [h, Bool.not_false, ↓reduceIte, Bool.false_eq_true]
    repeat' split
    all_goals rfl
  · intro h
    unfold calcRefreshableAt
    simp only [h, Bool.not_false, ↓reduceIte]
    unfold calcExpiresAtAfterWrite newNode
    simp only [h, Bool.false_eq_true, ↓reduceIte]
    repeat' split
    all_goals rfl

theorem unreach_read (c : TCfg) (n : TNode) (now : Int) (h : Unreach c n) : Unreach c (calcExpiresAtAfterRead c n now) := by
  unfold calcExpiresAtAfterRead
  constructor
  · intro hx
    simp only [hx, Bool.not_false, ↓reduceIte]
    exact h.1 hx
  · intro hr
    dsimp only
    repeat' split
    all_goals exact h.2 hr

/-- nodeToEntry of a well-formed node is the spec's snapshot of the abstracted entry -/
theorem nodeToEntry_abs (c : Cfg) (s : Spec.State) (n : TNode) (h : Unreach (cfgOf c) n) :
    nodeToEntry (cfgOf c) n s.now = ((absN n).val, (absN n).weight, (absN n).exp, (absN n).ref, Spec.snapshotAt c s) := by
  unfold nodeToEntry Spec.snapshotAt absN Cfg.withTime
  have h1 : (if (cfgOf c).withExp = true then n.exp else maxI64) = n.exp := by
    cases hx : (cfgOf c).withExp
    · simp only [Bool.false_eq_true, ↓reduceIte]; exact (h.1 hx).symm
    · rfl
  have h2 : (if (cfgOf c).withRef = true then n.ref else maxI64) = n.ref := by
    cases hx : (cfgOf c).withRef
    · simp only [Bool.false_eq_true, ↓reduceIte]; exact (h.2 hx).symm
    · rfl
  rw [h1, h2]
  rfl

/-- **GetEntryQuietly**: the snapshot of the live entry, or nothing; no state change on either side -/
theorem getEntryQuietly_refines (c : Cfg) (s : Spec.State) (t : Tbl) (k : Nat) (hs : s.m = absT t)
    (hu : ∀ o, lookup t k = some o → Unreach (cfgOf c) o) :
    getEntryQuietly (cfgOf c) t k s.now = Spec.getEntryQuietly c s k := by
  have hlive := live_abs s t k hs
  unfold getEntryQuietly Spec.getEntryQuietly
  cases hl : lookup t k with
  | none =>
    rw [hl] at hlive
    simp only [Option.map_none, Option.filter_none] at hlive
    simp only [hlive]
  | some o =>
    rw [hl] at hlive
    have hvis := visible_iff_live o s.now
    simp only [Option.map_some] at hlive
    cases hx : hasExpired o s.now
    · have hlv : (absN o).liveAt s.now = true := by rw [← hvis, hx]; rfl
      simp only [hlive, Option.filter, hlv, hx, ↓reduceIte, Bool.false_eq_true]
      rw [nodeToEntry_abs c s o (hu o hl)]
    · have hlv : (absN o).liveAt s.now = false := by rw [← hvis, hx]; rfl
      simp only [hlive, Option.filter, hlv, hx, ↓reduceIte, Bool.false_eq_true]

/-- **GetEntry**: the read's deadline is stored, the snapshot is taken of the node after the read -/
theorem getEntry_refines (c : Cfg) (s : Spec.State) (t : Tbl) (k : Nat) (hs : s.m = absT t)
    (hnow : -4611686018427387904 < s.now ∧ s.now < 4611686018427387904)
    (hwf : ∀ o, lookup t k = some o → NodeOk k o) (hu : ∀ o, lookup t k = some o → Unreach (cfgOf c) o) (hr : ReadOk c) :
    absT (getEntry (cfgOf c) t k s.now).1 = (Spec.getEntry c s k).1.m ∧
    (getEntry (cfgOf c) t k s.now).2 = (Spec.getEntry c s k).2 := by
  have hlive := live_abs s t k hs
  unfold getEntry Spec.getEntry Spec.lookup
  cases hl : lookup t k with
  | none =>
    rw [hl] at hlive
    simp only [Option.map_none, Option.filter_none] at hlive
    simp only [hlive]
    refine ⟨?_, ?_⟩ <;> first | exact hs.symm | rfl | trivial
  | some o =>
    rw [hl] at hlive
    obtain ⟨hkey, hmax, _, _⟩ := hwf o hl
    have hvis := visible_iff_live o s.now
    simp only [Option.map_some] at hlive
    cases hx : hasExpired o s.now
    · have hlv : (absN o).liveAt s.now = true := by rw [← hvis, hx]; rfl
      have hlt : s.now < o.exp := by unfold hasExpired at hx; simp at hx; exact hx
      have hread := read_refines c k o s.now hnow hkey hlt hmax hr
      simp only [hlive, Option.filter, hlv, hx, ↓reduceIte, Bool.false_eq_true]
      have hm : (Spec.touch c (Spec.hit s) k (absN o)).m = absT (store t k (calcExpiresAtAfterRead (cfgOf c) o s.now)) := by
        show Spec.put s.m k { absN o with exp := Spec.expAfterRead c s.now k (absN o) } = _
        rw [← put_absT, hread, hs]
      have hph : (Spec.touch c (Spec.hit s) k (absN o)).phys k = some (absN (calcExpiresAtAfterRead (cfgOf c) o s.now)) := by
        show Spec.find (Spec.put s.m k _) k = _
        rw [find_put, hread]
        rfl
      simp only [hph]
      refine ⟨hm.symm, ?_⟩
      rw [nodeToEntry_abs c s _ (unreach_read _ o s.now (hu o hl))]
    · have hlv : (absN o).liveAt s.now = false := by rw [← hvis, hx]; rfl
      simp only [hlive, Option.filter, hlv, hx, ↓reduceIte, Bool.false_eq_true]
      refine ⟨?_, ?_⟩ <;> first | exact hs.symm | rfl | trivial

/-! ### iteration -/

/-- cache.nodes(): the nodes handed to the consumer are those that have not expired at the clock value read for them (all at
    `now` here: one clock value per traversal step is the sequential case) -/
def liveNodes (t : Tbl) (now : Int) : Tbl := t.filter (fun p => !hasExpired p.2 now)

/-- **iteration yields exactly the spec's live entries** (before sorting), each physically present one once -/
theorem liveNodes_refines (s : Spec.State) (t : Tbl) (hs : s.m = absT t) :
    absT (liveNodes t s.now) = s.m.filter (fun p => p.2.liveAt s.now) := by
  rw [hs]
  unfold liveNodes absT
  rw [List.filter_map]
  congr 1
  apply List.filter_congr
  intro p _
  exact visible_iff_live p.2 s.now

/-- nothing expired is ever yielded -/
theorem liveNodes_unexpired (t : Tbl) (now : Int) (p : Nat × TNode) (h : p ∈ liveNodes t now) : now < p.2.exp := by
  have := (List.mem_filter.mp h).2
  unfold hasExpired at this
  simpa using this

end OtterVerif.Proofs.TableRead
