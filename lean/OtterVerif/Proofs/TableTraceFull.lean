/-
  Proofs.TableTraceFull — histories with loads and explicit deadlines.

  TableTrace relates tables and spec maps by list equality, which the spec's `setExpiresAfter`, `setRefreshableAfter` and
  `applyReloadFailure` do not preserve (they re-insert an entry even when nothing changes, the code does not touch the table).
  Here the relation is "same map" (`MapEq`): every spec operation is shown to respect it (`*_congr`), so each single-step
  refinement theorem lifts from `s.m = absT t` to `MapEq (absT t) s.m`, and the history theorem covers, besides the operations
  of TableTrace: the registration of a load (startCall), its completion with any outcome (finishCall: ok / error / not found,
  plain load or refresh, ordinary or volunteered key), SetExpiresAfter and SetRefreshableAfter.  The in-flight table of the
  single-flight group is part of both states and updated by the same rules (a write, an invalidation and a Compute that
  writes or invalidates unregister the key's call).
-/
import OtterVerif.Proofs.TableTrace

namespace OtterVerif.Proofs.TableTraceFull
open OtterVerif OtterVerif.Impl.Table OtterVerif.Proofs.TableRefine OtterVerif.Proofs.TableTrace
open OtterVerif.Spec (Cause Event Out Entry Cfg Kind)

/-! ### the spec's operations respect map equality -/

theorem find_erase_self (m : List (Nat × Entry)) (k : Nat) : Spec.find (Spec.erase m k) k = none := by
  unfold Spec.find Spec.erase
  induction m with
  | nil => rfl
  | cons p rest ih =>
    simp only [List.filter_cons]
    by_cases hp : p.1 = k
    · have h1 : (p.1 != k) = false := by simp [hp]
      simp only [h1, Bool.false_eq_true, ↓reduceIte]; exact ih
    · have h1 : (p.1 != k) = true := by simp [hp]
      have h2 : (p.1 == k) = false := by simp [hp]
      simp only [h1, ↓reduceIte, List.find?_cons, h2]; exact ih

theorem find_erase_other (m : List (Nat × Entry)) (k j : Nat) (h : j ≠ k) : Spec.find (Spec.erase m k) j = Spec.find m j := by
  unfold Spec.find Spec.erase
  congr 1
  induction m with
  | nil => rfl
  | cons p rest ih =>
    simp only [List.filter_cons, List.find?_cons]
    by_cases hp : p.1 = k
    · have h1 : (p.1 != k) = false := by simp [hp]
      have h2 : (p.1 == j) = false := by simp [hp, Ne.symm h]
      simp only [h1, h2, Bool.false_eq_true, ↓reduceIte]; exact ih
    · have h1 : (p.1 != k) = true := by simp [hp]
      simp only [h1, ↓reduceIte, List.find?_cons]
      cases (p.1 == j) <;> simp [ih]

theorem put_congr {a b : List (Nat × Entry)} (h : MapEq a b) (k : Nat) (e : Entry) : MapEq (Spec.put a k e) (Spec.put b k e) := by
  intro j
  by_cases hj : j = k
  · subst hj; rw [find_put, find_put]
  · rw [find_put_other _ _ _ _ hj, find_put_other _ _ _ _ hj]; exact h j

theorem erase_congr {a b : List (Nat × Entry)} (h : MapEq a b) (k : Nat) : MapEq (Spec.erase a k) (Spec.erase b k) := by
  intro j
  by_cases hj : j = k
  · subst hj; rw [find_erase_self, find_erase_self]
  · rw [find_erase_other _ _ _ hj, find_erase_other _ _ _ hj]; exact h j

/-- two spec states that denote the same cache (statistics aside) -/
structure SEq (s1 s2 : Spec.State) : Prop where
  m : MapEq s1.m s2.m
  now : s1.now = s2.now
  inflight : s1.inflight = s2.inflight

theorem SEq.phys {s1 s2 : Spec.State} (h : SEq s1 s2) (k : Nat) : s1.phys k = s2.phys k := h.m k
theorem SEq.live {s1 s2 : Spec.State} (h : SEq s1 s2) (k : Nat) : s1.live k = s2.live k := by
  unfold Spec.State.live; rw [h.phys k, h.now]
theorem SEq.inflightOf {s1 s2 : Spec.State} (h : SEq s1 s2) (k : Nat) : s1.inflightOf k = s2.inflightOf k := by
  unfold Spec.State.inflightOf; rw [h.inflight]
theorem SEq.clear {s1 s2 : Spec.State} (h : SEq s1 s2) (k : Nat) : SEq (s1.clearInflight k) (s2.clearInflight k) :=
  ⟨h.m, h.now, by show List.filter _ s1.inflight = List.filter _ s2.inflight; rw [h.inflight]⟩

theorem write_congr (c : Cfg) {s1 s2 : Spec.State} (h : SEq s1 s2) (k v : Nat) (wk : Spec.WriteKind) :
    SEq (Spec.write c s1 k v wk).1 (Spec.write c s2 k v wk).1 ∧ (Spec.write c s1 k v wk).2 = (Spec.write c s2 k v wk).2 := by
  unfold Spec.write
  simp only [h.live k, h.phys k, h.now]
  refine ⟨⟨put_congr h.m _ _, by first | rfl | exact h.now, h.inflight⟩, ?_⟩
  first | rfl | trivial

theorem remove_congr {s1 s2 : Spec.State} (h : SEq s1 s2) (k : Nat) (cz : Cause) :
    SEq (Spec.remove s1 k cz).1 (Spec.remove s2 k cz).1 ∧ (Spec.remove s1 k cz).2 = (Spec.remove s2 k cz).2 := by
  unfold Spec.remove
  rw [h.phys k]
  cases s2.phys k with
  | none => exact ⟨h, rfl⟩
  | some o => exact ⟨⟨erase_congr h.m _, h.now, h.inflight⟩, by simp only [h.now]⟩

theorem touch_congr (c : Cfg) {s1 s2 : Spec.State} (h : SEq s1 s2) (k : Nat) (e : Entry) :
    SEq (Spec.touch c s1 k e) (Spec.touch c s2 k e) := by
  unfold Spec.touch
  simp only [h.now]
  exact ⟨put_congr h.m _ _, by first | rfl | exact h.now, h.inflight⟩

theorem set_congr (c : Cfg) {s1 s2 : Spec.State} (h : SEq s1 s2) (k v : Nat) :
    SEq (Spec.set c s1 k v).1 (Spec.set c s2 k v).1 ∧ (Spec.set c s1 k v).2 = (Spec.set c s2 k v).2 := by
  have hw := write_congr c (h.clear k) k v .normal
  unfold Spec.set
  rw [h.live k]
  exact ⟨hw.1, by rw [Prod.mk.injEq]; exact ⟨rfl, hw.2⟩⟩

theorem setIfAbsent_congr (c : Cfg) {s1 s2 : Spec.State} (h : SEq s1 s2) (k v : Nat) :
    SEq (Spec.setIfAbsent c s1 k v).1 (Spec.setIfAbsent c s2 k v).1 ∧ (Spec.setIfAbsent c s1 k v).2 = (Spec.setIfAbsent c s2 k v).2 := by
  have hw := write_congr c (h.clear k) k v .normal
  unfold Spec.setIfAbsent
  rw [h.live k]
  cases s2.live k with
  | none => exact ⟨hw.1, by rw [Prod.mk.injEq]; exact ⟨rfl, hw.2⟩⟩
  | some o => exact ⟨touch_congr c h k o, rfl⟩

theorem invalidate_congr {s1 s2 : Spec.State} (h : SEq s1 s2) (k : Nat) :
    SEq (Spec.invalidate s1 k).1 (Spec.invalidate s2 k).1 ∧ (Spec.invalidate s1 k).2 = (Spec.invalidate s2 k).2 := by
  have hr := remove_congr (h.clear k) k .invalidation
  unfold Spec.invalidate
  rw [h.live k]
  exact ⟨hr.1, by rw [Prod.mk.injEq]; exact ⟨rfl, hr.2⟩⟩

theorem computeStep_congr (c : Cfg) {s1 s2 : Spec.State} (h : SEq s1 s2) (k : Nat) (act : Spec.Act) :
    SEq (Spec.computeStep c s1 k act).1 (Spec.computeStep c s2 k act).1 ∧
    (Spec.computeStep c s1 k act).2 = (Spec.computeStep c s2 k act).2 := by
  have hw := fun v => write_congr c (h.clear k) k v .normal
  have hr := remove_congr (h.clear k) k .invalidation
  unfold Spec.computeStep
  cases act with
  | panic => exact ⟨h, rfl⟩
  | bad => exact ⟨h, rfl⟩
  | write v => exact ⟨(hw v).1, by rw [Prod.mk.injEq]; exact ⟨rfl, (hw v).2⟩⟩
  | invalidate => exact ⟨hr.1, by rw [Prod.mk.injEq]; exact ⟨rfl, hr.2⟩⟩
  | cancel =>
    simp only [h.live k, h.phys k]
    cases s2.live k with
    | some o => exact ⟨h, rfl⟩
    | none =>
      cases s2.phys k with
      | none => exact ⟨h, rfl⟩
      | some o => exact ⟨hr.1, by rw [Prod.mk.injEq]; exact ⟨rfl, hr.2⟩⟩

theorem getIfPresent_congr (c : Cfg) {s1 s2 : Spec.State} (h : SEq s1 s2) (k : Nat) :
    SEq (Spec.getIfPresent c s1 k).1 (Spec.getIfPresent c s2 k).1 ∧ (Spec.getIfPresent c s1 k).2 = (Spec.getIfPresent c s2 k).2 := by
  unfold Spec.getIfPresent Spec.lookup
  rw [h.live k]
  cases hl : s2.live k with
  | none => exact ⟨⟨h.m, h.now, h.inflight⟩, rfl⟩
  | some e =>
    have hh : SEq (Spec.hit s1) (Spec.hit s2) := ⟨h.m, h.now, h.inflight⟩
    have ht := touch_congr c hh k e
    have hp := ht.phys k
    simp only [hp]
    cases (Spec.touch c (Spec.hit s2) k e).phys k with
    | none => exact ⟨ht, rfl⟩
    | some e' => exact ⟨ht, rfl⟩

theorem setExpiresAfter_congr (c : Cfg) {s1 s2 : Spec.State} (h : SEq s1 s2) (k : Nat) (d : Int) :
    SEq (Spec.setExpiresAfter c s1 k d) (Spec.setExpiresAfter c s2 k d) := by
  unfold Spec.setExpiresAfter
  split
  · rw [h.live k]
    cases s2.live k with
    | none => exact h
    | some e => simp only [h.now]; exact ⟨put_congr h.m _ _, by first | rfl | exact h.now, h.inflight⟩
  · exact h

theorem setRefreshableAfter_congr (c : Cfg) {s1 s2 : Spec.State} (h : SEq s1 s2) (k : Nat) (d : Int) :
    SEq (Spec.setRefreshableAfter c s1 k d) (Spec.setRefreshableAfter c s2 k d) := by
  unfold Spec.setRefreshableAfter
  split
  · rw [h.phys k]
    cases s2.phys k with
    | none => exact h
    | some e => simp only [h.now]; exact ⟨put_congr h.m _ _, by first | rfl | exact h.now, h.inflight⟩
  · exact h

theorem applyReloadFailure_congr (c : Cfg) {s1 s2 : Spec.State} (h : SEq s1 s2) (k : Nat) :
    SEq (Spec.applyReloadFailure c s1 k) (Spec.applyReloadFailure c s2 k) := by
  unfold Spec.applyReloadFailure
  rw [h.phys k]
  cases s2.phys k with
  | none => exact h
  | some e =>
    simp only
    split
    · simp only [h.now]; exact ⟨put_congr h.m _ _, by first | rfl | exact h.now, h.inflight⟩
    · exact h

theorem finishCall_congr (c : Cfg) {s1 s2 : Spec.State} (h : SEq s1 s2) (k cid : Nat) (isRefresh fake : Bool) (o : Spec.LoadOutcome) :
    SEq (Spec.finishCall c s1 k cid isRefresh fake o).1 (Spec.finishCall c s2 k cid isRefresh fake o).1 ∧
    (Spec.finishCall c s1 k cid isRefresh fake o).2 = (Spec.finishCall c s2 k cid isRefresh fake o).2 := by
  unfold Spec.finishCall
  rw [h.inflightOf k]
  have h2 : SEq (if s2.inflightOf k == some cid then s1.clearInflight k else s1) (if s2.inflightOf k == some cid then s2.clearInflight k else s2) := by
    split
    · exact h.clear k
    · exact h
  generalize (if s2.inflightOf k == some cid then s1.clearInflight k else s1) = a at h2 ⊢
  generalize (if s2.inflightOf k == some cid then s2.clearInflight k else s2) = b at h2 ⊢
  cases o with
  | notFound v =>
    simp only
    split
    · exact remove_congr h2 k .invalidation
    · exact ⟨h2, rfl⟩
  | err v =>
    simp only
    refine ⟨?_, by first | rfl | trivial⟩
    split
    · exact applyReloadFailure_congr c h2 k
    · exact h2
  | panic =>
    simp only
    refine ⟨?_, by first | rfl | trivial⟩
    split
    · exact applyReloadFailure_congr c h2 k
    · exact h2
  | ok v =>
    simp only
    split
    · rw [h2.live k]; exact write_congr c h2 k v _
    · exact ⟨h2, rfl⟩

/-! ### histories with loads and explicit deadlines -/

inductive FOp where
  | base (op : Op)
  | start (k cid : Nat)
  | finish (k cid : Nat) (isRefresh fake : Bool) (o : Spec.LoadOutcome)
  | setExp (k : Nat) (d : Int)
  | setRef (k : Nat) (d : Int)

structure FState where
  now : Int
  t : Tbl
  inflight : List (Nat × Nat)     -- the single-flight group: key ↦ registered call

def clearI (fl : List (Nat × Nat)) (k : Nat) : List (Nat × Nat) := fl.filter (fun p => p.1 != k)
def regOf (fl : List (Nat × Nat)) (k : Nat) : Option Nat := (fl.find? (fun p => p.1 == k)).map (·.2)

def toLoadOut : Spec.LoadOutcome → LoadOut
  | .ok v => .ok v | .err _ => .err | .notFound _ => .notFound | .panic => .err

/-- which operations unregister the key's call: as the code does it (singleflight.delete inside atomicSet / atomicDelete when
    no call is in hand) -/
def baseInflight (s : FState) : Op → List (Nat × Nat)
  | .set k _ => clearI s.inflight k
  | .setIfAbsent k _ => if lookupIsHit s.t k s.now then s.inflight else clearI s.inflight k
  | .invalidate k => clearI s.inflight k
  | .get _ => s.inflight
  | .compute k (.write _) => clearI s.inflight k
  | .compute k .invalidate => clearI s.inflight k
  | .compute k .cancel =>
    (match lookup s.t k with
     | some o => if hasExpired o s.now then clearI s.inflight k else s.inflight
     | none => s.inflight)
  | .compute _ _ => s.inflight
  | .advance _ => s.inflight

def fstep (c : Cfg) (s : FState) : FOp → FState × Out × List Event
  | .base op =>
    let r := istep c { now := s.now, t := s.t } op
    ({ now := r.1.now, t := r.1.t, inflight := baseInflight s op }, r.2)
  | .start k cid =>
    ((match regOf s.inflight k with
      | some _ => s
      | none => { s with inflight := (k, cid) :: s.inflight }), .unit, [])
  | .finish k cid isRefresh fake o =>
    let correct := fake || regOf s.inflight k == some cid
    let r := finishCall (cfgOf c) s.t k correct isRefresh (toLoadOut o) s.now
    ({ now := s.now, t := r.1, inflight := if regOf s.inflight k == some cid then clearI s.inflight k else s.inflight }, .unit, r.2)
  | .setExp k d => ({ s with t := setExpiresAfter (cfgOf c) s.t k d s.now }, .unit, [])
  | .setRef k d => ({ s with t := setRefreshableAfter (cfgOf c) s.t k d s.now }, .unit, [])

def fsstep (c : Cfg) (s : Spec.State) : FOp → Spec.State × Out × List Event
  | .base op => sstep c s op
  | .start k cid => ((Spec.startCall s k cid).1, .unit, [])
  | .finish k cid isRefresh fake o => let r := Spec.finishCall c s k cid isRefresh fake o; (r.1, .unit, r.2)
  | .setExp k d => (Spec.setExpiresAfter c s k d, .unit, [])
  | .setRef k d => (Spec.setRefreshableAfter c s k d, .unit, [])

/-- the simulation relation: same map, same clock, same in-flight table, well-formed table -/
structure FR (is : FState) (ss : Spec.State) : Prop where
  m : MapEq (absT is.t) ss.m
  now : ss.now = is.now
  inflight : ss.inflight = is.inflight
  ok : AllOk is.t

theorem MapEq.trans' {a b c : List (Nat × Entry)} (h1 : MapEq a b) (h2 : MapEq b c) : MapEq a c := fun j => (h1 j).trans (h2 j)
theorem MapEq.symm' {a b : List (Nat × Entry)} (h : MapEq a b) : MapEq b a := fun j => (h j).symm

theorem sstep_congr (c : Cfg) {s1 s2 : Spec.State} (h : SEq s1 s2) (op : Op) :
    SEq (sstep c s1 op).1 (sstep c s2 op).1 ∧ (sstep c s1 op).2 = (sstep c s2 op).2 := by
  cases op with
  | set k v => exact set_congr c h k v
  | setIfAbsent k v => exact setIfAbsent_congr c h k v
  | invalidate k => exact invalidate_congr h k
  | get k =>
    have := getIfPresent_congr c h k
    exact ⟨this.1, by show ((Spec.getIfPresent c s1 k).2, ([] : List Event)) = ((Spec.getIfPresent c s2 k).2, []); rw [this.2]⟩
  | compute k act => exact computeStep_congr c h k act
  | advance d => exact ⟨⟨h.m, by show s1.now + d = s2.now + d; rw [h.now], h.inflight⟩, rfl⟩

theorem spec_get_inflight (c : Cfg) (s : Spec.State) (k : Nat) : (Spec.getIfPresent c s k).1.inflight = s.inflight := by
  unfold Spec.getIfPresent Spec.lookup
  cases s.live k with
  | none => rfl
  | some e =>
    show (match ((Spec.touch c (Spec.hit s) k e), (Spec.touch c (Spec.hit s) k e).phys k) with
      | (s', some e) => (s', Out.valOk e.val true) | (s', none) => (s', Out.valOk 0 false)).1.inflight = s.inflight
    cases (Spec.touch c (Spec.hit s) k e).phys k <;> rfl

theorem remove_inflight (s : Spec.State) (k : Nat) (cz : Cause) : (Spec.remove s k cz).1.inflight = s.inflight := by
  unfold Spec.remove; cases s.phys k <;> rfl

/-- the spec unregisters a key's call exactly where the code does -/
theorem base_inflight (c : Cfg) (is : FState) (s : Spec.State) (op : Op) (hm : s.m = absT is.t) (hnow : s.now = is.now)
    (hfl : s.inflight = is.inflight) : (sstep c s op).1.inflight = baseInflight is op := by
  have hlive := live_abs s is.t
  have hphys := phys_abs s is.t
  cases op with
  | set k v => show (s.clearInflight k).inflight = clearI is.inflight k; rw [← hfl]; rfl
  | setIfAbsent k v =>
    have hhit := lookupIsHit_live s is.t k hm
    rw [hnow] at hhit
    show (Spec.setIfAbsent c s k v).1.inflight = (if lookupIsHit is.t k is.now then is.inflight else clearI is.inflight k)
    rw [hhit]
    unfold Spec.setIfAbsent
    cases s.live k with
    | none => show (s.clearInflight k).inflight = _; rw [← hfl]; rfl
    | some o => show s.inflight = _; rw [hfl]; rfl
  | invalidate k =>
    show (Spec.invalidate s k).1.inflight = clearI is.inflight k
    unfold Spec.invalidate
    show (Spec.remove (s.clearInflight k) k .invalidation).1.inflight = _
    rw [remove_inflight, ← hfl]; rfl
  | get k => show (Spec.getIfPresent c s k).1.inflight = is.inflight; rw [spec_get_inflight, hfl]
  | compute k act =>
    cases act with
    | panic => show s.inflight = is.inflight; exact hfl
    | bad => show s.inflight = is.inflight; exact hfl
    | write v => show (s.clearInflight k).inflight = clearI is.inflight k; rw [← hfl]; rfl
    | invalidate =>
      show (Spec.remove (s.clearInflight k) k .invalidation).1.inflight = clearI is.inflight k
      rw [remove_inflight, ← hfl]; rfl
    | cancel =>
      show (Spec.computeStep c s k .cancel).1.inflight = (match lookup is.t k with
         | some o => if hasExpired o is.now then clearI is.inflight k else is.inflight
         | none => is.inflight)
      unfold Spec.computeStep
      have hl := hlive k hm
      have hp := hphys k hm
      cases hlk : lookup is.t k with
      | none =>
        rw [hlk] at hl hp
        simp only [Option.map_none, Option.filter_none] at hl hp
        simp only [hl, hp]; exact hfl
      | some o =>
        rw [hlk] at hl hp
        simp only [Option.map_some] at hl hp
        have hvis := visible_iff_live o s.now
        rw [hnow] at hvis hl
        cases hx : hasExpired o is.now
        · have hlv : (absN o).liveAt is.now = true := by rw [← hvis, hx]; rfl
          simp only [hl, Option.filter, hlv, hx, ↓reduceIte, Bool.false_eq_true]; exact hfl
        · have hlv : (absN o).liveAt is.now = false := by rw [← hvis, hx]; rfl
          simp only [hl, Option.filter, hlv, hp, hx, ↓reduceIte, Bool.false_eq_true]
          rw [remove_inflight, ← hfl]; rfl
  | advance d => show s.inflight = is.inflight; exact hfl

theorem regOf_eq (s : Spec.State) (fl : List (Nat × Nat)) (h : s.inflight = fl) (k : Nat) : s.inflightOf k = regOf fl k := by
  unfold Spec.State.inflightOf regOf; rw [h]

theorem allOk_finish (cfg : TCfg) (t : Tbl) (k : Nat) (correct isRefresh : Bool) (o : LoadOut) (now : Int)
    (h : AllOk t) (hn : InRange now) : AllOk (finishCall cfg t k correct isRefresh o now).1 := by
  unfold finishCall
  cases o with
  | notFound =>
    simp only
    split
    · cases hl : lookup t k with
      | none => exact h
      | some x => exact allOk_unlink _ _ h
    · exact h
  | err =>
    simp only
    cases hl : lookup t k with
    | none => exact h
    | some x =>
      simp only
      obtain ⟨h1, h2, h3, h4⟩ := h k x hl
      repeat' split
      all_goals first
        | exact h
        | (rename_i hg
           apply allOk_store _ _ _ h
           refine ⟨h1, h2, deadlineAfter_ge _ _ hn ?_, deadlineAfter_le _ _⟩
           simp only [Bool.and_eq_true, decide_eq_true_eq] at hg; exact hg.1)
  | ok v =>
    simp only
    split
    · exact allOk_store _ _ _ h (atomicSet_ok _ _ _ _ _ _ hn (fun o ho => h k o ho))
    · exact h

theorem allOk_setExp (cfg : TCfg) (t : Tbl) (k : Nat) (d now : Int) (h : AllOk t) : AllOk (setExpiresAfter cfg t k d now) := by
  unfold setExpiresAfter
  split
  · exact h
  · cases hl : lookup t k with
    | none => exact h
    | some n =>
      simp only
      obtain ⟨h1, h2, h3, h4⟩ := h k n hl
      repeat' split
      all_goals first
        | exact h
        | exact allOk_store _ _ _ h ⟨h1, deadlineAfter_le _ _, h3, h4⟩

theorem allOk_setRef (cfg : TCfg) (t : Tbl) (k : Nat) (d now : Int) (h : AllOk t) (hn : InRange now) :
    AllOk (setRefreshableAfter cfg t k d now) := by
  unfold setRefreshableAfter
  split
  · exact h
  · rename_i hg
    cases hl : lookup t k with
    | none => exact h
    | some n =>
      simp only
      obtain ⟨h1, h2, h3, h4⟩ := h k n hl
      split
      · rename_i hg2
        apply allOk_store _ _ _ h
        refine ⟨h1, h2, deadlineAfter_ge _ _ hn ?_, deadlineAfter_le _ _⟩
        simp only [Bool.and_eq_true, decide_eq_true_eq] at hg2; exact hg2.1
      · exact h

/-- one step of a full history -/
theorem fstep_sim (c : Cfg) (is : FState) (ss : Spec.State) (op : FOp) (R : FR is ss) (hn : InRange is.now)
    (hk1 : KindOk c.expiry) (hk2 : KindOk c.refresh) (hr : ReadOk c) :
    FR (fstep c is op).1 (fsstep c ss op).1 ∧ (fstep c is op).2 = (fsstep c ss op).2 := by
  -- the spec state with the table's own list as its map: the single-step theorems apply to it, congruence does the rest
  let s0 : Spec.State := { ss with m := absT is.t }
  have hstar : SEq s0 ss := ⟨R.m, rfl, rfl⟩
  have hn0 : -4611686018427387904 < s0.now ∧ s0.now < 4611686018427387904 := by show _ < ss.now ∧ ss.now < _; rw [R.now]; exact hn
  cases op with
  | base op =>
    have hsim := step_sim c { now := is.now, t := is.t } s0 op rfl R.now R.ok hn hk1 hk2 hr
    have hc := sstep_congr c hstar op
    have hfl := base_inflight c is s0 op rfl R.now R.inflight
    refine ⟨⟨?_, ?_, ?_, istep_allOk c { now := is.now, t := is.t } op R.ok hn⟩, ?_⟩
    · show MapEq (absT (istep c { now := is.now, t := is.t } op).1.t) (sstep c ss op).1.m
      rw [← hsim.1]; exact hc.1.m
    · show (sstep c ss op).1.now = (istep c { now := is.now, t := is.t } op).1.now
      rw [← hc.1.now]; exact hsim.2.1
    · show (sstep c ss op).1.inflight = baseInflight is op
      rw [← hc.1.inflight]; exact hfl
    · show (istep c { now := is.now, t := is.t } op).2 = (sstep c ss op).2
      rw [hsim.2.2]; exact hc.2
  | start k cid =>
    have hreg := regOf_eq ss is.inflight R.inflight k
    show FR (match regOf is.inflight k with | some _ => is | none => { is with inflight := (k, cid) :: is.inflight }) (Spec.startCall ss k cid).1 ∧ _
    unfold Spec.startCall
    rw [hreg]
    cases regOf is.inflight k with
    | some _ => exact ⟨R, rfl⟩
    | none => exact ⟨⟨R.m, R.now, by show (k, cid) :: ss.inflight = (k, cid) :: is.inflight; rw [R.inflight], R.ok⟩, rfl⟩
  | finish k cid isRefresh fake o =>
    have hreg0 : s0.inflightOf k = regOf is.inflight k := regOf_eq s0 is.inflight R.inflight k
    have hreg : ss.inflightOf k = regOf is.inflight k := regOf_eq ss is.inflight R.inflight k
    have href := finishCall_refines c s0 is.t k cid isRefresh fake rfl hn0 (R.ok k) hk1 hk2
    have hc := finishCall_congr c hstar k cid isRefresh fake o
    have hnow0 : s0.now = is.now := R.now
    simp only [hreg0, hnow0] at href
    -- the spec's own bookkeeping of the in-flight table
    have hfl : (Spec.finishCall c ss k cid isRefresh fake o).1.inflight
        = (if regOf is.inflight k == some cid then clearI is.inflight k else is.inflight) := by
      unfold Spec.finishCall
      rw [hreg]
      have hclr : (ss.clearInflight k).inflight = clearI is.inflight k := by rw [← R.inflight]; rfl
      cases o <;> simp only <;> (repeat' split) <;>
        first
          | exact hclr | exact R.inflight
          | (rw [remove_inflight]; first | exact hclr | exact R.inflight)
          | (unfold Spec.applyReloadFailure; (repeat' split) <;> first | exact hclr | exact R.inflight)
          | (unfold Spec.write; first | exact hclr | exact R.inflight)
    have hnowS : (Spec.finishCall c ss k cid isRefresh fake o).1.now = is.now := by
      rw [← hc.1.now]
      unfold Spec.finishCall
      cases o <;> simp only <;> (repeat' split) <;>
        first
          | exact R.now
          | (unfold Spec.remove; (repeat' split) <;> exact R.now)
          | (unfold Spec.applyReloadFailure; (repeat' split) <;> exact R.now)
          | (unfold Spec.write; exact R.now)
    have hmain : MapEq (absT (finishCall (cfgOf c) is.t k (fake || regOf is.inflight k == some cid) isRefresh (toLoadOut o) is.now).1)
          (Spec.finishCall c s0 k cid isRefresh fake o).1.m ∧
        (finishCall (cfgOf c) is.t k (fake || regOf is.inflight k == some cid) isRefresh (toLoadOut o) is.now).2
          = (Spec.finishCall c s0 k cid isRefresh fake o).2 := by
      cases o with
      | ok v => exact href.1 v
      | notFound v => exact href.2.1 v
      | err v => exact href.2.2 v
      | panic => exact href.2.2 0
    refine ⟨⟨MapEq.trans' hmain.1 hc.1.m, hnowS, hfl, allOk_finish _ _ _ _ _ _ _ R.ok hn⟩, ?_⟩
    show (Out.unit, _) = (Out.unit, _)
    rw [hmain.2, hc.2]
  | setExp k d =>
    have href := setExpiresAfter_refines c s0 is.t k d rfl hn0 (R.ok k)
    have hc := setExpiresAfter_congr c hstar k d
    have hnow0 : s0.now = is.now := R.now
    rw [hnow0] at href
    refine ⟨⟨MapEq.trans' href hc.m, ?_, ?_, allOk_setExp _ _ _ _ _ R.ok⟩, rfl⟩
    · show (Spec.setExpiresAfter c ss k d).now = is.now
      unfold Spec.setExpiresAfter; (repeat' split) <;> exact R.now
    · show (Spec.setExpiresAfter c ss k d).inflight = is.inflight
      unfold Spec.setExpiresAfter; (repeat' split) <;> exact R.inflight
  | setRef k d =>
    have href := setRefreshableAfter_refines c s0 is.t k d rfl hn0 (R.ok k)
    have hc := setRefreshableAfter_congr c hstar k d
    have hnow0 : s0.now = is.now := R.now
    rw [hnow0] at href
    refine ⟨⟨MapEq.trans' href hc.m, ?_, ?_, allOk_setRef _ _ _ _ _ R.ok hn⟩, rfl⟩
    · show (Spec.setRefreshableAfter c ss k d).now = is.now
      unfold Spec.setRefreshableAfter; (repeat' split) <;> exact R.now
    · show (Spec.setRefreshableAfter c ss k d).inflight = is.inflight
      unfold Spec.setRefreshableAfter; (repeat' split) <;> exact R.inflight

def firun (c : Cfg) : FState → List FOp → FState × List (Out × List Event)
  | s, [] => (s, [])
  | s, op :: rest => let r := fstep c s op; let q := firun c r.1 rest; (q.1, r.2 :: q.2)

def fsrun (c : Cfg) : Spec.State → List FOp → Spec.State × List (Out × List Event)
  | s, [] => (s, [])
  | s, op :: rest => let r := fsstep c s op; let q := fsrun c r.1 rest; (q.1, r.2 :: q.2)

def FClockOk (now : Int) : List FOp → Prop
  | [] => InRange now
  | .base (.advance d) :: rest => InRange now ∧ FClockOk (now + d) rest
  | _ :: rest => InRange now ∧ FClockOk now rest

theorem fstep_now (c : Cfg) (is : FState) (op : FOp) :
    (fstep c is op).1.now = (match op with | .base (.advance d) => is.now + d | _ => is.now) := by
  cases op with
  | base op => cases op <;> rfl
  | start k cid => show (match regOf is.inflight k with | some _ => is | none => _).now = is.now; cases regOf is.inflight k <;> rfl
  | finish k cid r f o => rfl
  | setExp k d => rfl
  | setRef k d => rfl

/-- **every history, loads and explicit deadlines included** -/
theorem full_history_sim (c : Cfg) (hk1 : KindOk c.expiry) (hk2 : KindOk c.refresh) (hr : ReadOk c) (ops : List FOp) :
    ∀ (is : FState) (ss : Spec.State), FR is ss → FClockOk is.now ops →
      (firun c is ops).2 = (fsrun c ss ops).2 ∧ FR (firun c is ops).1 (fsrun c ss ops).1 := by
  induction ops with
  | nil => intro is ss R _; exact ⟨rfl, R⟩
  | cons op rest ih =>
    intro is ss R hclk
    have hn : InRange is.now := by
      cases op with
      | base o => cases o <;> exact hclk.1
      | _ => exact hclk.1
    have hstep := fstep_sim c is ss op R hn hk1 hk2 hr
    have hclk' : FClockOk (fstep c is op).1.now rest := by
      rw [fstep_now]
      cases op with
      | base o => cases o <;> exact hclk.2
      | _ => exact hclk.2
    have := ih (fstep c is op).1 (fsstep c ss op).1 hstep.1 hclk'
    exact ⟨by show _ :: _ = _ :: _; rw [hstep.2, this.1], this.2⟩

end OtterVerif.Proofs.TableTraceFull
