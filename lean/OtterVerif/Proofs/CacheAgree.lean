/-
  Proofs.CacheAgree — the size policy's running total is the table's total weight (first piece of the composition
  policy ↔ table that DESIGN 5.5 planned as `Impl.Cache`).

  The policy side is fully proven elsewhere for every reachable state of Impl.Policy (Proofs.PolicyLink / PolicyWeight):
  weightedSize = Σ weights of the linked nodes (uint64), no node linked twice, and at quiescence linked ⇔ introduced ∧ alive.
  What connects it to the table is LOCAL: a node is `alive` exactly while it is the node mapped under its key (makeRetired is
  called in the very table computation that unlinks it, newNode creates it alive), and it carries the weight the weigher gave
  the entry.  `Agree` states just that, through the list of node identities of the mapped entries; from it the sums follow.
-/
import OtterVerif.Proofs.PolicyWeight
import OtterVerif.Proofs.PolicyBound
import OtterVerif.Proofs.TableRefine

namespace OtterVerif.Proofs.CacheAgree
open OtterVerif OtterVerif.Impl.Policy OtterVerif.Impl.Table

/-- the local agreement between the policy's node records and the table: `live` lists the node identity of every mapped
    entry, in table order -/
structure Agree (S : List Nat) (p : Policy) (t : Tbl) (live : List Nat) : Prop where
  /-- one identity per mapped entry -/
  nodup : live.Nodup
  /-- a node is alive (and its write event has been replayed) exactly while it is mapped -/
  alive : ∀ id, id ∈ live ↔ (id ∈ S ∧ (p.node id).st = .alive)
  /-- the node carries the entry's weight -/
  weights : live.map (fun id => (p.node id).weight) = t.map (fun e => e.2.weight)

/-- every removed node's delete event has been replayed: no introduced node is merely retired -/
def Quiescent (S : List Nat) (p : Policy) : Prop := ∀ id, id ∈ S → (p.node id).st ≠ .alive → (p.node id).st = .dead

theorem wsum_eq_ofNat (p : Policy) (l : List Nat) :
    wsum p l = BitVec.ofNat 64 ((l.map (fun id => (p.node id).weight)).sum) := by
  induction l with
  | nil => rfl
  | cons x rest ih =>
    show wt p x + wsum p rest = _
    rw [ih, List.map_cons, List.sum_cons, BitVec.ofNat_add]
    rfl

theorem foldl_add_eq_sum (l : List Nat) (a : Nat) : l.foldl (· + ·) a = a + l.sum := by
  induction l generalizing a with
  | nil => simp
  | cons x rest ih => rw [List.foldl_cons, ih, List.sum_cons]; omega

/-- the spec's total weight of the abstracted table is the plain sum of the mapped entries' weights -/
theorem totalWeight_abs (s : Spec.State) (t : Tbl) (hs : s.m = Proofs.TableRefine.absT t) :
    s.totalWeight = (t.map (fun e => e.2.weight)).sum := by
  unfold Spec.State.totalWeight
  rw [hs, foldl_add_eq_sum, Nat.zero_add]
  unfold Proofs.TableRefine.absT
  rw [List.map_map]
  rfl

/-- **at quiescence the deques hold exactly the mapped entries' nodes** (as a permutation) -/
theorem linked_perm_live {S : List Nat} {p : Policy} {t : Tbl} {live : List Nat} (h : Reach S p) (hq : Quiescent S p)
    (ha : Agree S p t live) : (all p).Perm live := by
  rw [List.perm_ext_iff_of_nodup (reach_inv h).c ha.nodup]
  intro id
  rw [ha.alive id, ← linked_iff_all]
  constructor
  · intro hl
    have hnd := (reach_inv h).a id ((linked_iff_all p id).mp hl)
    refine ⟨hnd.1, ?_⟩
    cases hst : (p.node id).st with
    | alive => rfl
    | retired =>
      exact absurd (hq id hnd.1 (by rw [hst]; exact fun e => NState.noConfusion e)) (by rw [hst]; exact fun e => NState.noConfusion e)
    | dead => exact absurd hst hnd.2
  · intro ⟨hs, hal⟩
    exact (linked_iff_all p id).mpr ((reach_inv h).b id hs hal)

/-- **the policy's running total is the table's total weight** (uint64; exact when the total fits 64 bits) -/
theorem weightedSize_is_table_weight {S : List Nat} {p : Policy} {t : Tbl} {live : List Nat} (h : Reach S p)
    (hq : Quiescent S p) (ha : Agree S p t live) :
    p.weightedSize = BitVec.ofNat 64 ((t.map (fun e => e.2.weight)).sum) := by
  have hw : p.weightedSize = wsum p (all p) := reach_winv h
  rw [hw, wsum_perm p (linked_perm_live h hq ha), wsum_eq_ofNat, ha.weights]

theorem weightedSize_toNat {S : List Nat} {p : Policy} {t : Tbl} {live : List Nat} (h : Reach S p)
    (hq : Quiescent S p) (ha : Agree S p t live) (s : Spec.State) (hs : s.m = Proofs.TableRefine.absT t)
    (hfit : s.totalWeight < 2 ^ 64) : p.weightedSize.toNat = s.totalWeight := by
  rw [weightedSize_is_table_weight h hq ha, ← totalWeight_abs s t hs, BitVec.toNat_ofNat]
  exact Nat.mod_eq_of_lt hfit

end OtterVerif.Proofs.CacheAgree
