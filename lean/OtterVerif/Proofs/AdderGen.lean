/-
  Proofs.AdderGen — the striped counter (Conc.Adder) against the REGENERATED computations of internal/xsync/adder.go:
  the stripe an Add picks lies inside the stripe array (mask = nstripes - 1, nstripes a power of two), the CAS installs
  `cnt + delta`, and Value starts from 0, visits every stripe index below len(stripes) once and adds each stripe's load.
-/
import OtterVerif.Gen.AdderSites

namespace OtterVerif.Proofs.AdderGen
open OtterVerif OtterVerif.Gen.AdderSites

/-- the stripe index is in range -/
theorem stripe_in_range (n idx : BitVec 32) (k : Nat) (hk : k ≤ 31) (hn : n.toNat = 2 ^ k) :
    (Adder_Add_x0 (NewAdder_x0 n) idx).toNat = idx.toNat % 2 ^ k ∧ (Adder_Add_x0 (NewAdder_x0 n) idx).toNat < n.toNat := by
  have hp : 0 < 2 ^ k := Nat.pow_pos (by decide)
  have hle : 2 ^ k ≤ 2 ^ 31 := Nat.pow_le_pow_right (by decide) hk
  have hm : (NewAdder_x0 n).toNat = 2 ^ k - 1 := by
    unfold NewAdder_x0
    rw [BitVec.toNat_sub]
    have h1 : (1#32).toNat = 1 := by decide
    rw [h1, hn]
    have e : 2 ^ 32 - 1 + 2 ^ k = (2 ^ k - 1) + 2 ^ 32 := by omega
    rw [e, Nat.add_mod_right, Nat.mod_eq_of_lt (by omega)]
  have h1 : (Adder_Add_x0 (NewAdder_x0 n) idx).toNat = idx.toNat % 2 ^ k := by
    unfold Adder_Add_x0
    rw [BitVec.toNat_and, hm, Nat.and_two_pow_sub_one_eq_mod]
  refine ⟨h1, ?_⟩
  rw [h1, hn]; exact Nat.mod_lt _ hp

/-- an Add installs the old count plus its delta (64-bit wrap, as the counter itself) -/
theorem add_installs (cnt delta : BitVec 64) : Adder_Add_x1 cnt delta = cnt + delta := by
  first | rfl | simp [Adder_Add_x1, BitVec.add_comm]

/-- Value: from zero, over every stripe index below the number of stripes, adding each stripe's load -/
theorem value_walk (i len v x : BitVec 64) (hi : i.toNat < 2 ^ 62) (hl : len.toNat < 2 ^ 62) :
    Adder_Value_a0 = 0#64 ∧ Adder_Value_a1 = 0#64 ∧ Adder_Value_c0 i len = decide (i.toNat < len.toNat) ∧
    Adder_Value_u0 i = i + 1#64 ∧ Adder_Value_u1 x v = v + x ∧ Adder_Value_r0 v = v := by
  refine ⟨rfl, rfl, ?_, by first | rfl | simp [Adder_Value_u0, BitVec.add_comm], by first | rfl | simp [Adder_Value_u1, BitVec.add_comm], rfl⟩
  unfold Adder_Value_c0
  rw [BitVec.slt_eq_decide, BitVec.toInt_eq_toNat_cond, BitVec.toInt_eq_toNat_cond]
  have e1 : 2 * i.toNat < 2 ^ 64 := by omega
  have e2 : 2 * len.toNat < 2 ^ 64 := by omega
  simp only [e1, e2, ↓reduceIte]
  congr 1
  apply propext
  constructor <;> intro h <;> omega

end OtterVerif.Proofs.AdderGen
