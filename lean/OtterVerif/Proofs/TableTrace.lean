/-
  Proofs.TableTrace — from single steps to histories: ANY sequence of Set / SetIfAbsent / Invalidate / GetIfPresent /
  Compute (with any answers of its function) / clock advances, run on Impl.Table from the empty table, produces step by
  step the results and atomic deletion events the spec produces, and ends in a table that abstracts to the spec's map.

  The induction carries the well-formedness invariant the single-step theorems need (`AllOk`: every node is stored under
  its own key and its deadlines are int64 values, refresh deadlines not below -2^62); the only hypothesis about the history
  is that the clock stays within ±2^62 ns (±146 years) of the reference point.
-/
import OtterVerif.Proofs.TableRefine

namespace OtterVerif.Proofs.TableTrace
open OtterVerif OtterVerif.Impl.Table OtterVerif.Proofs.TableRefine
open OtterVerif.Spec (Cause Event Out Entry Cfg Kind)

inductive Op where
  | set (k v : Nat) | setIfAbsent (k v : Nat) | invalidate (k : Nat) | get (k : Nat)
  | compute (k : Nat) (act : Spec.Act) | advance (d : Int)
  deriving Repr

structure IState where
  now : Int
  t : Tbl

def istep (c : Cfg) (s : IState) : Op → IState × Out × List Event
  | .set k v => let r := Impl.Table.set (cfgOf c) s.t k v false s.now; ({ s with t := r.1 }, r.2.1, r.2.2)
  | .setIfAbsent k v => let r := Impl.Table.set (cfgOf c) s.t k v true s.now; ({ s with t := r.1 }, r.2.1, r.2.2)
  | .invalidate k => let r := invalidate s.t k s.now; ({ s with t := r.1 }, r.2.1, r.2.2)
  | .get k => let r := getIfPresent (cfgOf c) s.t k s.now; ({ s with t := r.1 }, r.2, [])
  | .compute k act => let r := computeStep (cfgOf c) s.t k act s.now; ({ s with t := r.1 }, r.2.1, r.2.2)
  | .advance d => ({ s with now := s.now + d }, .unit, [])

def sstep (c : Cfg) (s : Spec.State) : Op → Spec.State × Out × List Event
  | .set k v => Spec.set c s k v
  | .setIfAbsent k v => Spec.setIfAbsent c s k v
  | .invalidate k => Spec.invalidate s k
  | .get k => let r := Spec.getIfPresent c s k; (r.1, r.2, [])
  | .compute k act => Spec.computeStep c s k act
  | .advance d => (Spec.advance s d, .unit, [])

/-- every node sits under its own key and carries int64 deadlines -/
def AllOk (t : Tbl) : Prop := ∀ k o, lookup t k = some o → NodeOk k o

def InRange (now : Int) : Prop := -4611686018427387904 < now ∧ now < 4611686018427387904

theorem lookup_store_self (t : Tbl) (k : Nat) (n : TNode) : lookup (store t k n) k = some n := by
  unfold lookup store; simp

theorem lookup_store_other (t : Tbl) (k j : Nat) (n : TNode) (h : j ≠ k) : lookup (store t k n) j = lookup t j := by
  unfold lookup store
  have hkj : (k == j) = false := by simp [Ne.symm h]
  simp only [List.find?_cons, hkj]
  congr 1
  induction t with
  | nil => rfl
  | cons p rest ih =>
    simp only [List.filter_cons, List.find?_cons]
    by_cases hp : p.1 = k
    · have h1 : (p.1 != k) = false := by simp [hp]
      have h2 : (p.1 == j) = false := by simp [hp, Ne.symm h]
      simp only [h1, h2, Bool.false_eq_true, ↓reduceIte]; exact ih
    · have h1 : (p.1 != k) = true := by simp [hp]
      simp only [h1, ↓reduceIte, List.find?_cons]
      cases (p.1 == j) <;> simp [ih]

theorem lookup_unlink_self (t : Tbl) (k : Nat) : lookup (unlink t k) k = none := by
  unfold lookup unlink
  induction t with
  | nil => rfl
  | cons p rest ih =>
    simp only [List.filter_cons]
    by_cases hp : p.1 = k
    · have h1 : (p.1 != k) = false := by simp [hp]
      simp only [h1, Bool.false_eq_true, ↓reduceIte]; exact ih
    · have h1 : (p.1 != k) = true := by simp [hp]
      have h2 : (p.1 == k) = false := by simp [hp]
      simp only [h1, ↓reduceIte, List.find?_cons, h2]; exact ih

theorem lookup_unlink_other (t : Tbl) (k j : Nat) (h : j ≠ k) : lookup (unlink t k) j = lookup t j := by
  unfold lookup unlink
  congr 1
  induction t with
  | nil => rfl
  | cons p rest ih =>
    simp only [List.filter_cons, List.find?_cons]
    by_cases hp : p.1 = k
    · have h1 : (p.1 != k) = false := by simp [hp]
      have h2 : (p.1 == j) = false := by simp [hp, Ne.symm h]
      simp only [h1, h2, Bool.false_eq_true, ↓reduceIte]; exact ih
    · have h1 : (p.1 != k) = true := by simp [hp]
      simp only [h1, ↓reduceIte, List.find?_cons]
      cases (p.1 == j) <;> simp [ih]

theorem allOk_store (t : Tbl) (k : Nat) (n : TNode) (h : AllOk t) (hn : NodeOk k n) : AllOk (store t k n) := by
  intro j o ho
  by_cases hj : j = k
  · subst hj; rw [lookup_store_self] at ho; cases ho; exact hn
  · rw [lookup_store_other _ _ _ _ hj] at ho; exact h j o ho

theorem allOk_unlink (t : Tbl) (k : Nat) (h : AllOk t) : AllOk (unlink t k) := by
  intro j o ho
  by_cases hj : j = k
  · subst hj; rw [lookup_unlink_self] at ho; cases ho
  · rw [lookup_unlink_other _ _ _ hj] at ho; exact h j o ho

theorem deadlineAfter_le (now d : Int) : deadlineAfter now d ≤ maxI64 := by
  unfold deadlineAfter; split <;> omega

theorem deadlineAfter_ge (now d : Int) (hn : InRange now) (hd : 0 < d) : -4611686018427387904 ≤ deadlineAfter now d := by
  unfold deadlineAfter InRange maxI64 at *; split <;> omega

/-- the node atomicSet builds is well formed -/
theorem atomicSet_ok (cfg : TCfg) (k v : Nat) (old : Option TNode) (now : Int) (kd : RefKind) (hn : InRange now)
    (hold : ∀ o, old = some o → NodeOk k o) : NodeOk k (atomicSet cfg k v old now kd).1 := by
  have hprev : ∀ o, visiblePrev old now = some o → NodeOk k o := by
    intro o ho
    unfold visiblePrev at ho
    cases hl : old with
    | none => rw [hl] at ho; cases ho
    | some o' =>
      rw [hl] at ho
      by_cases hx : hasExpired o' now = true
      · simp [hx] at ho
      · simp only [hx, Bool.false_eq_true, ↓reduceIte, Option.some.injEq] at ho; subst ho; exact hold o' hl
  have hnew : NodeOk k (newNode cfg k v (visiblePrev old now)) := by
    unfold newNode NodeOk
    cases hp : visiblePrev old now with
    | none => simp [maxI64]
    | some o =>
      obtain ⟨_, h2, h3, h4⟩ := hprev o hp
      refine ⟨rfl, ?_, ?_, ?_⟩ <;> simp only <;> split <;> first | assumption | (unfold maxI64; omega)
  have hexp : NodeOk k (calcExpiresAtAfterWrite cfg (newNode cfg k v (visiblePrev old now)) (visiblePrev old now) now) := by
    obtain ⟨h1, h2, h3, h4⟩ := hnew
    unfold calcExpiresAtAfterWrite
    dsimp only
    repeat' split
    all_goals first
      | exact ⟨h1, h2, h3, h4⟩
      | exact ⟨h1, deadlineAfter_le _ _, h3, h4⟩
  show NodeOk k (calcRefreshableAt cfg _ (visiblePrev old now) kd now)
  obtain ⟨h1, h2, h3, h4⟩ := hexp
  unfold calcRefreshableAt
  dsimp only
  repeat' split
  all_goals first
    | exact ⟨h1, h2, h3, h4⟩
    | (rename_i hg; refine ⟨h1, h2, deadlineAfter_ge _ _ hn ?_, deadlineAfter_le _ _⟩
       simp only [Bool.and_eq_true, decide_eq_true_eq] at hg; exact hg.1)

theorem read_ok (cfg : TCfg) (k : Nat) (o : TNode) (now : Int) (h : NodeOk k o) : NodeOk k (calcExpiresAtAfterRead cfg o now) := by
  obtain ⟨h1, h2, h3, h4⟩ := h
  unfold calcExpiresAtAfterRead
  dsimp only
  repeat' split
  all_goals first
    | exact ⟨h1, h2, h3, h4⟩
    | exact ⟨h1, deadlineAfter_le _ _, h3, h4⟩

/-- every step keeps the table well formed -/
theorem istep_allOk (c : Cfg) (s : IState) (op : Op) (h : AllOk s.t) (hn : InRange s.now) : AllOk (istep c s op).1.t := by
  cases op with
  | set k v =>
    show AllOk (Impl.Table.set (cfgOf c) s.t k v false s.now).1
    cases hl : lookup s.t k with
    | none => rw [set_none _ _ _ _ _ hl]; exact allOk_store _ _ _ h (atomicSet_ok _ _ _ _ _ _ hn (by intro o ho; cases ho))
    | some o => rw [set_some _ _ _ _ _ o hl]; exact allOk_store _ _ _ h (atomicSet_ok _ _ _ _ _ _ hn (by intro o' ho; cases ho; exact h k o hl))
  | setIfAbsent k v =>
    show AllOk (Impl.Table.set (cfgOf c) s.t k v true s.now).1
    unfold Impl.Table.set
    cases hl : lookup s.t k with
    | none => simp; exact allOk_store _ _ _ h (atomicSet_ok _ _ _ _ _ _ hn (by intro o ho; cases ho))
    | some o =>
      cases hx : hasExpired o s.now
      · simp [hx]; exact allOk_store _ _ _ h (read_ok _ _ _ _ (h k o hl))
      · simp [hx]; exact allOk_store _ _ _ h (atomicSet_ok _ _ _ _ _ _ hn (by intro o' ho; cases ho; exact h k o hl))
  | invalidate k =>
    show AllOk (invalidate s.t k s.now).1
    cases hl : lookup s.t k with
    | none => rw [invalidate_none _ _ _ hl]; exact h
    | some o => rw [invalidate_some _ _ _ o hl]; exact allOk_unlink _ _ h
  | get k =>
    show AllOk (getIfPresent (cfgOf c) s.t k s.now).1
    unfold getIfPresent
    cases hl : lookup s.t k with
    | none => exact h
    | some o =>
      cases hx : hasExpired o s.now
      · simp [hx]; exact allOk_store _ _ _ h (read_ok _ _ _ _ (h k o hl))
      · simp [hx]; exact h
  | compute k act =>
    show AllOk (computeStep (cfgOf c) s.t k act s.now).1
    unfold computeStep
    cases act with
    | panic => exact h
    | bad => exact h
    | write v => exact allOk_store _ _ _ h (atomicSet_ok _ _ _ _ _ _ hn (fun o ho => h k o ho))
    | invalidate =>
      cases hl : lookup s.t k with
      | none => exact h
      | some o => exact allOk_unlink _ _ h
    | cancel =>
      cases hl : lookup s.t k with
      | none => exact h
      | some o =>
        cases hx : hasExpired o s.now
        · simp [hx]; exact h
        · simp [hx]; exact allOk_unlink _ _ h
  | advance d => exact h

theorem spec_get_now (c : Cfg) (s : Spec.State) (k : Nat) : (Spec.getIfPresent c s k).1.now = s.now := by
  unfold Spec.getIfPresent Spec.lookup
  cases s.live k with
  | none => rfl
  | some e =>
    show (match ((Spec.touch c (Spec.hit s) k e), (Spec.touch c (Spec.hit s) k e).phys k) with
      | (s', some e) => (s', Out.valOk e.val true) | (s', none) => (s', Out.valOk 0 false)).1.now = s.now
    cases (Spec.touch c (Spec.hit s) k e).phys k <;> rfl

theorem spec_compute_now (c : Cfg) (s : Spec.State) (k : Nat) (act : Spec.Act) : (Spec.computeStep c s k act).1.now = s.now := by
  unfold Spec.computeStep
  cases act with
  | panic => rfl
  | bad => rfl
  | write v => rfl
  | invalidate => unfold Spec.remove; simp only [phys_clearInflight]; cases s.phys k <;> rfl
  | cancel =>
    cases s.live k with
    | some o => rfl
    | none =>
      simp only
      cases hp : s.phys k with
      | none => rfl
      | some o => unfold Spec.remove; simp only [phys_clearInflight, hp]; rfl

/-- one step: same result, same events, and the abstraction is kept -/
theorem step_sim (c : Cfg) (is : IState) (ss : Spec.State) (op : Op) (hm : ss.m = absT is.t) (hnow : ss.now = is.now)
    (hok : AllOk is.t) (hn : InRange is.now) (hk1 : KindOk c.expiry) (hk2 : KindOk c.refresh) (hr : ReadOk c) :
    (sstep c ss op).1.m = absT (istep c is op).1.t ∧ (sstep c ss op).1.now = (istep c is op).1.now ∧
    (istep c is op).2 = (sstep c ss op).2 := by
  have hn' : -4611686018427387904 < ss.now ∧ ss.now < 4611686018427387904 := by rw [hnow]; exact hn
  cases op with
  | set k v =>
    have := set_refines c ss is.t k v hm hn' (hok k) hk1 hk2
    rw [hnow] at this
    exact ⟨this.1.symm, by show (Spec.set c ss k v).1.now = _; exact hnow, Prod.ext this.2.1 this.2.2⟩
  | setIfAbsent k v =>
    have := setIfAbsent_refines c ss is.t k v hm hn' (hok k) hk1 hk2 hr
    rw [hnow] at this
    refine ⟨this.1.symm, ?_, Prod.ext this.2.1 this.2.2⟩
    show (Spec.setIfAbsent c ss k v).1.now = _
    unfold Spec.setIfAbsent; split <;> exact hnow
  | invalidate k =>
    have := invalidate_refines ss is.t k hm (fun o ho => (hok k o ho).1)
    rw [hnow] at this
    exact ⟨this.1.symm, by show (Spec.invalidate ss k).1.now = _; unfold Spec.invalidate Spec.remove; simp only [phys_clearInflight]; split <;> exact hnow,
      Prod.ext this.2.1 this.2.2⟩
  | get k =>
    have := getIfPresent_refines c ss is.t k hm hn' (hok k) hr
    rw [hnow] at this
    refine ⟨this.1.symm, ?_, Prod.ext this.2 rfl⟩
    show (Spec.getIfPresent c ss k).1.now = _
    rw [spec_get_now]; exact hnow
  | compute k act =>
    have := computeStep_refines c ss is.t k act hm hn' (hok k) hk1 hk2
    rw [hnow] at this
    refine ⟨this.1.symm, ?_, Prod.ext this.2.1 this.2.2⟩
    show (Spec.computeStep c ss k act).1.now = _
    rw [spec_compute_now]; exact hnow
  | advance d =>
    exact ⟨hm, by show ss.now + d = is.now + d; rw [hnow], rfl⟩

/-- run a history, collecting results and events -/
def irun (c : Cfg) : IState → List Op → IState × List (Out × List Event)
  | s, [] => (s, [])
  | s, op :: rest => let r := istep c s op; let q := irun c r.1 rest; (q.1, r.2 :: q.2)

def srun (c : Cfg) : Spec.State → List Op → Spec.State × List (Out × List Event)
  | s, [] => (s, [])
  | s, op :: rest => let r := sstep c s op; let q := srun c r.1 rest; (q.1, r.2 :: q.2)

/-- the clock stays in range along the history -/
def ClockOk (now : Int) : List Op → Prop
  | [] => InRange now
  | .advance d :: rest => InRange now ∧ ClockOk (now + d) rest
  | _ :: rest => InRange now ∧ ClockOk now rest

/-- **every history**: Impl.Table and the spec, started in related states, return the same results and report the same
    atomic deletion events at every step, and end in related states -/
theorem history_sim (c : Cfg) (hk1 : KindOk c.expiry) (hk2 : KindOk c.refresh) (hr : ReadOk c) (ops : List Op) :
    ∀ (is : IState) (ss : Spec.State), ss.m = absT is.t → ss.now = is.now → AllOk is.t → ClockOk is.now ops →
      (irun c is ops).2 = (srun c ss ops).2 ∧ (srun c ss ops).1.m = absT (irun c is ops).1.t := by
  induction ops with
  | nil => intro is ss hm _ _ _; exact ⟨rfl, hm⟩
  | cons op rest ih =>
    intro is ss hm hnow hok hclk
    have hn : InRange is.now := by cases op <;> exact hclk.1
    have hstep := step_sim c is ss op hm hnow hok hn hk1 hk2 hr
    have hok' := istep_allOk c is op hok hn
    have hclk' : ClockOk (istep c is op).1.now rest := by
      cases op <;> first | exact hclk.2
    have := ih (istep c is op).1 (sstep c ss op).1 hstep.1 hstep.2.1 hok' hclk'
    exact ⟨by show _ :: _ = _ :: _; rw [hstep.2.2, this.1], this.2⟩

/-- from the empty cache -/
theorem history_from_empty (c : Cfg) (hk1 : KindOk c.expiry) (hk2 : KindOk c.refresh) (hr : ReadOk c) (ops : List Op)
    (now0 : Int) (hclk : ClockOk now0 ops) :
    (irun c { now := now0, t := [] } ops).2 = (srun c { now := now0 } ops).2 :=
  (history_sim c hk1 hk2 hr ops { now := now0, t := [] } { now := now0 } rfl rfl (by intro k o h; cases h) hclk).1

end OtterVerif.Proofs.TableTrace
