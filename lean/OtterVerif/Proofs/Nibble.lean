/-
  Nibble arithmetic for the 4-bit counters of the frequency sketch (kernel-only: omega over / and %).
-/
namespace OtterVerif.Nibble

/-- the j-th 4-bit counter of a word -/
def nib (w j : Nat) : Nat := w / 16 ^ j % 16

theorem pow_pos (j : Nat) : 0 < 16 ^ j := Nat.pow_pos (by decide)

/-- adding 16^j to a word whose j-th nibble is below 15 increments that nibble … -/
theorem nib_incr_self (w j : Nat) (hc : nib w j < 15) : nib (w + 16 ^ j) j = nib w j + 1 := by
  unfold nib at *
  have hp := pow_pos j
  rw [Nat.add_div_right _ hp]
  omega

/-- … and leaves every lower nibble unchanged … -/
theorem nib_incr_lower (w j j' : Nat) (h : j' < j) : nib (w + 16 ^ j) j' = nib w j' := by
  unfold nib
  obtain ⟨d, rfl⟩ : ∃ d, j = j' + 1 + d := ⟨j - j' - 1, by omega⟩
  have : 16 ^ (j' + 1 + d) = 16 ^ j' * (16 * 16 ^ d) := by
    rw [Nat.pow_add, Nat.pow_succ]; simp [Nat.mul_assoc]
  rw [this, Nat.add_mul_div_left _ _ (pow_pos j')]
  omega

/-- … and every higher nibble too (no carry, because the nibble was below 15) -/
theorem nib_incr_higher (w j j' : Nat) (h : j < j') (hc : nib w j < 15) : nib (w + 16 ^ j) j' = nib w j' := by
  unfold nib at *
  obtain ⟨d, rfl⟩ : ∃ d, j' = j + 1 + d := ⟨j' - j - 1, by omega⟩
  have hp := pow_pos j
  have e : 16 ^ (j + 1 + d) = 16 ^ j * 16 * 16 ^ d := by rw [Nat.pow_add, Nat.pow_succ]
  rw [e, ← Nat.div_div_eq_div_mul, ← Nat.div_div_eq_div_mul, ← Nat.div_div_eq_div_mul, ← Nat.div_div_eq_div_mul]
  rw [Nat.add_div_right _ hp]
  have : (w / 16 ^ j + 1) / 16 = w / 16 ^ j / 16 := by omega
  rw [this]

theorem nib_incr_other (w j j' : Nat) (hne : j' ≠ j) (hc : nib w j < 15) : nib (w + 16 ^ j) j' = nib w j' := by
  rcases Nat.lt_or_gt_of_ne hne with h | h
  · exact nib_incr_lower w j j' h
  · exact nib_incr_higher w j j' h hc

/-- the value after the aging step, nibble by nibble: halve the word, then clear the bit that slid in from the next nibble -/
def halveWord (w : Nat) : Nat → Nat
  | 0 => 0
  | n + 1 => (nib w n / 2) * 16 ^ n + halveWord w n

end OtterVerif.Nibble
