/-
  Proofs.MpscGen — the slow path of MPSC.TryPush over the REGENERATED computations of internal/deque/queue/mpsc.go.

  `slowPathG` assembles pushSlowPath's result from the generated conditions and constants (Gen.MpscSites); the outcomes of
  its two compare-and-swaps are parameters.  Theorems, for ALL 64-bit index values — in particular for a producer whose
  producerIndex is stale (read before the consumer and another producer moved on, so that consumerIndex is AHEAD of it and
  `pIndex - cIndex` wraps):
    * an offer is refused (result 2) only if `pIndex - cIndex = maxQueueCapacity` exactly: the buffer holds its maximum;
    * below the current chunk's capacity the limit is extended (result 0, or 1 = retry if the limit CAS lost);
    * the model's conditions (Impl.Mpsc.tryPush, over Gen.MpscIdx) are these conditions.
-/
import OtterVerif.Gen.MpscSites
import OtterVerif.Gen.MpscIdx
import OtterVerif.Impl.Mpsc

namespace OtterVerif.Proofs.MpscGen
open OtterVerif OtterVerif.Gen.MpscSites

/-- getCurrentBufferCapacity from its generated condition and results -/
def capG (maxCap mask : BitVec 64) : BitVec 64 :=
  if MPSC_getCurrentBufferCapacity_c0 maxCap mask then MPSC_getCurrentBufferCapacity_r0 maxCap
  else MPSC_getCurrentBufferCapacity_r1 mask

/-- pushSlowPath: 0 = go on to the index CAS, 1 = retry, 2 = refuse, 3 = resize -/
def slowPathG (maxCap mask pIndex cIndex : BitVec 64) (limitCAS indexCAS : Bool) : BitVec 8 :=
  let cap := capG maxCap mask
  if MPSC_pushSlowPath_c0 cap cIndex pIndex then
    (if MPSC_pushSlowPath_c3 limitCAS then MPSC_pushSlowPath_a2 else 0#8)
  else if MPSC_pushSlowPath_c1 (MPSC_availableInQueue_r0 cIndex maxCap pIndex) then MPSC_pushSlowPath_a3
  else if MPSC_pushSlowPath_c2 indexCAS then MPSC_pushSlowPath_a4
  else MPSC_pushSlowPath_a5

theorem capG_eq (maxCap mask : BitVec 64) : capG maxCap mask = Gen.MpscIdx.getCurrentBufferCapacity maxCap mask := rfl

theorem available_eq (maxCap p c : BitVec 64) :
    MPSC_availableInQueue_r0 c maxCap p = Gen.MpscIdx.availableInQueue maxCap p c := rfl

/-- **refused only when full**: whatever the (possibly stale) indices, result 2 means the queue holds exactly its maximum -/
theorem refuse_only_when_full (maxCap mask pIndex cIndex : BitVec 64) (l i : Bool)
    (h : slowPathG maxCap mask pIndex cIndex l i = 2#8) : pIndex - cIndex = maxCap := by
  unfold slowPathG at h
  simp only [MPSC_pushSlowPath_a2, MPSC_pushSlowPath_a3, MPSC_pushSlowPath_a4, MPSC_pushSlowPath_a5] at h
  split at h
  · split at h <;> exact absurd h (by decide)
  · split at h
    · rename_i hfull
      unfold MPSC_pushSlowPath_c1 MPSC_availableInQueue_r0 at hfull
      have hz : maxCap - (pIndex - cIndex) = 0#64 := by
        have := BitVec.ule_iff_le.mp hfull  -- unsigned ≤ 0
        exact BitVec.eq_of_toNat_eq (by
          have h0 : (0#64).toNat = 0 := by decide
          rw [h0]
          have hle : (maxCap - (pIndex - cIndex)).toNat ≤ (0#64).toNat := this
          rw [h0] at hle; omega)
      bv_omega
    · split at h <;> exact absurd h (by decide)

/-- with room in the current chunk (in the wrap-around sense of the code: `pIndex < cIndex + capacity`) nothing is refused
    and nothing is resized -/
theorem room_extends_limit (maxCap mask pIndex cIndex : BitVec 64) (l i : Bool)
    (h : BitVec.ult pIndex (cIndex + capG maxCap mask) = true) :
    slowPathG maxCap mask pIndex cIndex l i = (if l then 0#8 else 1#8) := by
  unfold slowPathG
  simp only [MPSC_pushSlowPath_c0, h, ↓reduceIte, MPSC_pushSlowPath_c3, MPSC_pushSlowPath_a2]
  cases l <;> rfl

/-- the model's slow-path conditions are the code's -/
theorem model_conditions (maxCap mask pIndex cIndex limit : BitVec 64) :
    MPSC_TryPush_c1 pIndex limit = BitVec.ule limit pIndex ∧
    MPSC_pushSlowPath_c0 (capG maxCap mask) cIndex pIndex
      = BitVec.ult pIndex (cIndex + Gen.MpscIdx.getCurrentBufferCapacity maxCap mask) ∧
    MPSC_pushSlowPath_c1 (MPSC_availableInQueue_r0 cIndex maxCap pIndex)
      = (Gen.MpscIdx.availableInQueue maxCap pIndex cIndex == 0) := by
  refine ⟨rfl, rfl, ?_⟩
  unfold MPSC_pushSlowPath_c1
  rw [available_eq]
  generalize Gen.MpscIdx.availableInQueue maxCap pIndex cIndex = a
  by_cases h : a = 0#64
  · subst h; rfl
  · have h1 : (a == 0) = false := by simpa using h
    have h2 : BitVec.ule a 0#64 = false := by
      have : a.toNat ≠ 0 := fun h0 => h (BitVec.eq_of_toNat_eq (by simpa using h0))
      simp [BitVec.ule]; omega
    rw [h1, h2]

/-- the parity bit of producerIndex marks a resize in progress; a reserved slot advances the index by two -/
theorem index_steps (p : BitVec 64) :
    MPSC_TryPush_c0 p = ((p &&& 1#64) == 1#64) := rfl

/-! ### growth -/

/-- the chunk linked by a resize has twice the capacity of the current one (length 2·(len−1)+1), and — chunk capacities and the
    maximum being powers of two — never more than the maximum capacity; getNextBufferSize refuses (panics) exactly when the
    current chunk is already longer than the maximum -/
theorem growth_bounded (len maxCap : BitVec 64) (k m : Nat) (hk : k ≤ 60) (hm : m ≤ 60)
    (hlen : len.toNat = 2 ^ k + 1) (hmax : (MPSC_getNextBufferSize_a0 maxCap).toNat = 2 ^ m)
    (hok : MPSC_getNextBufferSize_c0 len (MPSC_getNextBufferSize_a0 maxCap) = false) :
    (MPSC_getNextBufferSize_r0 (MPSC_getNextBufferSize_a2 len)).toNat = 2 * (len.toNat - 1) + 1 ∧
    (MPSC_getNextBufferSize_r0 (MPSC_getNextBufferSize_a2 len)).toNat - 1 ≤ (MPSC_getNextBufferSize_a0 maxCap).toNat := by
  have hk' : (2 : Nat) ^ k ≤ 2 ^ 60 := Nat.pow_le_pow_right (by decide) hk
  have hm' : (2 : Nat) ^ m ≤ 2 ^ 60 := Nat.pow_le_pow_right (by decide) hm
  have hle : len.toNat ≤ (MPSC_getNextBufferSize_a0 maxCap).toNat := by
    unfold MPSC_getNextBufferSize_c0 at hok
    simp only [BitVec.ult, decide_eq_false_iff_not, Nat.not_lt] at hok
    exact hok
  have hlt : len.toNat < 2 ^ 62 := by
    rw [hlen]; exact Nat.lt_of_le_of_lt (Nat.add_le_add_right hk' 1) (by decide)
  have hpos : 1 ≤ len.toNat := by rw [hlen]; exact Nat.le_add_left 1 _
  have hsub : (len - 1#64).toNat = len.toNat - 1 := by
    rw [BitVec.toNat_sub]
    have h1 : (1#64).toNat = 1 := by decide
    rw [h1]
    have e : 2 ^ 64 - 1 + len.toNat = (len.toNat - 1) + 2 ^ 64 := by omega
    rw [e, Nat.add_mod_right, Nat.mod_eq_of_lt (by omega)]
  have hdouble : (MPSC_getNextBufferSize_a2 len).toNat = 2 * (len.toNat - 1) := by
    unfold MPSC_getNextBufferSize_a2
    rw [BitVec.toNat_mul, hsub]
    have h2 : (2#64).toNat = 2 := by decide
    rw [h2, Nat.mod_eq_of_lt (by omega)]
  have hres : (MPSC_getNextBufferSize_r0 (MPSC_getNextBufferSize_a2 len)).toNat = 2 * (len.toNat - 1) + 1 := by
    unfold MPSC_getNextBufferSize_r0
    rw [BitVec.toNat_add, hdouble]
    have h1 : (1#64).toNat = 1 := by decide
    rw [h1, Nat.mod_eq_of_lt (by omega)]
  refine ⟨hres, ?_⟩
  rw [hres, hmax, hlen]
  rw [hmax, hlen] at hle
  -- 2^k + 1 ≤ 2^m gives k < m, hence 2·2^k ≤ 2^m
  have hkm : k < m := by
    apply Nat.lt_of_not_le
    intro hmk
    have := Nat.pow_le_pow_right (show 0 < 2 by decide) hmk
    omega
  have : 2 * 2 ^ k ≤ 2 ^ m := by
    calc 2 * 2 ^ k = 2 ^ (k + 1) := by rw [Nat.pow_succ]; omega
      _ ≤ 2 ^ m := Nat.pow_le_pow_right (by decide) hkm
  omega

end OtterVerif.Proofs.MpscGen
