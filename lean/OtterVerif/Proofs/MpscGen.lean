/-
  Proofs.MpscGen — the slow path of MPSC.TryPush over the REGENERATED computations of internal/deque/queue/mpsc.go.

  `slowPathG` assembles pushSlowPath's result from the generated conditions and constants (Gen.MpscSites); the outcomes of
  its two compare-and-swaps are parameters.  Theorems, for ALL 64-bit index values — in particular for a producer whose
  producerIndex is stale (read before the consumer and another producer moved on, so that consumerIndex is AHEAD of it and
  `pIndex - cIndex` wraps):
    * an offer is refused (result 2) only if `pIndex - cIndex = maxQueueCapacity` exactly: the buffer holds its maximum;
    * below the current chunk's capacity the limit is extended (result 0, or 1 = retry if the limit CAS lost);
    * the model's conditions (Impl.Mpsc.tryPush, over Gen.MpscIdx) are these conditions.
-/
import OtterVerif.Gen.MpscSites
import OtterVerif.Gen.MpscIdx
import OtterVerif.Impl.Mpsc

namespace OtterVerif.Proofs.MpscGen
open OtterVerif OtterVerif.Gen.MpscSites

/-- getCurrentBufferCapacity from its generated condition and results -/
def capG (maxCap mask : BitVec 64) : BitVec 64 :=
  if MPSC_getCurrentBufferCapacity_c0 maxCap mask then MPSC_getCurrentBufferCapacity_r0 maxCap
  else MPSC_getCurrentBufferCapacity_r1 mask

/-- pushSlowPath: 0 = go on to the index CAS, 1 = retry, 2 = refuse, 3 = resize -/
def slowPathG (maxCap mask pIndex cIndex : BitVec 64) (limitCAS indexCAS : Bool) : BitVec 8 :=
  let cap := capG maxCap mask
  if MPSC_pushSlowPath_c0 cap cIndex pIndex then
    (if MPSC_pushSlowPath_c3 limitCAS then MPSC_pushSlowPath_a2 else 0#8)
  else if MPSC_pushSlowPath_c1 (MPSC_availableInQueue_r0 cIndex maxCap pIndex) then MPSC_pushSlowPath_a3
  else if MPSC_pushSlowPath_c2 indexCAS then MPSC_pushSlowPath_a4
  else MPSC_pushSlowPath_a5

theorem capG_eq (maxCap mask : BitVec 64) : capG maxCap mask = Gen.MpscIdx.getCurrentBufferCapacity maxCap mask := rfl

theorem available_eq (maxCap p c : BitVec 64) :
    MPSC_availableInQueue_r0 c maxCap p = Gen.MpscIdx.availableInQueue maxCap p c := rfl

/-- **refused only when full**: whatever the (possibly stale) indices, result 2 means the queue holds exactly its maximum -/
theorem refuse_only_when_full (maxCap mask pIndex cIndex : BitVec 64) (l i : Bool)
    (h : slowPathG maxCap mask pIndex cIndex l i = 2#8) : pIndex - cIndex = maxCap := by
  unfold slowPathG at h
  simp only [MPSC_pushSlowPath_a2, MPSC_pushSlowPath_a3, MPSC_pushSlowPath_a4, MPSC_pushSlowPath_a5] at h
  split at h
  · split at h <;> exact absurd h (by decide)
  · split at h
    · rename_i hfull
      unfold MPSC_pushSlowPath_c1 MPSC_availableInQueue_r0 at hfull
      have hz : maxCap - (pIndex - cIndex) = 0#64 := by
        have := BitVec.ule_iff_le.mp hfull  -- unsigned ≤ 0
        exact BitVec.eq_of_toNat_eq (by
          have h0 : (0#64).toNat = 0 := by decide
          rw [h0]
          have hle : (maxCap - (pIndex - cIndex)).toNat ≤ (0#64).toNat := this
          rw [h0] at hle; omega)
      bv_omega
    · split at h <;> exact absurd h (by decide)

/-- with room in the current chunk (in the wrap-around sense of the code: `pIndex < cIndex + capacity`) nothing is refused
    and nothing is resized -/
theorem room_extends_limit (maxCap mask pIndex cIndex : BitVec 64) (l i : Bool)
    (h : BitVec.ult pIndex (cIndex + capG maxCap mask) = true) :
    slowPathG maxCap mask pIndex cIndex l i = (if l then 0#8 else 1#8) := by
  unfold slowPathG
  simp only [MPSC_pushSlowPath_c0, h, ↓reduceIte, MPSC_pushSlowPath_c3, MPSC_pushSlowPath_a2]
  cases l <;> rfl

/-- the model's slow-path conditions are the code's -/
theorem model_conditions (maxCap mask pIndex cIndex limit : BitVec 64) :
    MPSC_TryPush_c1 pIndex limit = BitVec.ule limit pIndex ∧
    MPSC_pushSlowPath_c0 (capG maxCap mask) cIndex pIndex
      = BitVec.ult pIndex (cIndex + Gen.MpscIdx.getCurrentBufferCapacity maxCap mask) ∧
    MPSC_pushSlowPath_c1 (MPSC_availableInQueue_r0 cIndex maxCap pIndex)
      = (Gen.MpscIdx.availableInQueue maxCap pIndex cIndex == 0) := by
  refine ⟨rfl, rfl, ?_⟩
  unfold MPSC_pushSlowPath_c1
  rw [available_eq]
  generalize Gen.MpscIdx.availableInQueue maxCap pIndex cIndex = a
  by_cases h : a = 0#64
  · subst h; rfl
  · have h1 : (a == 0) = false := by simpa using h
    have h2 : BitVec.ule a 0#64 = false := by
      have : a.toNat ≠ 0 := fun h0 => h (BitVec.eq_of_toNat_eq (by simpa using h0))
      simp [BitVec.ule]; omega
    rw [h1, h2]

/-- the parity bit of producerIndex marks a resize in progress; a reserved slot advances the index by two -/
theorem index_steps (p : BitVec 64) :
    MPSC_TryPush_c0 p = ((p &&& 1#64) == 1#64) := rfl

end OtterVerif.Proofs.MpscGen
