/-
  Proofs.TableAll — InvalidateAll inside the refinement and the conservation law, on top of Proofs.TableEvict / TableConserve.

  `Impl.Table.invalidateAll` is shown to be what the code's loop computes (deleteNode for every collected key, `deleteAll`)
  on a table with one node per key, and to refine `Spec.invalidateAll` (same reports, empty map).  Histories (`YOp`) may then
  contain every operation of the earlier theorems plus InvalidateAll; the induction carries AllOk and NodupKeys.
-/
import OtterVerif.Proofs.TableConserve

namespace OtterVerif.Proofs.TableAll
open OtterVerif OtterVerif.Impl.Table OtterVerif.Proofs.TableRefine OtterVerif.Proofs.TableTrace OtterVerif.Proofs.TableEvict
open OtterVerif.Proofs.TableConserve
open OtterVerif.Spec (Cause Event Out Entry Cfg Kind)

def evOf (now : Int) (p : Nat × TNode) : Event := { key := p.2.key, val := p.2.val, cause := getCause p.2 now .invalidation }

theorem deleteAll_go (now : Int) : ∀ (t : Tbl) (acc : List Event), NodupKeys t →
    (t.map (·.1)).foldl (fun (a : Tbl × List Event) k => let r := deleteNode a.1 k true now; (r.1, a.2 ++ r.2)) (t, acc)
      = ([], acc ++ t.map (evOf now)) := by
  intro t
  induction t with
  | nil => intro acc _; simp
  | cons p rest ih =>
    intro acc h
    have hnd : p.1 ∉ rest.map (·.1) ∧ NodupKeys rest := by
      unfold NodupKeys at h ⊢
      rw [List.map_cons, List.nodup_cons] at h
      exact h
    have hl : lookup (p :: rest) p.1 = some p.2 := by unfold lookup; simp
    have hu : unlink (p :: rest) p.1 = rest := by
      have : unlink (p :: rest) p.1 = unlink rest p.1 := by unfold unlink; simp
      rw [this, unlink_absent rest p.1 hnd.1]
    have hstep : deleteNode (p :: rest) p.1 true now = (rest, [evOf now p]) := by
      unfold deleteNode; rw [hl]; simp only [↓reduceIte, hu]; rfl
    rw [List.map_cons, List.foldl_cons]
    simp only [hstep]
    rw [ih (acc ++ [evOf now p]) hnd.2]
    simp

/-- **InvalidateAll's loop = the one-line model**, for a table with one node per key -/
theorem deleteAll_eq (t : Tbl) (now : Int) (h : NodupKeys t) : deleteAll t (t.map (·.1)) now = invalidateAll t now := by
  unfold deleteAll invalidateAll
  rw [deleteAll_go now t [] h]
  simp only [List.nil_append]
  rfl

theorem lookup_of_mem (t : Tbl) (h : NodupKeys t) (p : Nat × TNode) (hp : p ∈ t) : lookup t p.1 = some p.2 := by
  induction t with
  | nil => cases hp
  | cons q rest ih =>
    have hnd : q.1 ∉ rest.map (·.1) ∧ NodupKeys rest := by
      unfold NodupKeys at h ⊢
      rw [List.map_cons, List.nodup_cons] at h
      exact h
    rcases List.mem_cons.mp hp with he | hr
    · subst he; unfold lookup; simp
    · have hne : q.1 ≠ p.1 := fun e => hnd.1 (by rw [e]; exact List.mem_map.mpr ⟨p, hr, rfl⟩)
      have : lookup (q :: rest) p.1 = lookup rest p.1 := by unfold lookup; simp [hne]
      rw [this]; exact ih hnd.2 hr

/-- **InvalidateAll refines the spec's** -/
theorem invalidateAll_refines (s : Spec.State) (t : Tbl) (hs : s.m = absT t) (hok : AllOk t) (hnd : NodupKeys t) :
    absT (invalidateAll t s.now).1 = (Spec.invalidateAll s).1.m ∧ (invalidateAll t s.now).2 = (Spec.invalidateAll s).2 := by
  refine ⟨rfl, ?_⟩
  unfold invalidateAll Spec.invalidateAll
  simp only
  rw [hs]
  unfold absT
  rw [List.map_map]
  apply List.map_congr_left
  intro p hp
  have hkey : p.2.key = p.1 := (hok p.1 p.2 (lookup_of_mem t hnd p hp)).1
  simp only [Function.comp, hkey, cause_eq]
  rfl

/-! ### histories -/

inductive YOp where
  | x (op : XOp)
  | invalidateAll

def yistep (c : Cfg) (s : IState) : YOp → IState × Out × List Event
  | .x op => xistep c s op
  | .invalidateAll => let r := invalidateAll s.t s.now; ({ s with t := r.1 }, .unit, r.2)

def ysstep (c : Cfg) (s : Spec.State) : YOp → Option (Spec.State × Out × List Event)
  | .x op => xsstep c s op
  | .invalidateAll => let r := Spec.invalidateAll s; some (r.1, .unit, r.2)

def yinstalls : YOp → Out → Nat
  | .x op, o => installs op o
  | .invalidateAll, _ => 0

theorem ystep_sim (c : Cfg) (is : IState) (ss : Spec.State) (op : YOp) (hm : ss.m = absT is.t) (hnow : ss.now = is.now)
    (hok : AllOk is.t) (hnd : NodupKeys is.t) (hn : InRange is.now) (hk1 : KindOk c.expiry) (hk2 : KindOk c.refresh)
    (hr : ReadOk c) (r : Spec.State × Out × List Event) (hacc : ysstep c ss op = some r) :
    r.1.m = absT (yistep c is op).1.t ∧ r.1.now = (yistep c is op).1.now ∧ (yistep c is op).2 = r.2 ∧
    AllOk (yistep c is op).1.t ∧ NodupKeys (yistep c is op).1.t ∧
    (yistep c is op).1.t.length + (yistep c is op).2.2.length = is.t.length + yinstalls op (yistep c is op).2.1 := by
  cases op with
  | x op =>
    have h1 := xstep_sim c is ss op hm hnow hok hn hk1 hk2 hr r hacc
    have h2 := xistep_conserves c is op hnd
    exact ⟨h1.1, h1.2.1, h1.2.2.1, h1.2.2.2, h2.2, h2.1⟩
  | invalidateAll =>
    simp only [ysstep, Option.some.injEq] at hacc
    subst hacc
    have h1 := invalidateAll_refines ss is.t hm hok hnd
    rw [hnow] at h1
    refine ⟨h1.1.symm, hnow, ?_, ?_, ?_, ?_⟩
    · show (Out.unit, (invalidateAll is.t is.now).2) = (Out.unit, (Spec.invalidateAll ss).2)
      rw [h1.2]
    · intro k o ho; cases ho
    · unfold NodupKeys; exact List.nodup_nil
    · show (0 : Nat) + ((is.t.map _).length) = is.t.length + 0
      simp

def yirun (c : Cfg) : IState → List YOp → IState × List (Out × List Event)
  | s, [] => (s, [])
  | s, op :: rest => let r := yistep c s op; let q := yirun c r.1 rest; (q.1, r.2 :: q.2)

def ysrun (c : Cfg) : Spec.State → List YOp → Option (Spec.State × List (Out × List Event))
  | s, [] => some (s, [])
  | s, op :: rest =>
    match ysstep c s op with
    | none => none
    | some r => (ysrun c r.1 rest).map (fun q => (q.1, r.2 :: q.2))

def YClockOk (now : Int) : List YOp → Prop
  | [] => InRange now
  | .x (.base (.advance d)) :: rest => InRange now ∧ YClockOk (now + d) rest
  | _ :: rest => InRange now ∧ YClockOk now rest

theorem yistep_now (c : Cfg) (is : IState) (op : YOp) :
    (yistep c is op).1.now = (match op with | .x (.base (.advance d)) => is.now + d | _ => is.now) := by
  cases op with
  | x op =>
    cases op with
    | base o => cases o <;> rfl
    | evict k same => rfl
  | invalidateAll => rfl

def yTotalInstalls : List YOp → List (Out × List Event) → Nat
  | op :: ops, r :: rs => yinstalls op r.1 + yTotalInstalls ops rs
  | _, _ => 0

/-- **every history** (Set / SetIfAbsent / Invalidate / GetIfPresent / Compute / clock advances / automatic removals /
    InvalidateAll): as long as the spec accepts the automatic removals, Impl.Table and the spec return the same results and
    report the same atomic deletion events at every step, end with the same map, and values are conserved -/
theorem yhistory_sim (c : Cfg) (hk1 : KindOk c.expiry) (hk2 : KindOk c.refresh) (hr : ReadOk c) (ops : List YOp) :
    ∀ (is : IState) (ss : Spec.State), ss.m = absT is.t → ss.now = is.now → AllOk is.t → NodupKeys is.t → YClockOk is.now ops →
      ∀ q, ysrun c ss ops = some q →
        (yirun c is ops).2 = q.2 ∧ q.1.m = absT (yirun c is ops).1.t ∧
        (yirun c is ops).1.t.length + totalEvents (yirun c is ops).2 = is.t.length + yTotalInstalls ops (yirun c is ops).2 := by
  induction ops with
  | nil =>
    intro is ss hm _ _ _ _ q hq
    simp only [ysrun, Option.some.injEq] at hq
    subst hq; exact ⟨rfl, hm, rfl⟩
  | cons op rest ih =>
    intro is ss hm hnow hok hnd hclk q hq
    have hn : InRange is.now := by
      cases op with
      | x o =>
        cases o with
        | base b => cases b <;> exact hclk.1
        | evict k same => exact hclk.1
      | invalidateAll => exact hclk.1
    simp only [ysrun] at hq
    cases hx : ysstep c ss op with
    | none => rw [hx] at hq; cases hq
    | some r =>
      rw [hx] at hq
      simp only [Option.map_eq_some_iff] at hq
      obtain ⟨q', hq', hqq⟩ := hq
      have hstep := ystep_sim c is ss op hm hnow hok hnd hn hk1 hk2 hr r hx
      have hclk' : YClockOk (yistep c is op).1.now rest := by
        rw [yistep_now]
        cases op with
        | x o =>
          cases o with
          | base b => cases b <;> exact hclk.2
          | evict k same => exact hclk.2
        | invalidateAll => exact hclk.2
      have := ih (yistep c is op).1 r.1 hstep.1 hstep.2.1 hstep.2.2.2.1 hstep.2.2.2.2.1 hclk' q' hq'
      subst hqq
      refine ⟨by show _ :: _ = _ :: _; rw [hstep.2.2.1, this.1], this.2.1, ?_⟩
      show (yirun c (yistep c is op).1 rest).1.t.length + totalEvents ((yistep c is op).2 :: (yirun c (yistep c is op).1 rest).2)
        = is.t.length + (yinstalls op (yistep c is op).2.1 + yTotalInstalls rest (yirun c (yistep c is op).1 rest).2)
      have hte : totalEvents ((yistep c is op).2 :: (yirun c (yistep c is op).1 rest).2)
          = (yistep c is op).2.2.length + totalEvents (yirun c (yistep c is op).1 rest).2 := by
        unfold totalEvents; simp
      have h3 := hstep.2.2.2.2.2
      have h4 := this.2.2
      rw [hte]
      omega

end OtterVerif.Proofs.TableAll
