/-
  Proofs.LossyGen — the read-buffer models (Impl.Ring, Conc.Ring, Conc.Striped) against the REGENERATED computations of
  internal/lossy/ring.go and striped.go (Gen.LossySites).

    * ring: full iff tail - head ≥ 16; the producer's slot is tail mod 16 and the consumer's head mod 16; both advance by one;
      the consumer stops at head = tail;
    * striped: a stripe index `idx & (len-1)` lies inside a table whose length is a power of two; the table is doubled
      (`len << 1`) and only while `len < maxLen`, so a power-of-two table never exceeds a power-of-two maximum; the loop that
      carries the existing rings over starts at 0, runs while `j < len` and advances by one: it visits every stripe, stripe 0
      included; DrainTo walks the same way.
-/
import OtterVerif.Impl.Ring
import OtterVerif.Gen.LossySites

namespace OtterVerif.Proofs.LossyGen
open OtterVerif OtterVerif.Gen.LossySites

private theorem and_mask64 (x : BitVec 64) (k : Nat) (m : BitVec 64) (hm : m.toNat = 2 ^ k - 1) :
    (x &&& m).toNat = x.toNat % 2 ^ k := by
  rw [BitVec.toNat_and, hm, Nat.and_two_pow_sub_one_eq_mod]

/-! ### ring -/

/-- `add` refuses iff sixteen entries are waiting (head ≤ tail: the consumer never passes the producers) -/
theorem ring_full (head tail : BitVec 64) (h : head.toNat ≤ tail.toNat) :
    ring_add_c0 (ring_add_a2 head tail) = decide (tail.toNat - head.toNat ≥ Impl.Ring.bufferSize) := by
  unfold ring_add_c0 ring_add_a2 Impl.Ring.bufferSize
  have hs : (tail - head).toNat = tail.toNat - head.toNat := by
    rw [BitVec.toNat_sub]
    have := tail.isLt; have := head.isLt
    have e : 2 ^ 64 - head.toNat + tail.toNat = (tail.toNat - head.toNat) + 2 ^ 64 := by omega
    rw [e, Nat.add_mod_right, Nat.mod_eq_of_lt (by omega)]
  simp only [BitVec.ule, hs]
  have : (16#64).toNat = 16 := by decide
  rw [this]

/-- the slot a producer publishes into and the slot the consumer reads; each index advances by one -/
theorem ring_slots (head tail : BitVec 64) :
    (ring_add_x1 tail).toNat = tail.toNat % 16 ∧ (ring_drainTo_a4 head).toNat = head.toNat % 16 ∧
    ring_add_x0 tail = tail + 1#64 ∧ ring_drainTo_u0 head = head + 1#64 :=
  ⟨and_mask64 tail 4 15#64 (by decide), and_mask64 head 4 15#64 (by decide),
   by first | rfl | simp [ring_add_x0, BitVec.add_comm], by first | rfl | simp [ring_drainTo_u0, BitVec.add_comm]⟩

/-- the consumer returns at once on an empty ring and stops when it reaches the tail it loaded -/
theorem ring_drain_guards (head tail : BitVec 64) :
    ring_drainTo_c0 (ring_drainTo_a2 head tail) = (tail - head == 0#64) ∧ ring_drainTo_c1 head tail = (head != tail) :=
  ⟨rfl, rfl⟩

/-- the three results: Success = 1, Failed = 0, Full = 255 — what Striped.Add tests against -/
theorem ring_results : ring_add_r0 = 1#8 ∧ ring_add_r1 = 0#8 ∧ ring_add_r2 = 255#8 ∧
    (∀ r : BitVec 8, Striped_Add_c3 r = (r == 255#8)) ∧ (∀ r : BitVec 8, Striped_expandOrRetry_c8 r = (r != 255#8)) :=
  ⟨rfl, rfl, rfl, fun _ => rfl, fun _ => rfl⟩

/-! ### striped -/

/-- a stripe index lies inside the table (length a power of two up to 2^31) -/
theorem stripe_in_range (len : BitVec 64) (idx : BitVec 32) (k : Nat) (hk : k ≤ 31) (hlen : len.toNat = 2 ^ k) :
    (Striped_Add_x0 len idx).toNat = idx.toNat % 2 ^ k ∧ (Striped_Add_x0 len idx).toNat < len.toNat ∧
    Striped_expandOrRetry_x0 len idx = Striped_Add_x0 len idx ∧ Striped_expandOrRetry_a7 len idx = Striped_Add_x0 len idx := by
  have hp : 0 < 2 ^ k := Nat.pow_pos (by decide)
  have hle : 2 ^ k ≤ 2 ^ 31 := Nat.pow_le_pow_right (by decide) hk
  have hm : (BitVec.setWidth 32 (len - 1#64)).toNat = 2 ^ k - 1 := by
    rw [BitVec.toNat_setWidth, BitVec.toNat_sub]
    have h1 : (1#64).toNat = 1 := by decide
    rw [h1, hlen]
    have e : 2 ^ 64 - 1 + 2 ^ k = (2 ^ k - 1) + 2 ^ 64 := by omega
    rw [e, Nat.add_mod_right, Nat.mod_eq_of_lt (by omega), Nat.mod_eq_of_lt (by omega)]
  have h1 : (Striped_Add_x0 len idx).toNat = idx.toNat % 2 ^ k := by
    unfold Striped_Add_x0
    rw [BitVec.toNat_and, hm, Nat.and_two_pow_sub_one_eq_mod]
  refine ⟨h1, ?_, rfl, rfl⟩
  rw [h1, hlen]
  exact Nat.mod_lt _ hp

/-- the table is doubled, and only while it is shorter than the maximum: powers of two stay within a power-of-two maximum -/
theorem grow_within_max (len maxLen : BitVec 64) (stale : Bool) (a b : Nat) (hlen : len.toNat = 2 ^ a) (hmax : maxLen.toNat = 2 ^ b)
    (hb : b ≤ 31) (ha : a ≤ 31) (h : Striped_expandOrRetry_c9 len maxLen stale = false) :
    (Striped_expandOrRetry_a15 len).toNat = 2 * len.toNat ∧ (Striped_expandOrRetry_a15 len).toNat ≤ maxLen.toNat := by
  unfold Striped_expandOrRetry_c9 at h
  have hsle : BitVec.sle maxLen len = false := by
    cases hs : BitVec.sle maxLen len
    · rfl
    · rw [hs] at h; simp at h
  have h31a : (2 : Nat) ^ a ≤ 2 ^ 31 := Nat.pow_le_pow_right (by decide) ha
  have h31b : (2 : Nat) ^ b ≤ 2 ^ 31 := Nat.pow_le_pow_right (by decide) hb
  have hlt : len.toNat < maxLen.toNat := by
    rw [BitVec.sle_eq_decide, BitVec.toInt_eq_toNat_cond, BitVec.toInt_eq_toNat_cond] at hsle
    have e1 : 2 * maxLen.toNat < 2 ^ 64 := by omega
    have e2 : 2 * len.toNat < 2 ^ 64 := by omega
    simp only [e1, e2, ↓reduceIte] at hsle
    have := of_decide_eq_false hsle
    omega
  have hdouble : (Striped_expandOrRetry_a15 len).toNat = 2 * len.toNat := by
    unfold Striped_expandOrRetry_a15
    rw [BitVec.toNat_shiftLeft, Nat.shiftLeft_eq, Nat.mod_eq_of_lt (by omega)]
    omega
  refine ⟨hdouble, ?_⟩
  rw [hdouble, hlen, hmax] at *
  have hab : a < b := by
    apply Nat.lt_of_not_le
    intro hba
    have := Nat.pow_le_pow_right (show 0 < 2 by decide) hba
    omega
  calc 2 * 2 ^ a = 2 ^ (a + 1) := by rw [Nat.pow_succ]; omega
    _ ≤ 2 ^ b := Nat.pow_le_pow_right (by decide) hab

/-- the loop that carries the rings of the old table over, and DrainTo's walk: start at 0, continue while below the table's
    length, advance by one — every stripe is visited, stripe 0 included -/
theorem walk_all_stripes (len j : BitVec 64) (hl : len.toNat < 2 ^ 62) (hj : j.toNat < 2 ^ 62) :
    Striped_expandOrRetry_a17 = 0#64 ∧ Striped_expandOrRetry_c13 len j = decide (j.toNat < len.toNat) ∧
    Striped_expandOrRetry_u1 j = j + 1#64 ∧
    Striped_DrainTo_a1 = 0#64 ∧ Striped_DrainTo_c1 len j = decide (j.toNat < len.toNat) ∧ Striped_DrainTo_u0 j = j + 1#64 := by
  have hslt : BitVec.slt j len = decide (j.toNat < len.toNat) := by
    rw [BitVec.slt_eq_decide, BitVec.toInt_eq_toNat_cond, BitVec.toInt_eq_toNat_cond]
    have e1 : 2 * j.toNat < 2 ^ 64 := by omega
    have e2 : 2 * len.toNat < 2 ^ 64 := by omega
    simp only [e1, e2, ↓reduceIte]
    congr 1
    apply propext
    constructor <;> intro h <;> omega
  exact ⟨rfl, hslt, by first | rfl | simp [Striped_expandOrRetry_u1, BitVec.add_comm], rfl, hslt,
    by first | rfl | simp [Striped_DrainTo_u0, BitVec.add_comm]⟩

end OtterVerif.Proofs.LossyGen
