/-
  Proofs.WheelGen — the hand-written timer-wheel model (Impl.Wheel, over naturals) against the REGENERATED pure
  computations of internal/expiration/variable.go (Gen.Wheel, over BitVec 64: the tables `buckets`, `spans`, `shift`
  with their initialisers, `wheelTime`, `clockTime`, and every right-hand side / condition of findBucket, DeleteExpired
  and deleteExpiredFromBucket).

  What is proven here, for ALL 64-bit values:
    * the three tables the code builds at start-up are the ones the model assumes (so the sweep theorem's instances
      (2^30,64) (2^36,64) (2^42,32) (2^47,4) (2^49,1) are the code's);
    * findBucket assembled from the generated pieces (clamp, duration, the loop's comparison against spans[i+1],
      ticks, index) chooses exactly the level and slot of Impl.Wheel.findBucket;
    * the per-level tick difference, the early exit, the bucket mask/start/steps/slot arithmetic and the expiry
      comparison of the sweep are the model's;
    * wheelTime is the model's order-preserving map and clockTime its inverse.
  The loop *structure* (which generated piece feeds which) is written here by hand and exercised by UNIT-wheel.
-/
import OtterVerif.Impl.Wheel
import OtterVerif.Gen.Wheel

namespace OtterVerif.Proofs.WheelGen
open OtterVerif.Impl.Wheel
open OtterVerif

/-! ### tables -/

theorem buckets_eq : Gen.Wheel.buckets.map BitVec.toNat = nBuckets := by decide
theorem shift_eq : Gen.Wheel.shift.map BitVec.toNat = shifts := by decide
theorem spans_eq : Gen.Wheel.spans.map BitVec.toNat = spans := by decide

theorem buckets_val : Gen.Wheel.buckets = [64#64, 64#64, 32#64, 4#64, 1#64] := by decide
theorem shift_val : Gen.Wheel.shift = [30#64, 36#64, 42#64, 47#64, 49#64] := by decide
theorem spans_val : Gen.Wheel.spans =
    [1073741824#64, 68719476736#64, 4398046511104#64, 140737488355328#64, 562949953421312#64, 562949953421312#64] := by decide

/-! ### findBucket from the generated pieces -/

/-- the loop of findBucket over the generated condition, comparison, ticks and index -/
def fbGo (duration expiration length : BitVec 64) : Nat → BitVec 64 → Nat × Nat
  | 0, _ => (length.toNat, 0)
  | fuel + 1, i =>
    if Gen.Wheel.fb_loop i length then
      if Gen.Wheel.fb_fits duration i then (i.toNat, (Gen.Wheel.fb_index i (Gen.Wheel.fb_ticks expiration i)).toNat)
      else fbGo duration expiration length fuel (i + 1#64)
    else (length.toNat, 0)

/-- findBucket as the code computes it: `len(v.wheel)` is `len(buckets)` (NewVariable) -/
def findBucketG (time expiration : BitVec 64) : Nat × Nat :=
  let expiration := if Gen.Wheel.fb_due expiration time then Gen.Wheel.fb_clamped time else expiration
  let duration := Gen.Wheel.fb_duration expiration time
  let length := Gen.Wheel.fb_length (Bv.tblLen Gen.Wheel.buckets)
  fbGo duration expiration length 5 0#64

private theorem and_mask (x : BitVec 64) (k : Nat) (_hk : k < 64) (m : BitVec 64) (hm : m.toNat = 2 ^ k - 1) :
    (x &&& m).toNat = x.toNat % 2 ^ k := by
  rw [BitVec.toNat_and, hm, Nat.and_two_pow_sub_one_eq_mod]

private theorem sub_toNat (a b : BitVec 64) : (a - b).toNat = (a.toNat + two64 - b.toNat) % two64 := by
  rw [BitVec.toNat_sub]
  have hb := b.isLt
  unfold two64
  congr 1
  omega

theorem findBucketG_eq (time d : BitVec 64) : findBucketG time d = findBucket time.toNat d.toNat := by
  unfold findBucketG findBucket
  simp only [Gen.Wheel.fb_due, Gen.Wheel.fb_clamped, Gen.Wheel.fb_duration, Gen.Wheel.fb_length, Bv.tblLen,
    buckets_val, List.length_cons, List.length_nil]
  have hult : BitVec.ult d time = decide (d.toNat < time.toNat) := by
    simp [BitVec.ult]
  simp only [hult]
  by_cases hdue : d.toNat < time.toNat
  · simp only [hdue, decide_true, ↓reduceIte]
    have hz : (time - time) = 0#64 := by simp
    have hzn : (time.toNat + two64 - time.toNat) % two64 = 0 := by
      have : time.toNat + two64 - time.toNat = two64 := by omega
      rw [this]; exact Nat.mod_self _
    rw [hz, hzn]
    simp only [fbGo, Gen.Wheel.fb_loop, Gen.Wheel.fb_fits, Gen.Wheel.fb_index, Gen.Wheel.fb_ticks, Bv.tbl,
      spans_val, shift_val, buckets_val]
    have h1 : (0 : Nat) < span 1 := by decide
    simp only [h1, ↓reduceIte]
    have : BitVec.slt 0#64 (BitVec.ofNat 64 (0 + 1 + 1 + 1 + 1 + 1) - 1#64) = true := by decide
    simp only [this, ↓reduceIte]
    have : BitVec.ult 0#64 ([1073741824#64, 68719476736#64, 4398046511104#64, 140737488355328#64, 562949953421312#64,
      562949953421312#64].getD (0#64 + 1#64).toNat 0#64) = true := by decide
    simp only [this, ↓reduceIte]
    have e0 : ([30#64, 36#64, 42#64, 47#64, 49#64].getD (0#64).toNat 0#64).toNat = 30 := by decide
    have e1 : ([64#64, 64#64, 32#64, 4#64, 1#64].getD (0#64).toNat 0#64 - 1#64) = 63#64 := by decide
    rw [e0, e1]
    have := and_mask (time >>> 30) 6 (by omega) 63#64 (by decide)
    rw [this, BitVec.toNat_ushiftRight]
    have s0 : shift 0 = 30 := by decide
    have b0 : buckets 0 = 64 := by decide
    rw [s0, b0]
    rfl
  · simp only [hdue, decide_false, Bool.false_eq_true, ↓reduceIte]
    rw [← sub_toNat]
    generalize hdur : d - time = dur
    simp only [fbGo, Gen.Wheel.fb_loop, Gen.Wheel.fb_fits, Gen.Wheel.fb_index, Gen.Wheel.fb_ticks, Bv.tbl,
      spans_val, shift_val, buckets_val]
    have l0 : BitVec.slt 0#64 (BitVec.ofNat 64 (0 + 1 + 1 + 1 + 1 + 1) - 1#64) = true := by decide
    have l1 : BitVec.slt (0#64 + 1#64) (BitVec.ofNat 64 (0 + 1 + 1 + 1 + 1 + 1) - 1#64) = true := by decide
    have l2 : BitVec.slt (0#64 + 1#64 + 1#64) (BitVec.ofNat 64 (0 + 1 + 1 + 1 + 1 + 1) - 1#64) = true := by decide
    have l3 : BitVec.slt (0#64 + 1#64 + 1#64 + 1#64) (BitVec.ofNat 64 (0 + 1 + 1 + 1 + 1 + 1) - 1#64) = true := by decide
    have l4 : BitVec.slt (0#64 + 1#64 + 1#64 + 1#64 + 1#64) (BitVec.ofNat 64 (0 + 1 + 1 + 1 + 1 + 1) - 1#64) = false := by decide
    simp only [l0, l1, l2, l3, l4, ↓reduceIte, Bool.false_eq_true]
    have sp1 : [1073741824#64, 68719476736#64, 4398046511104#64, 140737488355328#64, 562949953421312#64,
      562949953421312#64].getD (0#64 + 1#64).toNat 0#64 = 68719476736#64 := by decide
    have sp2 : [1073741824#64, 68719476736#64, 4398046511104#64, 140737488355328#64, 562949953421312#64,
      562949953421312#64].getD (0#64 + 1#64 + 1#64).toNat 0#64 = 4398046511104#64 := by decide
    have sp3 : [1073741824#64, 68719476736#64, 4398046511104#64, 140737488355328#64, 562949953421312#64,
      562949953421312#64].getD (0#64 + 1#64 + 1#64 + 1#64).toNat 0#64 = 140737488355328#64 := by decide
    have sp4 : [1073741824#64, 68719476736#64, 4398046511104#64, 140737488355328#64, 562949953421312#64,
      562949953421312#64].getD (0#64 + 1#64 + 1#64 + 1#64 + 1#64).toNat 0#64 = 562949953421312#64 := by decide
    rw [sp1, sp2, sp3, sp4]
    have u (a b : BitVec 64) : BitVec.ult a b = decide (a.toNat < b.toNat) := by simp [BitVec.ult]
    simp only [u]
    have n1 : (68719476736#64).toNat = span 1 := by decide
    have n2 : (4398046511104#64).toNat = span 2 := by decide
    have n3 : (140737488355328#64).toNat = span 3 := by decide
    have n4 : (562949953421312#64).toNat = span 4 := by decide
    rw [n1, n2, n3, n4]
    have sh0 : ([30#64, 36#64, 42#64, 47#64, 49#64].getD (0#64).toNat 0#64).toNat = 30 := by decide
    have sh1 : ([30#64, 36#64, 42#64, 47#64, 49#64].getD (0#64 + 1#64).toNat 0#64).toNat = 36 := by decide
    have sh2 : ([30#64, 36#64, 42#64, 47#64, 49#64].getD (0#64 + 1#64 + 1#64).toNat 0#64).toNat = 42 := by decide
    have sh3 : ([30#64, 36#64, 42#64, 47#64, 49#64].getD (0#64 + 1#64 + 1#64 + 1#64).toNat 0#64).toNat = 47 := by decide
    have b0 : ([64#64, 64#64, 32#64, 4#64, 1#64].getD (0#64).toNat 0#64 - 1#64) = 63#64 := by decide
    have b1 : ([64#64, 64#64, 32#64, 4#64, 1#64].getD (0#64 + 1#64).toNat 0#64 - 1#64) = 63#64 := by decide
    have b2 : ([64#64, 64#64, 32#64, 4#64, 1#64].getD (0#64 + 1#64 + 1#64).toNat 0#64 - 1#64) = 31#64 := by decide
    have b3 : ([64#64, 64#64, 32#64, 4#64, 1#64].getD (0#64 + 1#64 + 1#64 + 1#64).toNat 0#64 - 1#64) = 3#64 := by decide
    rw [sh0, sh1, sh2, sh3, b0, b1, b2, b3]
    have m0 := and_mask (d >>> 30) 6 (by omega) 63#64 (by decide)
    have m1 := and_mask (d >>> 36) 6 (by omega) 63#64 (by decide)
    have m2 := and_mask (d >>> 42) 5 (by omega) 31#64 (by decide)
    have m3 := and_mask (d >>> 47) 2 (by omega) 3#64 (by decide)
    rw [m0, m1, m2, m3]
    simp only [BitVec.toNat_ushiftRight]
    have s0 : shift 0 = 30 := by decide
    have s1 : shift 1 = 36 := by decide
    have s2 : shift 2 = 42 := by decide
    have s3 : shift 3 = 47 := by decide
    have c0 : buckets 0 = 64 := by decide
    have c1 : buckets 1 = 64 := by decide
    have c2 : buckets 2 = 32 := by decide
    have c3 : buckets 3 = 4 := by decide
    rw [s0, s1, s2, s3, c0, c1, c2, c3]
    have i0 : (0#64).toNat = 0 := by decide
    have i1 : (0#64 + 1#64).toNat = 1 := by decide
    have i2 : (0#64 + 1#64 + 1#64).toNat = 2 := by decide
    have i3 : (0#64 + 1#64 + 1#64 + 1#64).toNat = 3 := by decide
    have i4 : (BitVec.ofNat 64 (0 + 1 + 1 + 1 + 1 + 1) - 1#64).toNat = 4 := by decide
    rw [i0, i1, i2, i3, i4]
    by_cases h1 : dur.toNat < span 1
    · simp [h1]
    by_cases h2 : dur.toNat < span 2
    · simp [h1, h2]
    by_cases h3 : dur.toNat < span 3
    · simp [h1, h2, h3]
    by_cases h4 : dur.toNat < span 4
    · simp [h1, h2, h3, h4]
    · simp [h1, h2, h3, h4]

/-! ### the time maps -/

theorem wheelTime_eq (t : Int) : (Gen.Wheel.wheelTime (BitVec.ofInt 64 t)).toNat = wheelTime t := by
  unfold Gen.Wheel.wheelTime wheelTime
  have hx : ∀ x : BitVec 64, x ^^^ 9223372036854775808#64 = x + 9223372036854775808#64 := by
    intro x
    have h63 : (9223372036854775808#64) = BitVec.twoPow 64 63 := by decide
    rw [h63]
    apply BitVec.eq_of_toNat_eq
    rw [BitVec.toNat_xor, BitVec.toNat_add, BitVec.toNat_twoPow]
    have hx := x.isLt
    have e : (2 ^ 63 % 2 ^ 64 : Nat) = 2 ^ 63 := by decide
    rw [e]
    by_cases hb : x.toNat < 2 ^ 63
    · have : x.toNat ^^^ 2 ^ 63 = x.toNat + 2 ^ 63 := by
        rw [Nat.xor_comm, Nat.add_comm]
        exact (Nat.two_pow_add_eq_or_of_lt hb 1 ▸ by
          rw [Nat.mul_one]
          apply Nat.eq_of_testBit_eq; intro i
          simp only [Nat.testBit_xor, Nat.testBit_or, Nat.testBit_two_pow]
          by_cases hi : 63 = i
          · subst hi; simp [Nat.testBit_lt_two_pow hb]
          · simp [hi])
      rw [this]; omega
    · have hge : 2 ^ 63 ≤ x.toNat := by omega
      obtain ⟨y, hy⟩ : ∃ y, x.toNat = 2 ^ 63 + y := ⟨x.toNat - 2 ^ 63, by omega⟩
      have hylt : y < 2 ^ 63 := by omega
      have : x.toNat ^^^ 2 ^ 63 = y := by
        rw [hy]
        apply Nat.eq_of_testBit_eq; intro i
        have hor := Nat.two_pow_add_eq_or_of_lt hylt 1
        rw [Nat.mul_one] at hor
        rw [hor]
        simp only [Nat.testBit_xor, Nat.testBit_or, Nat.testBit_two_pow]
        by_cases hi : 63 = i
        · subst hi; simp [Nat.testBit_lt_two_pow hylt]
        · simp [hi]
      rw [this, hy]; omega
  rw [hx, BitVec.toNat_add, BitVec.toNat_ofInt]
  have : (9223372036854775808#64).toNat = 9223372036854775808 := by decide
  rw [this]
  omega

theorem clockTime_wheelTime (t : BitVec 64) : Gen.Wheel.clockTime (Gen.Wheel.wheelTime t) = t := by
  unfold Gen.Wheel.clockTime Gen.Wheel.wheelTime
  rw [BitVec.xor_assoc, BitVec.xor_self, BitVec.xor_zero]

/-- Add schedules by the wheel-time of the node's deadline; DeleteExpired moves the wheel to the wheel-time of `now` -/
theorem add_arg_eq (e : BitVec 64) : Gen.Wheel.add_arg e = Gen.Wheel.wheelTime e := rfl
theorem de_currentTime_eq (n : BitVec 64) : Gen.Wheel.de_currentTime n = Gen.Wheel.wheelTime n := rfl
/-- the time handed to expireNode is the clock reading the wheel was moved to -/
theorem db_reportedNow_eq (n : BitVec 64) : Gen.Wheel.db_reportedNow (Gen.Wheel.wheelTime n) = n :=
  clockTime_wheelTime n

/-! ### the sweep's arithmetic -/

theorem shift_tbl (i : Nat) (hi : i < 5) : (Bv.tbl Gen.Wheel.shift (BitVec.ofNat 64 i)).toNat = shift i := by
  have : i = 0 ∨ i = 1 ∨ i = 2 ∨ i = 3 ∨ i = 4 := by omega
  rcases this with h | h | h | h | h <;> subst h <;> decide

theorem buckets_tbl (i : Nat) (hi : i < 5) : (Bv.tbl Gen.Wheel.buckets (BitVec.ofNat 64 i)).toNat = buckets i := by
  have : i = 0 ∨ i = 1 ∨ i = 2 ∨ i = 3 ∨ i = 4 := by omega
  rcases this with h | h | h | h | h <;> subst h <;> decide

/-- the level loop of DeleteExpired runs over exactly the five levels -/
theorem de_loop_eq (i : Nat) (hi : i < 2 ^ 63) : Gen.Wheel.de_loop (BitVec.ofNat 64 i) = decide (i < 5) := by
  unfold Gen.Wheel.de_loop Bv.tblLen
  rw [shift_val]
  simp only [List.length_cons, List.length_nil]
  rw [BitVec.slt_eq_decide]
  have h1 : (BitVec.ofNat 64 i).toInt = i := by
    rw [BitVec.toInt_eq_toNat_cond, BitVec.toNat_ofNat]
    have : i % 2 ^ 64 = i := Nat.mod_eq_of_lt (by omega)
    rw [this]
    split <;> omega
  have h2 : (BitVec.ofNat 64 (0 + 1 + 1 + 1 + 1 + 1)).toInt = 5 := by decide
  rw [h1, h2]
  congr 1
  apply propext
  constructor <;> intro h <;> omega

theorem de_ticks_eq (time : BitVec 64) (i : Nat) (hi : i < 5) :
    (Gen.Wheel.de_previousTicks (BitVec.ofNat 64 i) time).toNat = time.toNat >>> shift i := by
  unfold Gen.Wheel.de_previousTicks
  rw [BitVec.toNat_ushiftRight, shift_tbl i hi]

theorem de_currentTicks_eq (time : BitVec 64) (i : Nat) (hi : i < 5) :
    (Gen.Wheel.de_currentTicks time (BitVec.ofNat 64 i)).toNat = time.toNat >>> shift i := by
  unfold Gen.Wheel.de_currentTicks
  rw [BitVec.toNat_ushiftRight, shift_tbl i hi]

theorem de_delta_eq (ct pt : BitVec 64) : (Gen.Wheel.de_delta ct pt).toNat = (ct.toNat + two64 - pt.toNat) % two64 :=
  sub_toNat ct pt

theorem de_stop_eq (delta : BitVec 64) : Gen.Wheel.de_stop delta = (delta.toNat == 0) := by
  unfold Gen.Wheel.de_stop
  by_cases h : delta = 0#64
  · subst h; rfl
  · have : delta.toNat ≠ 0 := fun h0 => h (BitVec.eq_of_toNat_eq (by simpa using h0))
    have h1 : (delta == 0#64) = false := by simpa using h
    have h2 : (delta.toNat == 0) = false := by simpa using this
    rw [h1, h2]

private theorem pow2_buckets (i : Nat) (hi : i < 5) :
    ∃ k, k < 64 ∧ buckets i = 2 ^ k ∧ (Gen.Wheel.db_mask (BitVec.ofNat 64 i)).toNat = 2 ^ k - 1 := by
  have : i = 0 ∨ i = 1 ∨ i = 2 ∨ i = 3 ∨ i = 4 := by omega
  rcases this with h | h | h | h | h <;> subst h
  · exact ⟨6, by decide, by decide, by decide⟩
  · exact ⟨6, by decide, by decide, by decide⟩
  · exact ⟨5, by decide, by decide, by decide⟩
  · exact ⟨2, by decide, by decide, by decide⟩
  · exact ⟨0, by decide, by decide, by decide⟩

/-- `start := prevTicks & mask` is the model's `prevTicks % buckets` -/
theorem db_start_eq (pt : BitVec 64) (i : Nat) (hi : i < 5) :
    (Gen.Wheel.db_start (Gen.Wheel.db_mask (BitVec.ofNat 64 i)) pt).toNat = pt.toNat % buckets i := by
  obtain ⟨k, hk, hb, hm⟩ := pow2_buckets i hi
  unfold Gen.Wheel.db_start
  rw [and_mask pt k hk _ hm, hb]

/-- the visited slot `i & mask` is the model's `(start + k) % buckets` -/
theorem db_slot_eq (j : BitVec 64) (i : Nat) (hi : i < 5) :
    (Gen.Wheel.db_slot j (Gen.Wheel.db_mask (BitVec.ofNat 64 i))).toNat = j.toNat % buckets i := by
  obtain ⟨k, hk, hb, hm⟩ := pow2_buckets i hi
  unfold Gen.Wheel.db_slot
  rw [and_mask j k hk _ hm, hb]

/-- `steps := min(delta+1, buckets)` is the model's, as long as delta+1 does not wrap (ticks are below 2^34) -/
theorem db_steps_eq (delta : BitVec 64) (i : Nat) (hi : i < 5) (hd : delta.toNat + 1 < two64) :
    (Gen.Wheel.db_steps delta (BitVec.ofNat 64 i)).toNat = min (delta.toNat + 1) (buckets i) := by
  unfold Gen.Wheel.db_steps Bv.umin
  have hb := buckets_tbl i hi
  have h1 : (delta + 1#64).toNat = delta.toNat + 1 := by
    rw [BitVec.toNat_add]
    have : (1#64).toNat = 1 := by decide
    rw [this]
    unfold two64 at hd
    exact Nat.mod_eq_of_lt hd
  have hu : BitVec.ult (Bv.tbl Gen.Wheel.buckets (BitVec.ofNat 64 i)) (delta + 1#64)
      = decide (buckets i < delta.toNat + 1) := by
    simp [BitVec.ult, hb, h1]
  rw [hu]
  by_cases hlt : buckets i < delta.toNat + 1
  · simp only [hlt, decide_true, ↓reduceIte]; rw [hb]; omega
  · simp only [hlt, decide_false, Bool.false_eq_true, ↓reduceIte]; rw [h1]; omega

theorem db_end_eq (start steps : BitVec 64) (h : start.toNat + steps.toNat < two64) :
    (Gen.Wheel.db_end start steps).toNat = start.toNat + steps.toNat := by
  unfold Gen.Wheel.db_end
  rw [BitVec.toNat_add]
  unfold two64 at h
  exact Nat.mod_eq_of_lt h

theorem db_loop_eq (j e : BitVec 64) : Gen.Wheel.db_loop e j = decide (j.toNat < e.toNat) := by
  simp [Gen.Wheel.db_loop, BitVec.ult]

/-- a node is handed to expireNode iff the wheel-time of its deadline lies strictly before the wheel's time: the model's
    `x.d < time` -/
theorem db_expired_eq (e time : BitVec 64) :
    Gen.Wheel.db_expired e time = decide ((Gen.Wheel.wheelTime e).toNat < time.toNat) := by
  simp [Gen.Wheel.db_expired, BitVec.ult]

/-- in the clock's own (signed) terms: expireNode is reached iff the deadline lies strictly before the time the wheel was moved to -/
theorem db_expired_signed (e now : BitVec 64) :
    Gen.Wheel.db_expired e (Gen.Wheel.wheelTime now) = BitVec.slt e now := by
  rw [db_expired_eq, BitVec.slt_eq_decide]
  have he := wheelTime_eq e.toInt
  have hn := wheelTime_eq now.toInt
  rw [BitVec.ofInt_toInt] at he hn
  rw [he, hn]
  unfold wheelTime
  have h1 : -2 ^ 63 ≤ e.toInt := BitVec.le_toInt e
  have h2 : e.toInt < 2 ^ 63 := BitVec.toInt_lt (x := e)
  have h3 : -2 ^ 63 ≤ now.toInt := BitVec.le_toInt now
  have h4 : now.toInt < 2 ^ 63 := BitVec.toInt_lt (x := now)
  congr 1
  apply propext
  constructor <;> intro h <;> omega

end OtterVerif.Proofs.WheelGen
