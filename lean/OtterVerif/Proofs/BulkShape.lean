/-
  Proofs.BulkShape — the shape of BulkGet (Spec.Bulk): for every state, request list (duplicates, hits, misses in any order)
  and loader answer (full, partial, extra keys, empty).
-/
import OtterVerif.Spec.Bulk

namespace OtterVerif.Proofs.BulkShape
open OtterVerif.Spec

/-- the keys a plan has classified so far: hits first, then misses -/
def keysOf (p : BulkPlan) : List Nat := p.hits.map (·.1) ++ p.misses

theorem seen_iff (p : BulkPlan) (k : Nat) : bulkSeen p k = true ↔ k ∈ keysOf p := by
  unfold bulkSeen keysOf
  rw [Bool.or_eq_true, List.any_eq_true, List.contains_iff_mem, List.mem_append, List.mem_map]
  constructor
  · rintro (⟨q, hq, he⟩ | h)
    · exact Or.inl ⟨q, hq, by simpa using he⟩
    · exact Or.inr h
  · rintro (⟨q, hq, he⟩ | h)
    · exact Or.inl ⟨q, hq, by simpa using he⟩
    · exact Or.inr h

/-- one step classifies k (if it was not yet) and nothing else -/
theorem step_keys (cfg : Cfg) (p : BulkPlan) (k : Nat) (hn : (keysOf p).Nodup) :
    (keysOf (bulkStep cfg p k)).Nodup ∧ ∀ x, x ∈ keysOf (bulkStep cfg p k) ↔ (x ∈ keysOf p ∨ x = k) := by
  unfold bulkStep
  by_cases hs : bulkSeen p k = true
  · rw [if_pos hs]
    have hk := (seen_iff p k).mp hs
    refine ⟨hn, fun x => ⟨Or.inl, ?_⟩⟩
    rintro (h | h)
    · exact h
    · rw [h]; exact hk
  · rw [if_neg hs]
    have hk : k ∉ keysOf p := fun h => hs ((seen_iff p k).mpr h)
    cases hl : lookup cfg p.s k with
    | mk s' oe =>
      cases oe with
      | some e =>
        show (keysOf { s := s', hits := p.hits ++ [(k, e.val)], misses := p.misses }).Nodup ∧ _
        have hperm : List.Perm (keysOf { s := s', hits := p.hits ++ [(k, e.val)], misses := p.misses }) (k :: keysOf p) := by
          unfold keysOf
          simp only [List.map_append, List.map_cons, List.map_nil, List.append_assoc, List.singleton_append]
          exact List.perm_middle
        refine ⟨hperm.nodup_iff.mpr (List.nodup_cons.mpr ⟨hk, hn⟩), fun x => ?_⟩
        rw [hperm.mem_iff, List.mem_cons]
        constructor
        · rintro (h | h)
          · exact Or.inr h
          · exact Or.inl h
        · rintro (h | h)
          · exact Or.inr h
          · exact Or.inl h
      | none =>
        show (keysOf { s := s', hits := p.hits, misses := p.misses ++ [k] }).Nodup ∧ _
        have hperm : List.Perm (keysOf { s := s', hits := p.hits, misses := p.misses ++ [k] }) (k :: keysOf p) := by
          unfold keysOf
          rw [← List.append_assoc]
          exact List.perm_append_singleton _ _
        refine ⟨hperm.nodup_iff.mpr (List.nodup_cons.mpr ⟨hk, hn⟩), fun x => ?_⟩
        rw [hperm.mem_iff, List.mem_cons]
        constructor
        · rintro (h | h)
          · exact Or.inr h
          · exact Or.inl h
        · rintro (h | h)
          · exact Or.inr h
          · exact Or.inl h

theorem fold_keys (cfg : Cfg) (ks : List Nat) (p : BulkPlan) (hn : (keysOf p).Nodup) :
    (keysOf (ks.foldl (bulkStep cfg) p)).Nodup ∧ ∀ x, x ∈ keysOf (ks.foldl (bulkStep cfg) p) ↔ (x ∈ keysOf p ∨ x ∈ ks) := by
  induction ks generalizing p with
  | nil => exact ⟨hn, fun x => by simp⟩
  | cons k t ih =>
    obtain ⟨h1, h2⟩ := step_keys cfg p k hn
    obtain ⟨h3, h4⟩ := ih (bulkStep cfg p k) h1
    refine ⟨h3, fun x => ?_⟩
    rw [List.foldl_cons, h4, h2, List.mem_cons]
    constructor
    · rintro ((h | h) | h)
      · exact Or.inl h
      · exact Or.inr (Or.inl h)
      · exact Or.inr (Or.inr h)
    · rintro (h | h | h)
      · exact Or.inl (Or.inl h)
      · exact Or.inl (Or.inr h)
      · exact Or.inr h

/-- **the request is partitioned**: every requested key is classified exactly once (as a hit or as a miss), nothing else is -/
theorem plan_partition (cfg : Cfg) (s : State) (ks : List Nat) :
    (keysOf (bulkPlan cfg s ks)).Nodup ∧ ∀ x, x ∈ keysOf (bulkPlan cfg s ks) ↔ x ∈ ks := by
  have := fold_keys cfg ks { s := s } (by unfold keysOf; exact List.nodup_nil)
  refine ⟨this.1, fun x => ?_⟩
  have h := this.2 x
  unfold bulkPlan
  rw [h]
  constructor
  · rintro (h | h)
    · cases h
    · exact h
  · exact Or.inr

theorem supplied_sublist (misses : List Nat) (kvs : List (Nat × Nat)) :
    ((bulkSupplied misses kvs).map (·.1)).Sublist misses := by
  unfold bulkSupplied
  induction misses with
  | nil => exact List.Sublist.slnil
  | cons k t ih =>
    rw [List.filterMap_cons]
    cases hf : kvs.find? (·.1 == k) with
    | none => simp only [Option.map_none]; exact List.Sublist.cons _ ih
    | some q => simp only [Option.map_some, List.map_cons]; exact List.Sublist.cons_cons _ ih

theorem supplied_mem {misses : List Nat} {kvs : List (Nat × Nat)} {q : Nat × Nat} (h : q ∈ bulkSupplied misses kvs) :
    q.1 ∈ misses ∧ ∃ q', q' ∈ kvs ∧ q'.1 = q.1 ∧ q'.2 = q.2 := by
  unfold bulkSupplied at h
  rw [List.mem_filterMap] at h
  obtain ⟨k, hk, he⟩ := h
  cases hf : kvs.find? (·.1 == k) with
  | none => rw [hf] at he; cases he
  | some q' =>
    rw [hf] at he
    simp only [Option.map_some, Option.some.injEq] at he
    subst he
    have hm := List.mem_of_find?_eq_some hf
    have hp := List.find?_some hf
    exact ⟨hk, q', hm, by simpa using hp, rfl⟩

/-- a BulkGet returns only requested keys -/
theorem return_keys_requested (cfg : Cfg) (s : State) (ks : List Nat) (kvs : List (Nat × Nat)) {q : Nat × Nat}
    (h : q ∈ bulkReturn (bulkPlan cfg s ks) kvs) : q.1 ∈ ks := by
  have hp := (plan_partition cfg s ks).2 q.1
  apply hp.mp
  unfold bulkReturn at h
  unfold keysOf
  rcases List.mem_append.mp h with h1 | h1
  · exact List.mem_append.mpr (Or.inl (List.mem_map.mpr ⟨q, h1, rfl⟩))
  · exact List.mem_append.mpr (Or.inr (supplied_mem h1).1)

/-- each distinct key at most once -/
theorem return_nodup (cfg : Cfg) (s : State) (ks : List Nat) (kvs : List (Nat × Nat)) :
    ((bulkReturn (bulkPlan cfg s ks) kvs).map (·.1)).Nodup := by
  have hn := (plan_partition cfg s ks).1
  unfold bulkReturn
  rw [List.map_append]
  exact List.Nodup.sublist (List.Sublist.append_left (supplied_sublist _ kvs) _) hn

/-- every returned pair was cached when its key was looked up, or is what the loader supplied for a key it was asked for -/
theorem return_source (cfg : Cfg) (s : State) (ks : List Nat) (kvs : List (Nat × Nat)) {q : Nat × Nat}
    (h : q ∈ bulkReturn (bulkPlan cfg s ks) kvs) :
    q ∈ (bulkPlan cfg s ks).hits ∨ (q.1 ∈ (bulkPlan cfg s ks).misses ∧ ∃ q', q' ∈ kvs ∧ q'.1 = q.1 ∧ q'.2 = q.2) := by
  unfold bulkReturn at h
  rcases List.mem_append.mp h with h1 | h1
  · exact Or.inl h1
  · exact Or.inr (supplied_mem h1)

/-- a missing key the loader did not supply is absent from the result -/
theorem unsupplied_absent (cfg : Cfg) (s : State) (ks : List Nat) (kvs : List (Nat × Nat)) {k : Nat}
    (hk : k ∈ (bulkPlan cfg s ks).misses) (hno : ∀ q, q ∈ kvs → q.1 ≠ k) :
    k ∉ (bulkReturn (bulkPlan cfg s ks) kvs).map (·.1) := by
  intro hmem
  have hn := (plan_partition cfg s ks).1
  unfold keysOf at hn
  rw [List.mem_map] at hmem
  obtain ⟨q, hq, he⟩ := hmem
  unfold bulkReturn at hq
  rcases List.mem_append.mp hq with h1 | h1
  · -- a hit with the key of a miss contradicts the partition
    have hd := (List.nodup_append.mp hn).2.2
    exact hd k (List.mem_map.mpr ⟨q, h1, he⟩) k hk rfl
  · obtain ⟨_, q', hq', hk', _⟩ := supplied_mem h1
    exact hno q' hq' (hk'.trans he)

/-- a volunteered key (supplied without having been asked for) is not returned on the loader's word -/
theorem volunteered_not_supplied (misses : List Nat) (kvs : List (Nat × Nat)) {q : Nat × Nat}
    (h : q ∈ bulkVolunteered misses kvs) : q.1 ∉ (bulkSupplied misses kvs).map (·.1) := by
  unfold bulkVolunteered at h
  rw [List.mem_filter] at h
  intro hm
  have := (supplied_sublist misses kvs).subset hm
  have hc : misses.contains q.1 = true := List.contains_iff_mem.mpr this
  rw [hc] at h
  exact absurd h.2 (by decide)

/-- the loader is asked for each missing key once, and only for requested keys -/
theorem misses_distinct_requested (cfg : Cfg) (s : State) (ks : List Nat) :
    (bulkPlan cfg s ks).misses.Nodup ∧ ∀ k, k ∈ (bulkPlan cfg s ks).misses → k ∈ ks := by
  obtain ⟨hn, hm⟩ := plan_partition cfg s ks
  unfold keysOf at hn hm
  exact ⟨(List.nodup_append.mp hn).2.1, fun k hk => (hm k).mp (List.mem_append.mpr (Or.inr hk))⟩

end OtterVerif.Proofs.BulkShape
