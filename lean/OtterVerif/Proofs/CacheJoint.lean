/-
  Proofs.CacheJoint — the agreement "alive ⇔ mapped" as an invariant of the joint steps of table and size policy in
  single-goroutine use with a same-goroutine executor (every write event is replayed, and the eviction pass run, before the
  operation returns).

  The table is represented by the list `live` of the node identities it maps.  A joint step is: the table's own change
  (a node created alive, the replaced / removed node retired), the replay of the write event on Impl.Policy (add / update /
  delete), the eviction pass, and the table's reaction to the eviction callback: every node the policy killed is unlinked
  (`react`).  Shown: `JInv` — the policy state is reachable, quiescent, and a node is mapped exactly while it is alive and
  introduced — holds after every sequence of joint steps.  With Proofs.CacheAgree this turns the hypothesis `Agree` of the
  composed C04 / C07 statements into a theorem for sequential histories.

  What makes it go through is one new fact about Impl.Policy, `Dn`: no operation of the policy changes a node's state
  except by making it dead (shown for add, update, delete, the eviction pass, reads, the hill climber, SetMaximum).
-/
import OtterVerif.Proofs.CacheAgree
import OtterVerif.Proofs.PolicyJust

namespace OtterVerif.Impl.Policy

/-- node states change only by dying -/
def Dn (p p' : Policy) : Prop := ∀ id, (p'.node id).st = (p.node id).st ∨ (p'.node id).st = .dead

theorem Dn.refl (p : Policy) : Dn p p := fun _ => Or.inl rfl

theorem Dn.trans {p p' p'' : Policy} (h1 : Dn p p') (h2 : Dn p' p'') : Dn p p'' := by
  intro id
  rcases h2 id with e2 | d2
  · rcases h1 id with e1 | d1
    · left; rw [e2, e1]
    · right; rw [e2, d1]
  · right; exact d2

theorem Dn.of_mv {p p' : Policy} (h : Mv p p') : Dn p p' := fun id => Or.inl (h.2 id)

theorem Dn.of_nodes {p p' : Policy} (h : ∀ id, p'.node id = p.node id) : Dn p p' := fun id => Or.inl (by rw [h id])

theorem Dn.of_kill {p p' : Policy} {x : Nat} (h : Kill x p p') : Dn p p' := by
  intro id
  by_cases e : id = x
  · right; rw [e]; exact h.2.1
  · left; exact h.2.2 id e

theorem dn_evictNode (p : Policy) (x : Nat) (hn : (all p).Nodup) : Dn p (evictNode p x) := Dn.of_kill (kill_evictNode p x hn)
theorem dn_makeDead (p : Policy) (x : Nat) (hn : (all p).Nodup) : Dn p (makeDead p x) := Dn.of_kill (kill_makeDead p x hn)
theorem dn_admit (p : Policy) (c v : Nat) : Dn p (admit p c v).1 := Dn.of_nodes (fun id => node_admit p c v id)

/-- a chain of guarded evictions and admission draws (Proofs.PolicyJust) only kills -/
theorem dn_of_just {S : List Nat} {p q : Policy} (h : Just p q) : LInv S p → Dn p q := by
  induction h with
  | done p => intro _; exact Dn.refl p
  | evict p q x _ _ ih => intro hi; exact (dn_evictNode p x hi.c).trans (ih (LInv.evictNode x hi))
  | draw p q a b _ ih => intro hi; exact (dn_admit p a b).trans (ih (LInv.admit a b hi))

theorem dn_evictNodes {S : List Nat} {p : Policy} (hi : LInv S p) : Dn p (evictNodes p) :=
  (Dn.of_mv (mv_evictFromWindow p hi.c)).trans (dn_of_just (just_evictNodes p) (hi.mv (mv_evictFromWindow p hi.c)))

theorem dn_add {S : List Nat} {p : Policy} (id : Nat) (hi : LInv S p) : Dn p (add p id) := by
  rw [add_eq]
  simp only
  have h0 : Dn p (addPrefix p id) := Dn.of_mv (mv_addPrefix p id)
  have hi0 : LInv S (addPrefix p id) := hi.mv (mv_addPrefix p id)
  split
  · exact h0
  · split
    · exact h0.trans (dn_evictNode _ id (hi0.same _ rfl (fun _ => rfl)).c)
    · split
      · exact h0.trans (Dn.of_nodes (fun x => node_pushFront _ 0 id x))
      · exact h0.trans (Dn.of_nodes (fun x => node_pushBack _ 0 id x))

theorem dn_updateTail {T : List Nat} {p : Policy} (id : Nat) (w : BitVec 64) (hi : LInv T p) : Dn p (updateTail p id w) := by
  unfold Policy.updateTail
  simp only
  split
  · split
    · exact dn_evictNode _ id (hi.same _ rfl (fun _ => rfl)).c
    · have h1 : LInv T { p with windowWeightedSize := p.windowWeightedSize + w } := hi.same _ rfl (fun _ => rfl)
      refine Dn.trans (p' := { p with windowWeightedSize := p.windowWeightedSize + w }) (Dn.of_nodes (fun _ => rfl)) ?_
      refine Dn.trans ?_ (Dn.of_nodes (fun _ => rfl))
      split
      · exact Dn.of_mv (mv_access _ id h1.c)
      · split
        · rename_i h
          exact Dn.of_mv (mv_moveToFront _ 0 id h1.c ((linked_iff_all _ id).mp ((dqContains_iff _ 0 id).mp h)))
        · exact Dn.refl _
  · split
    · split
      · exact (Dn.of_mv (mv_access _ id hi.c)).trans (Dn.of_nodes (fun _ => rfl))
      · exact dn_evictNode _ id (hi.same _ rfl (fun _ => rfl)).c
    · have h1 : LInv T { p with mainProtectedWeightedSize := p.mainProtectedWeightedSize + w } := hi.same _ rfl (fun _ => rfl)
      refine Dn.trans (p' := { p with mainProtectedWeightedSize := p.mainProtectedWeightedSize + w }) (Dn.of_nodes (fun _ => rfl)) ?_
      split
      · exact (Dn.of_mv (mv_access _ id h1.c)).trans (Dn.of_nodes (fun _ => rfl))
      · exact dn_evictNode _ id (h1.same _ rfl (fun _ => rfl)).c

/-- updateNode: the old node dies, nothing else changes state -/
theorem dn_updateNode (p : Policy) (id old : Nat) (hne : id ≠ old) : Dn p (updateNode p id old) := by
  intro x
  by_cases e : x = old
  · right; rw [e]; exact node_updateNode_old p id old
  · by_cases e2 : x = id
    · left; rw [e2]; exact node_updateNode_new p id old hne
    · left; rw [node_updateNode_other p id old x e2 e]

theorem dn_update {S : List Nat} {p : Policy} {id : Nat} (old : Nat) (hi : LInv S p) (hs : id ∉ S) : Dn p (update p id old) := by
  rw [update_eq]
  split
  · exact dn_makeDead p old hi.c
  · rename_i h
    have hnd : (p.node id).st ≠ .dead := by simpa using h
    have h1 : LInv S (makeDead p old) := hi.kill (kill_makeDead p old hi.c)
    split
    · split
      · exact (dn_makeDead p old hi.c).trans (dn_add id h1)
      · exact dn_makeDead p old hi.c
    · rename_i h2
      have ho : old ∈ all p := by
        have : dqContains p (p.node old).qt old = true := by simpa using h2
        exact (linked_iff_all p old).mp ((dqContains_iff p _ old).mp this)
      have hne : id ≠ old := fun e => hs (e ▸ (hi.a old ho).1)
      exact (dn_updateNode p id old hne).trans (dn_updateTail id _ (hi.updateNode hs ho hnd))

/-- the update event kills the replaced node, whatever else it does -/
theorem update_old_dead {S : List Nat} {p : Policy} {id : Nat} (old : Nat) (hi : LInv S p) (hs : id ∉ S) (hne : id ≠ old)
    (hal : (p.node id).st = .alive) : ((update p id old).node old).st = .dead := by
  have dead_stays : ∀ {q q' : Policy}, Dn q q' → (q.node old).st = .dead → (q'.node old).st = .dead := by
    intro q q' h hd
    rcases h old with e | d
    · rw [e, hd]
    · exact d
  rw [update_eq]
  have hnd : (p.node id).st ≠ .dead := by rw [hal]; exact fun e => NState.noConfusion e
  have hnd' : ((p.node id).st == NState.dead) = false := by simpa using hnd
  simp only [hnd', Bool.false_eq_true, ↓reduceIte]
  have h1 : LInv S (makeDead p old) := hi.kill (kill_makeDead p old hi.c)
  split
  · split
    · exact dead_stays (dn_add id h1) (makeDead_dead p old)
    · exact makeDead_dead p old
  · rename_i h2
    have ho : old ∈ all p := by
      have : dqContains p (p.node old).qt old = true := by simpa using h2
      exact (linked_iff_all p old).mp ((dqContains_iff p _ old).mp this)
    exact dead_stays (dn_updateTail id _ (hi.updateNode hs ho hnd)) (node_updateNode_old p id old)

end OtterVerif.Impl.Policy

namespace OtterVerif.Proofs.CacheJoint
open OtterVerif OtterVerif.Impl.Policy OtterVerif.Proofs.CacheAgree

/-- the joint invariant: reachable, quiescent, and mapped ⇔ introduced ∧ alive -/
structure JInv (S : List Nat) (p : Policy) (live : List Nat) : Prop where
  reach : Reach S p
  quiet : Quiescent S p
  nodup : live.Nodup
  alive : ∀ id, id ∈ live ↔ (id ∈ S ∧ (p.node id).st = .alive)

/-- the table's reaction to the eviction callback: whatever the policy killed is unlinked -/
def react (p : Policy) (l : List Nat) : List Nat := l.filter (fun id => (p.node id).st == .alive)

theorem mem_react (p : Policy) (l : List Nat) (x : Nat) : x ∈ react p l ↔ x ∈ l ∧ (p.node x).st = .alive := by
  unfold react; rw [List.mem_filter]; simp

theorem alive_back {p p' : Policy} (h : Dn p p') (x : Nat) (ha : (p'.node x).st = .alive) : (p.node x).st = .alive := by
  rcases h x with e | d
  · rw [← e]; exact ha
  · rw [d] at ha; exact NState.noConfusion ha

theorem mkNode_self (p : Policy) (id key w : Nat) (st : NState) : ((mkNode p id key w st).node id).st = st := by
  unfold mkNode
  have := node_setNode_self p { id := id, key := key, weight := w, st := st }
  rw [this]

theorem mkNode_other (p : Policy) (id key w : Nat) (st : NState) (x : Nat) (h : x ≠ id) :
    (mkNode p id key w st).node x = p.node x := by
  unfold mkNode; exact node_setNode_other _ _ _ h

theorem retire_other (p : Policy) (old x : Nat) (h : x ≠ old) : (retire p old).node x = p.node x := by
  unfold retire
  simp only
  split
  · exact node_setNode_other _ _ _ h
  · rfl

theorem retire_self (p : Policy) (old : Nat) (h : (p.node old).st = .alive) : ((retire p old).node old).st = .retired := by
  unfold retire
  simp only [h, beq_self_eq_true, ↓reduceIte]
  have := node_setNode_self p { p.node old with st := .retired }
  have hx : ({ p.node old with st := NState.retired } : Node).id = old := rfl
  rw [hx] at this
  rw [this]

/-- **a new key**: node created alive, add event replayed, eviction pass, reaction -/
theorem jinsert {S : List Nat} {p : Policy} {live : List Nat} (h : JInv S p live) (id key w : Nat) (hs : id ∉ S) :
    JInv (id :: S) (evictNodes (add (mkNode p id key w .alive) id))
      (react (evictNodes (add (mkNode p id key w .alive) id)) (id :: live)) := by
  have r1 : Reach S (mkNode p id key w .alive) := Reach.mk id key w .alive h.reach hs
  have r2 : Reach (id :: S) (add (mkNode p id key w .alive) id) := Reach.add id r1 hs
  have r3 := Reach.evict r2
  have hd : Dn (mkNode p id key w .alive) (evictNodes (add (mkNode p id key w .alive) id)) :=
    (dn_add id (reach_inv r1)).trans (dn_evictNodes (reach_inv r2))
  have hnl : id ∉ live := fun hm => hs ((h.alive id).mp hm).1
  refine ⟨r3, ?_, ?_, ?_⟩
  · intro x hx hne
    rcases hd x with e | d
    · by_cases ex : x = id
      · rw [ex] at e hne; rw [e, mkNode_self] at hne; exact absurd rfl hne
      · have hxs : x ∈ S := by rcases List.mem_cons.mp hx with e' | e'; exact absurd e' ex; exact e'
        rw [e, mkNode_other _ _ _ _ _ _ ex] at hne ⊢
        exact h.quiet x hxs hne
    · exact d
  · exact List.Nodup.sublist List.filter_sublist (List.nodup_cons.mpr ⟨hnl, h.nodup⟩)
  · intro x
    rw [mem_react, List.mem_cons, List.mem_cons]
    constructor
    · rintro ⟨hx | hx, ha⟩
      · exact ⟨Or.inl hx, ha⟩
      · exact ⟨Or.inr ((h.alive x).mp hx).1, ha⟩
    · rintro ⟨hx | hx, ha⟩
      · exact ⟨Or.inl hx, ha⟩
      · by_cases ex : x = id
        · exact ⟨Or.inl ex, ha⟩
        · have := alive_back hd x ha
          rw [mkNode_other _ _ _ _ _ _ ex] at this
          exact ⟨Or.inr ((h.alive x).mpr ⟨hx, this⟩), ha⟩

/-- **a replaced value**: old node retired, new node created alive, update event replayed, eviction pass, reaction -/
theorem jreplace {S : List Nat} {p : Policy} {live : List Nat} (h : JInv S p live) (id old key w : Nat) (hs : id ∉ S)
    (ho : old ∈ live) :
    JInv (id :: S) (evictNodes (update (mkNode (retire p old) id key w .alive) id old))
      (react (evictNodes (update (mkNode (retire p old) id key w .alive) id old)) (id :: live.filter (· != old))) := by
  have hos := (h.alive old).mp ho
  have hne : id ≠ old := fun e => hs (e ▸ hos.1)
  have r0 : Reach S (retire p old) := Reach.retire old h.reach
  have r1 : Reach S (mkNode (retire p old) id key w .alive) := Reach.mk id key w .alive r0 hs
  have r2 : Reach (id :: S) (update (mkNode (retire p old) id key w .alive) id old) := Reach.update id old r1 hs
  have r3 := Reach.evict r2
  have hd : Dn (mkNode (retire p old) id key w .alive) (evictNodes (update (mkNode (retire p old) id key w .alive) id old)) :=
    (dn_update old (reach_inv r1) hs).trans (dn_evictNodes (reach_inv r2))
  have hnl : id ∉ live := fun hm => hs ((h.alive id).mp hm).1
  -- states in the intermediate policy
  have st1 : ∀ x, x ≠ id → x ≠ old → (mkNode (retire p old) id key w .alive).node x = p.node x := by
    intro x h1 h2; rw [mkNode_other _ _ _ _ _ _ h1, retire_other _ _ _ h2]
  have hold_dead : ((evictNodes (update (mkNode (retire p old) id key w .alive) id old)).node old).st = .dead := by
    have := update_old_dead old (reach_inv r1) hs hne (mkNode_self _ _ _ _ _)
    rcases dn_evictNodes (reach_inv r2) old with e | d
    · rw [e, this]
    · exact d
  refine ⟨r3, ?_, ?_, ?_⟩
  · intro x hx hna
    by_cases exo : x = old
    · rw [exo]; exact hold_dead
    · rcases hd x with e | d
      · by_cases ex : x = id
        · rw [ex] at e hna; rw [e, mkNode_self] at hna; exact absurd rfl hna
        · have hxs : x ∈ S := by rcases List.mem_cons.mp hx with e' | e'; exact absurd e' ex; exact e'
          rw [e, st1 x ex exo] at hna ⊢
          exact h.quiet x hxs hna
      · exact d
  · refine List.Nodup.sublist List.filter_sublist (List.nodup_cons.mpr ⟨?_, List.Nodup.sublist List.filter_sublist h.nodup⟩)
    intro hm; exact hnl (List.mem_filter.mp hm).1
  · intro x
    rw [mem_react, List.mem_cons, List.mem_cons, List.mem_filter]
    constructor
    · rintro ⟨hx | ⟨hx, _⟩, ha⟩
      · exact ⟨Or.inl hx, ha⟩
      · exact ⟨Or.inr ((h.alive x).mp hx).1, ha⟩
    · rintro ⟨hx | hx, ha⟩
      · exact ⟨Or.inl hx, ha⟩
      · by_cases ex : x = id
        · exact ⟨Or.inl ex, ha⟩
        · have exo : x ≠ old := fun e => by rw [e, hold_dead] at ha; exact NState.noConfusion ha
          have := alive_back hd x ha
          rw [st1 x ex exo] at this
          exact ⟨Or.inr ⟨(h.alive x).mpr ⟨hx, this⟩, by simpa using exo⟩, ha⟩

/-- **a removed value** (Invalidate, a Compute that deletes): node retired, delete event replayed, eviction pass, reaction -/
theorem jdelete {S : List Nat} {p : Policy} {live : List Nat} (h : JInv S p live) (old : Nat) (ho : old ∈ live) :
    JInv S (evictNodes (delete (retire p old) old)) (react (evictNodes (delete (retire p old) old)) (live.filter (· != old))) := by
  have r0 : Reach S (retire p old) := Reach.retire old h.reach
  have r1 : Reach S (delete (retire p old) old) := Reach.delete old r0
  have r2 := Reach.evict r1
  have hd : Dn (retire p old) (evictNodes (delete (retire p old) old)) :=
    (dn_makeDead _ old (reach_inv r0).c).trans (dn_evictNodes (reach_inv r1))
  have hold_dead : ((evictNodes (delete (retire p old) old)).node old).st = .dead := by
    rcases dn_evictNodes (reach_inv r1) old with e | d
    · rw [e]; exact makeDead_dead _ old
    · exact d
  refine ⟨r2, ?_, List.Nodup.sublist List.filter_sublist (List.Nodup.sublist List.filter_sublist h.nodup), ?_⟩
  · intro x hx hna
    by_cases exo : x = old
    · rw [exo]; exact hold_dead
    · rcases hd x with e | d
      · rw [e, retire_other _ _ _ exo] at hna ⊢; exact h.quiet x hx hna
      · exact d
  · intro x
    rw [mem_react, List.mem_filter]
    constructor
    · rintro ⟨⟨hx, _⟩, ha⟩; exact ⟨((h.alive x).mp hx).1, ha⟩
    · rintro ⟨hx, ha⟩
      have exo : x ≠ old := fun e => by rw [e, hold_dead] at ha; exact NState.noConfusion ha
      have := alive_back hd x ha
      rw [retire_other _ _ _ exo] at this
      exact ⟨⟨(h.alive x).mpr ⟨hx, this⟩, by simpa using exo⟩, ha⟩

/-- **an expired value** (the timer wheel hands the node to cache.evictNode): the table unlinks and retires it, the size policy's
    `delete` is called directly — no write event, no eviction pass -/
theorem jexpire {S : List Nat} {p : Policy} {live : List Nat} (h : JInv S p live) (old : Nat) (ho : old ∈ live) :
    JInv S (delete (retire p old) old) (live.filter (· != old)) := by
  have r0 : Reach S (retire p old) := Reach.retire old h.reach
  have r1 : Reach S (delete (retire p old) old) := Reach.delete old r0
  have hk := kill_makeDead (retire p old) old (reach_inv r0).c
  refine ⟨r1, ?_, List.Nodup.sublist List.filter_sublist h.nodup, ?_⟩
  · intro x hx hna
    by_cases exo : x = old
    · rw [exo]; exact makeDead_dead _ old
    · have e : ((delete (retire p old) old).node x).st = (p.node x).st := by
        show ((makeDead (retire p old) old).node x).st = _
        rw [hk.2.2 x exo, retire_other _ _ _ exo]
      rw [e] at hna ⊢; exact h.quiet x hx hna
  · intro x
    rw [List.mem_filter]
    constructor
    · rintro ⟨hx, hne⟩
      have exo : x ≠ old := by simpa using hne
      have e : ((delete (retire p old) old).node x).st = (p.node x).st := by
        show ((makeDead (retire p old) old).node x).st = _
        rw [hk.2.2 x exo, retire_other _ _ _ exo]
      rw [e]; exact (h.alive x).mp hx
    · rintro ⟨hx, ha⟩
      have exo : x ≠ old := fun e => by
        rw [e] at ha
        have : ((delete (retire p old) old).node old).st = .dead := makeDead_dead _ old
        rw [this] at ha; exact NState.noConfusion ha
      have e : ((delete (retire p old) old).node x).st = (p.node x).st := by
        show ((makeDead (retire p old) old).node x).st = _
        rw [hk.2.2 x exo, retire_other _ _ _ exo]
      rw [e] at ha
      exact ⟨(h.alive x).mpr ⟨hx, ha⟩, by simpa using exo⟩

/-- **a read, a hill-climber run, SetMaximum** (nothing created or removed by the table), then the eviction pass and reaction -/
theorem jmove {S : List Nat} {p p' : Policy} {live : List Nat} (h : JInv S p live) (hr : Reach S p') (hm : Dn p p') :
    JInv S (evictNodes p') (react (evictNodes p') live) := by
  have hd : Dn p (evictNodes p') := hm.trans (dn_evictNodes (reach_inv hr))
  refine ⟨Reach.evict hr, ?_, List.Nodup.sublist List.filter_sublist h.nodup, ?_⟩
  · intro x hx hna
    rcases hd x with e | d
    · rw [e] at hna ⊢; exact h.quiet x hx hna
    · exact d
  · intro x
    rw [mem_react]
    constructor
    · rintro ⟨hx, ha⟩; exact ⟨((h.alive x).mp hx).1, ha⟩
    · rintro ⟨hx, ha⟩; exact ⟨(h.alive x).mpr ⟨hx, alive_back hd x ha⟩, ha⟩

/-! ### every sequential history -/

inductive JOp where
  | insert (id key w : Nat) | replace (id old key w : Nat) | remove (old : Nat) | expire (old : Nat)
  | read (id : Nat) | climb | setMax (m : BitVec 64)

structure JState where
  S : List Nat
  p : Policy
  live : List Nat

/-- one operation of the cache as the table and the policy see it; an operation whose precondition fails (an identity used
    twice, a node that is not mapped) is not a step of the cache and leaves the state alone -/
def jstep (s : JState) : JOp → JState
  | .insert id key w =>
    if id ∈ s.S then s else
    let p' := evictNodes (add (mkNode s.p id key w .alive) id)
    { S := id :: s.S, p := p', live := react p' (id :: s.live) }
  | .replace id old key w =>
    if id ∈ s.S ∨ old ∉ s.live then s else
    let p' := evictNodes (update (mkNode (retire s.p old) id key w .alive) id old)
    { S := id :: s.S, p := p', live := react p' (id :: s.live.filter (· != old)) }
  | .remove old =>
    if old ∉ s.live then s else
    let p' := evictNodes (delete (retire s.p old) old)
    { s with p := p', live := react p' (s.live.filter (· != old)) }
  | .expire old =>
    if old ∉ s.live then s else { s with p := delete (retire s.p old) old, live := s.live.filter (· != old) }
  | .read id => let p' := evictNodes (access s.p id); { s with p := p', live := react p' s.live }
  | .climb => let p' := evictNodes (Impl.Policy.climb s.p); { s with p := p', live := react p' s.live }
  | .setMax m => let p' := evictNodes (setMaximumSize s.p m); { s with p := p', live := react p' s.live }

theorem jstep_inv (s : JState) (op : JOp) (h : JInv s.S s.p s.live) : JInv (jstep s op).S (jstep s op).p (jstep s op).live := by
  cases op with
  | insert id key w =>
    unfold jstep
    by_cases hs : id ∈ s.S
    · simp only [hs, ↓reduceIte]; exact h
    · simp only [hs, ↓reduceIte]; exact jinsert h id key w hs
  | replace id old key w =>
    unfold jstep
    by_cases hc : id ∈ s.S ∨ old ∉ s.live
    · simp only [hc, ↓reduceIte]; exact h
    · simp only [hc, ↓reduceIte]
      have h1 : id ∉ s.S := fun e => hc (Or.inl e)
      have h2 : old ∈ s.live := Classical.byContradiction (fun e => hc (Or.inr e))
      exact jreplace h id old key w h1 h2
  | remove old =>
    unfold jstep
    by_cases hc : old ∉ s.live
    · simp only [hc, not_false_eq_true, ↓reduceIte]; exact h
    · have h2 : old ∈ s.live := Classical.byContradiction hc
      simp only [h2, not_true_eq_false, ↓reduceIte]
      exact jdelete h old h2
  | expire old =>
    unfold jstep
    by_cases hc : old ∉ s.live
    · simp only [hc, not_false_eq_true, ↓reduceIte]; exact h
    · have h2 : old ∈ s.live := Classical.byContradiction hc
      simp only [h2, not_true_eq_false, ↓reduceIte]
      exact jexpire h old h2
  | read id => exact jmove h (Reach.access id h.reach) (Dn.of_mv (mv_access _ id (reach_inv h.reach).c))
  | climb => exact jmove h (Reach.climb h.reach) (Dn.of_mv (mv_climb _ (reach_inv h.reach).c))
  | setMax m => exact jmove h (Reach.setmax m h.reach) (Dn.of_mv (mv_setMaximumSize _ m))

/-- **the agreement is an invariant of every sequential history** from an empty cache -/
theorem jrun_inv (p0 : Policy) (h0 : p0.window = [] ∧ p0.probation = [] ∧ p0.prot = [] ∧ p0.weightedSize = 0)
    (ops : List JOp) : let s := ops.foldl jstep { S := [], p := p0, live := [] }; JInv s.S s.p s.live := by
  have hinit : JInv [] p0 [] :=
    ⟨Reach.init p0 h0.1 h0.2.1 h0.2.2.1 h0.2.2.2, (fun _ hx => by cases hx), List.nodup_nil,
     (fun id => ⟨(fun hx => by cases hx), (fun hx => by cases hx.1)⟩)⟩
  suffices ∀ (s : JState), JInv s.S s.p s.live → JInv (ops.foldl jstep s).S (ops.foldl jstep s).p (ops.foldl jstep s).live from
    this _ hinit
  induction ops with
  | nil => intro s h; exact h
  | cons op rest ih => intro s h; exact ih (jstep s op) (jstep_inv s op h)

/-- consequence: after every sequential history WeightedSize is the sum of the weights of exactly the mapped nodes -/
theorem jrun_weight (p0 : Policy) (h0 : p0.window = [] ∧ p0.probation = [] ∧ p0.prot = [] ∧ p0.weightedSize = 0)
    (ops : List JOp) : let s := ops.foldl jstep { S := [], p := p0, live := [] }; s.p.weightedSize = wsum s.p s.live := by
  intro s
  have h := jrun_inv p0 h0 ops
  have hperm : (all s.p).Perm s.live := by
    rw [List.perm_ext_iff_of_nodup (reach_inv h.reach).c h.nodup]
    intro id
    rw [h.alive id]
    constructor
    · intro hl
      have hnd := (reach_inv h.reach).a id hl
      refine ⟨hnd.1, ?_⟩
      cases hst : (s.p.node id).st with
      | alive => rfl
      | retired =>
        exact absurd (h.quiet id hnd.1 (by rw [hst]; exact fun e => NState.noConfusion e)) (by rw [hst]; exact fun e => NState.noConfusion e)
      | dead => exact absurd hst hnd.2
    · intro ⟨hs, hal⟩; exact (reach_inv h.reach).b id hs hal
  rw [show s.p.weightedSize = wsum s.p (all s.p) from reach_winv h.reach, wsum_perm s.p hperm]

end OtterVerif.Proofs.CacheJoint
