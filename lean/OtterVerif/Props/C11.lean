/-
  C11 — Refresh serves the old value and swaps atomically or not at all (Spec level).

  For EVERY state: a read returns the value cached at that moment whether or not the entry is due for refresh; an entry
  is due exactly when its refresh deadline has been reached; a successful reload by the still-registered call replaces the
  value, a failed one leaves value and expiration untouched, a not-found one removes the entry (`Props.C10`); the refresh
  deadline after create / update / reload follows the configured calculator.
  The judge (`Spec.Check`) additionally demands: a stale read hands exactly one reload (with the old value) to the executor,
  a fresh read none; every explicit Refresh delivers exactly one result; no channel without a refresh policy.
-/
import OtterVerif.Props.C10
import OtterVerif.Gen.NodePred

namespace OtterVerif.Props.C11
open OtterVerif OtterVerif.Spec

/-- a read returns the value cached at that moment, stale or not -/
theorem c11_read_returns_cached (c : Cfg) (s : State) (k : Nat) (e : Entry) (h : s.live k = some e) :
    (getIfPresent c s k).2 = .valOk e.val true := by
  unfold getIfPresent lookup
  simp only [h, touch, hit, State.phys, find_put_self]

/-- an entry is due for refresh exactly when the clock has reached its refresh deadline -/
theorem c11_stale_iff (e : Entry) (now : Int) : e.staleAt now = true ↔ e.ref ≤ now := by
  unfold Entry.staleAt; simp

/-- a read does not move the refresh deadline -/
theorem c11_read_keeps_ref (c : Cfg) (s : State) (k : Nat) (e : Entry) (h : s.live k = some e) :
    ((lookup c s k).1.phys k).map (·.ref) = some e.ref := by
  unfold lookup
  simp only [h, touch, hit, State.phys, find_put_self, Option.map_some]

/-- a successful reload by the registered call replaces the value -/
theorem c11_reload_ok (c : Cfg) (s : State) (k cid v : Nat) (h : s.inflightOf k = some cid) :
    ((finishCall c s k cid true false (.ok v)).1.phys k).map (·.val) = some v :=
  C10.c10_ok_caches c s k cid v true h

/-- a failed reload leaves the value and its expiration untouched -/
theorem c11_reload_failed (c : Cfg) (s : State) (k cid v : Nat) :
    ((finishCall c s k cid true false (.err v)).1.phys k).map (fun e => (e.val, e.exp)) =
      (s.phys k).map (fun e => (e.val, e.exp)) :=
  (C10.c10_err_keeps c s k cid v k true false).1

/-- a not-found reload removes the entry -/
theorem c11_reload_notfound (c : Cfg) (s : State) (k cid v : Nat) (h : s.inflightOf k = some cid) :
    (finishCall c s k cid true false (.notFound v)).1.phys k = none :=
  C10.c10_notfound_removes c s k cid v true h

/-- refresh deadline rules: creation -/
theorem c11_ref_create (c : Cfg) (now : Int) (k : Nat) (wk : WriteKind) :
    refAfterWrite c now k none wk =
      match c.refresh with
      | .none => maxI64
      | .creating d | .writing d | .accessing d => satAdd now d
      | .custom => if c.refCreate.get k > 0 then satAdd now (c.refCreate.get k) else maxI64 := by
  unfold refAfterWrite; cases c.refresh <;> rfl

/-- creation-only refresh policy: an update or reload keeps the deadline -/
theorem c11_ref_creating_keeps (c : Cfg) (now : Int) (k : Nat) (o : Entry) (wk : WriteKind) (d : Int)
    (h : c.refresh = .creating d) : refAfterWrite c now k (some o) wk = o.ref := by
  unfold refAfterWrite; rw [h]

/-- write-reset refresh policy: every write or reload restarts the period -/
theorem c11_ref_writing_resets (c : Cfg) (now : Int) (k : Nat) (o : Option Entry) (wk : WriteKind) (d : Int)
    (h : c.refresh = .writing d) : refAfterWrite c now k o wk = satAdd now d := by
  unfold refAfterWrite; rw [h]

/-! ### Non-vacuity -/
def e1 : Entry := { val := 7, weight := 1, exp := 500, ref := 90 }
def s1 : State := { now := 100, m := [(1, e1)], inflight := [(1, 5)] }
example : e1.staleAt 100 = true ∧ s1.live 1 = some e1 := by decide

/-! ### When a read starts a reload: the cache's own predicate, regenerated from cache_impl.go on every run (`Gen.NodePred.isStale`) -/

/-- a read starts a reload exactly when refreshing is configured, the entry's refresh time has been reached (`<=`, signed
    comparison on the 64-bit clock) and the node is still the live one -/
theorem c11_isStale_iff (withRefresh alive : Bool) (refAt now : BitVec 64) :
    Gen.NodePred.isStale withRefresh refAt alive now = true ↔ (withRefresh = true ∧ refAt.toInt ≤ now.toInt ∧ alive = true) := by
  unfold Gen.NodePred.isStale
  simp only [Bool.and_eq_true, BitVec.sle, decide_eq_true_eq]
  constructor
  · rintro ⟨⟨h1, h2⟩, h3⟩; exact ⟨h1, h2, h3⟩
  · rintro ⟨h1, h2, h3⟩; exact ⟨⟨h1, h2⟩, h3⟩

/-- **a node that a concurrent writer has retired never starts a reload** (finding F16: the old test `!IsFresh` was true for
    every retired node, whatever its refresh time) -/
theorem c11_retired_node_starts_no_reload (withRefresh : Bool) (refAt now : BitVec 64) :
    Gen.NodePred.isStale withRefresh refAt false now = false := by
  unfold Gen.NodePred.isStale
  simp

/-- a fresh entry (refresh time still ahead) never starts a reload: "reads of fresh entries trigger nothing" -/
theorem c11_fresh_entry_starts_no_reload (withRefresh alive : Bool) (refAt now : BitVec 64) (h : now.toInt < refAt.toInt) :
    Gen.NodePred.isStale withRefresh refAt alive now = false := by
  cases hs : Gen.NodePred.isStale withRefresh refAt alive now with
  | false => rfl
  | true => have := (c11_isStale_iff withRefresh alive refAt now).mp hs; omega

/-- without a refresh policy nothing is ever reloaded on a read -/
theorem c11_no_refresh_policy_no_reload (alive : Bool) (refAt now : BitVec 64) :
    Gen.NodePred.isStale false refAt alive now = false := by
  unfold Gen.NodePred.isStale
  simp

example : Gen.NodePred.isStale true 5#64 true 5#64 = true ∧ Gen.NodePred.isStale true 6#64 true 5#64 = false := by decide

end OtterVerif.Props.C11
