/-
  C14 — Maintenance is never stranded: no lost wake-up after a write.

  Conc.Drain models the drain-status protocol (idle / required / processing-to-idle / processing-to-required, try-lock and
  token hand-off to the executor, final CAS and reschedule, caller-runs fallback, every other holder of the eviction lock)
  as an interleaving transition system over an UNBOUNDED number of writers, readers, schedulers, drainers and lock holders.
  Theorems (all interleavings): the invariant is inductive; every reachable configuration in which all threads have
  returned has status idle and an empty write buffer; a configuration with a live thread is never stuck.
  Tie: the skeleton (ordered shared-word / lock / executor operations with branch structure) of every protocol function is
  regenerated from cache_impl.go on every run and must equal the snapshot the model was written against; CONC-drain checks
  the theorem's conclusion on the real cache with real goroutines and the default executor.
-/
import OtterVerif.Conc.Drain
import OtterVerif.Conc.DrainSkeleton
import OtterVerif.Gen.Skeleton
import OtterVerif.Gen.CacheMaint
import OtterVerif.Pin.CacheMaint

namespace OtterVerif.Props.C14
open OtterVerif.Conc.Drain

/-- maintenance is never stranded (safety form): all threads returned ⇒ idle and nothing buffered -/
theorem c14_no_stranded (init s : St) (h0 : Initial init) (hr : Reach init s) (hq : Quiescent s) :
    s.ds = 0 ∧ s.wb = 0 := no_stranded init s h0 hr hq

/-- the invariant holds in every reachable configuration -/
theorem c14_invariant (init s : St) (h0 : Initial init) (hr : Reach init s) : DInv s := inv_reach init s h0 hr

/-- no deadlock: while a thread is inside the protocol, some thread can step -/
theorem c14_progress (init s : St) (h0 : Initial init) (hr : Reach init s) (hq : ¬ Quiescent s) : ∃ s', Step s s' :=
  progress s (inv_reach init s h0 hr) hq

/-- a write that arrives while a maintenance is past its drain is not forgotten: in that state the event is owned by a
    writer that will still mark the status (or another drain is pending) -/
theorem c14_late_write_covered (init s : St) (h0 : Initial init) (hr : Reach init s) (hd : s.ds = 2) :
    s.wb ≤ s.W1 + s.Wc23 ∨ futureDrain s ≥ 1 := (inv_reach init s h0 hr).2.2.2.2.2.2.2.2.2.1 hd

/-- a status marked by a late writer is never dropped: a drain is still to come or the running maintenance converts it -/
theorem c14_marked_covered (init s : St) (h0 : Initial init) (hr : Reach init s) (hd : s.ds = 3) :
    futureDrain s + s.M2 + s.M3 + s.M4 ≥ 1 := (inv_reach init s h0 hr).2.2.2.2.2.2.2.2.2.2 hd


theorem skeleton_cache_afterWriteTask : Gen.Skeleton.cache_afterWriteTask = Conc.DrainSkeleton.cache_afterWriteTask := by decide

theorem skeleton_cache_scheduleAfterWrite : Gen.Skeleton.cache_scheduleAfterWrite = Conc.DrainSkeleton.cache_scheduleAfterWrite := by decide

theorem skeleton_cache_scheduleDrainBuffers : Gen.Skeleton.cache_scheduleDrainBuffers = Conc.DrainSkeleton.cache_scheduleDrainBuffers := by decide

theorem skeleton_cache_drainBuffers : Gen.Skeleton.cache_drainBuffers = Conc.DrainSkeleton.cache_drainBuffers := by decide

theorem skeleton_cache_performCleanUp : Gen.Skeleton.cache_performCleanUp = Conc.DrainSkeleton.cache_performCleanUp := by decide

theorem skeleton_cache_rescheduleCleanUpIfIncomplete : Gen.Skeleton.cache_rescheduleCleanUpIfIncomplete = Conc.DrainSkeleton.cache_rescheduleCleanUpIfIncomplete := by decide

theorem skeleton_cache_maintenance : Gen.Skeleton.cache_maintenance = Conc.DrainSkeleton.cache_maintenance := by decide

theorem skeleton_cache_drainWriteBuffer : Gen.Skeleton.cache_drainWriteBuffer = Conc.DrainSkeleton.cache_drainWriteBuffer := by decide

theorem skeleton_cache_shouldDrainBuffers : Gen.Skeleton.cache_shouldDrainBuffers = Conc.DrainSkeleton.cache_shouldDrainBuffers := by decide

theorem skeleton_cache_SetMaximum : Gen.Skeleton.cache_SetMaximum = Conc.DrainSkeleton.cache_SetMaximum := by decide

theorem skeleton_cache_GetMaximum : Gen.Skeleton.cache_GetMaximum = Conc.DrainSkeleton.cache_GetMaximum := by decide

theorem skeleton_cache_WeightedSize : Gen.Skeleton.cache_WeightedSize = Conc.DrainSkeleton.cache_WeightedSize := by decide

theorem skeleton_cache_InvalidateAll : Gen.Skeleton.cache_InvalidateAll = Conc.DrainSkeleton.cache_InvalidateAll := by decide

theorem skeleton_cache_CleanUp : Gen.Skeleton.cache_CleanUp = Conc.DrainSkeleton.cache_CleanUp := by decide

theorem skeleton_cache_afterRead : Gen.Skeleton.cache_afterRead = Conc.DrainSkeleton.cache_afterRead := by decide

theorem skeleton_cache_evictionOrder : Gen.Skeleton.cache_evictionOrder = Conc.DrainSkeleton.cache_evictionOrder := by decide

theorem skeleton_cache_getNode : Gen.Skeleton.cache_getNode = Conc.DrainSkeleton.cache_getNode := by decide


/-! ### Non-vacuity: a reachable non-trivial configuration (one writer has pushed and marked the status) -/
def i0 : St := { W0 := 2, S0 := 1, PC0 := 1, IA0 := 1 }
example : Initial i0 := by unfold Initial i0; decide
example : Reach i0 { i0 with W0 := 1, W1 := 1, wb := 1 } := Reach.step Reach.init (Step.w_push i0 (by decide))

/-! ### The status encoding and the tests on it, regenerated from cache_impl.go

Conc.Drain writes the drain status as 0 idle, 1 required, 2 processingToIdle, 3 processingToRequired and guards its steps by
`ds = i`, `ds ≥ 2`, `ds ≠ 1`.  These are the code's constants and comparisons (which branch does what is the skeleton's part). -/

/-- scheduleAfterWrite and shouldDrainBuffers dispatch on the four values in this order; the writer's only conditional return
    is on the SUCCESS of its processingToIdle → processingToRequired CAS (on failure it re-reads the status) -/
theorem c14_gen_status_dispatch (ds : BitVec 32) (cas delayable : Bool) :
    Gen.CacheMaint.cache_scheduleAfterWrite_s0 ds = (ds == 0#32) ∧ Gen.CacheMaint.cache_scheduleAfterWrite_s1 ds = (ds == 1#32) ∧
    Gen.CacheMaint.cache_scheduleAfterWrite_s2 ds = (ds == 2#32) ∧ Gen.CacheMaint.cache_scheduleAfterWrite_s3 ds = (ds == 3#32) ∧
    Gen.CacheMaint.cache_scheduleAfterWrite_c0 cas = cas ∧
    Gen.CacheMaint.cache_shouldDrainBuffers_s0 ds = (ds == 0#32) ∧ Gen.CacheMaint.cache_shouldDrainBuffers_s1 ds = (ds == 1#32) ∧
    Gen.CacheMaint.cache_shouldDrainBuffers_s2 ds = (ds == 2#32) ∧ Gen.CacheMaint.cache_shouldDrainBuffers_s3 ds = (ds == 3#32) ∧
    Gen.CacheMaint.cache_shouldDrainBuffers_r0 delayable = !delayable ∧ Gen.CacheMaint.cache_shouldDrainBuffers_r1 = true ∧
    Gen.CacheMaint.cache_shouldDrainBuffers_r2 = false :=
  ⟨rfl, rfl, rfl, rfl, rfl, rfl, rfl, rfl, rfl, rfl, rfl, rfl⟩

/-- scheduleDrainBuffers backs off iff a maintenance is in progress (status ≥ 2), at both of its looks; the maintenance asks for
    a successor (stores `required`) iff its status is no longer processingToIdle or its CAS to idle fails; the re-schedule after
    unlocking and GetMaximum's maintenance happen only for status `required`; one run drains at most maxWriteBufferSize + 1 events -/
theorem c14_gen_status_tests (ds : BitVec 32) (cas : Bool) (i mx : BitVec 32) :
    Gen.CacheMaint.cache_scheduleDrainBuffers_c0 ds = decide (2 ≤ ds.toNat) ∧
    Gen.CacheMaint.cache_scheduleDrainBuffers_c2 ds = decide (2 ≤ ds.toNat) ∧
    Gen.CacheMaint.cache_maintenance_c0 cas ds = ((ds != 2#32) || !cas) ∧
    Gen.CacheMaint.cache_rescheduleCleanUpIfIncomplete_c0 ds = (ds != 1#32) ∧
    Gen.CacheMaint.cache_GetMaximum_c1 ds = (ds == 1#32) ∧
    Gen.CacheMaint.cache_drainWriteBuffer_c1 i mx = decide (i.toNat ≤ mx.toNat) := by
  refine ⟨?_, ?_, rfl, rfl, rfl, ?_⟩ <;> simp [Gen.CacheMaint.cache_scheduleDrainBuffers_c0, Gen.CacheMaint.cache_scheduleDrainBuffers_c2,
    Gen.CacheMaint.cache_drainWriteBuffer_c1, BitVec.ule]


end OtterVerif.Props.C14
