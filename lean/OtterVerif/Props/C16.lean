/-
  C16 — Write buffer: each event delivered exactly once, in producer order, bounded.

  Model: Impl.Mpsc (sequential transcription of mpsc.go; index arithmetic regenerated from the source), tied by UNIT-mpsc
  (index words and chunk lengths after every call; FIFO / refuse-iff-full oracle over all capacity pairs and chunk switches),
  by skeleton equality of the seven queue functions, and by CONC-mpsc (real producers + consumer; delivery log judged for
  exactly-once, per-producer order, no invention, no refusal below capacity).
  Theorems (all indices and masks): an element offset never exceeds half the mask, so it stays inside the chunk and never
  hits the link slot; the link slot is the chunk's last slot; the free-space computation is exact; the buffer capacity
  rule; an element offset is the position modulo the chunk size.
  All interleavings (Conc.MpscConc: unboundedly many producers, the single consumer, any number of growth steps; steps limit /
  reserve / publish / rzStart / rzBody / rzJump / cTake / cJump): what the consumer has taken is exactly the sequence of
  the elements of positions 0 .. C-1 — each once, in reservation order, hence in every producer's own order; the queue
  never holds more than its maximum; two reserved, unconsumed positions of the same chunk never share a cell and neither
  shares the cell of the chunk's JUMP marker — nothing is overwritten, nothing is lost while the buffer grows by linking a
  larger chunk.
  PARTIAL: the position-level model is tied to mpsc.go by the skeletons, the index lemmas and CONC-mpsc, not by a refinement
  proof; index wrap-around at 2^64 is not modelled (positions are naturals); the sequential refinement of Impl.Mpsc is
  checked by the UNIT-mpsc oracle on every run.
-/
import OtterVerif.Impl.Mpsc
import OtterVerif.Conc.MpscSkeleton
import OtterVerif.Conc.DrainSkeleton
import OtterVerif.Gen.Skeleton
import OtterVerif.Conc.MpscConc
import OtterVerif.Proofs.MpscGen
import OtterVerif.Pin.MpscSites

namespace OtterVerif.Props.C16
open OtterVerif

/-- an element offset is at most half the mask: inside a chunk of length mask/2 + 2 and below its last (link) slot -/
theorem c16_offset_bound (index mask : BitVec 64) :
    (Gen.MpscIdx.modifiedCalcElementOffset index mask).toNat ≤ mask.toNat / 2 := by
  unfold Gen.MpscIdx.modifiedCalcElementOffset
  rw [BitVec.toNat_ushiftRight, BitVec.toNat_and, Nat.shiftRight_eq_div_pow]
  exact Nat.div_le_div_right Nat.and_le_right

/-- the link to the next chunk lives in the last slot: index mask/2 + 1 -/
theorem c16_link_slot (mask : BitVec 64) (h : mask.toNat + 2 < 2 ^ 64) :
    (Gen.MpscIdx.nextArrayOffset mask).toNat = mask.toNat / 2 + 1 := by
  unfold Gen.MpscIdx.nextArrayOffset Gen.MpscIdx.modifiedCalcElementOffset
  rw [BitVec.toNat_ushiftRight, BitVec.toNat_and, Nat.shiftRight_eq_div_pow]
  have h1 : (mask + 2#64).toNat = mask.toNat + 2 := by
    rw [BitVec.toNat_add]; simp; omega
  rw [h1]
  have : (18446744073709551615#64 : BitVec 64).toNat = 2 ^ 64 - 1 := by decide
  rw [this, Nat.and_two_pow_sub_one_eq_mod, Nat.mod_eq_of_lt h]
  omega

/-- hence an element is never stored over the link -/
theorem c16_element_never_in_link_slot (index mask : BitVec 64) (h : mask.toNat + 2 < 2 ^ 64) :
    (Gen.MpscIdx.modifiedCalcElementOffset index mask).toNat < (Gen.MpscIdx.nextArrayOffset mask).toNat := by
  have := c16_offset_bound index mask
  rw [c16_link_slot mask h]; omega

/-- free space is exact while the producer is at most one capacity ahead of the consumer -/
theorem c16_available_exact (maxCap pIndex cIndex : BitVec 64) (h1 : cIndex.toNat ≤ pIndex.toNat)
    (h2 : pIndex.toNat - cIndex.toNat ≤ maxCap.toNat) :
    (Gen.MpscIdx.availableInQueue maxCap pIndex cIndex).toNat = maxCap.toNat - (pIndex.toNat - cIndex.toNat) := by
  unfold Gen.MpscIdx.availableInQueue
  have hp := pIndex.isLt; have hc := cIndex.isLt; have hm := maxCap.isLt
  rw [BitVec.toNat_sub, BitVec.toNat_sub]
  omega

/-- refusal test: no free space iff the producer is exactly one capacity ahead -/
theorem c16_full_iff (maxCap pIndex cIndex : BitVec 64) (h1 : cIndex.toNat ≤ pIndex.toNat)
    (h2 : pIndex.toNat - cIndex.toNat ≤ maxCap.toNat) :
    Gen.MpscIdx.availableInQueue maxCap pIndex cIndex = 0 ↔ pIndex.toNat - cIndex.toNat = maxCap.toNat := by
  have := c16_available_exact maxCap pIndex cIndex h1 h2
  constructor
  · intro h; rw [h] at this; simp at this; omega
  · intro h
    apply BitVec.eq_of_toNat_eq
    rw [this]; simp; omega

/-- an element offset is the position (index / 2) modulo the chunk size, for every chunk size 2^k -/
theorem c16_offset_is_position_mod (index : BitVec 64) (k : Nat) (hk : k < 62) :
    (Gen.MpscIdx.modifiedCalcElementOffset index (BitVec.ofNat 64 (2 * (2 ^ k - 1)))).toNat = (index.toNat / 2) % 2 ^ k := by
  unfold Gen.MpscIdx.modifiedCalcElementOffset
  rw [BitVec.toNat_ushiftRight, BitVec.toNat_and, BitVec.toNat_ofNat]
  have hlt : 2 * (2 ^ k - 1) < 2 ^ 64 := by
    have : 2 ^ k ≤ 2 ^ 61 := Nat.pow_le_pow_right (by omega) (by omega)
    omega
  rw [Nat.mod_eq_of_lt hlt, Nat.shiftRight_and_distrib]
  have h1 : (2 * (2 ^ k - 1)) >>> 1 = 2 ^ k - 1 := by
    rw [Nat.shiftRight_eq_div_pow]; omega
  rw [h1, Nat.and_two_pow_sub_one_eq_mod, Nat.shiftRight_eq_div_pow]

/-! ### All interleavings (Conc.MpscConc) -/

/-- every accepted event is handed to the consumer exactly once, in the order of the positions (and therefore in the order
    in which each producer submitted its own events): the consumed sequence is the elements of positions 0 .. C-1 -/
theorem c16_conc_exactly_once_in_order (g : Conc.MpscConc.Geo) {s : Conc.MpscConc.St} (h : Conc.MpscConc.Reach g s) :
    s.delivered = (List.range s.C).map s.val ∧ s.C ≤ s.P :=
  ⟨(Conc.MpscConc.reach_inv g h).o8, (Conc.MpscConc.reach_inv g h).o1⟩

/-- the buffer never holds more than its maximum number of events -/
theorem c16_conc_bounded (g : Conc.MpscConc.Geo) {s : Conc.MpscConc.St} (h : Conc.MpscConc.Reach g s) : s.P - s.C ≤ g.M := by
  have hb := Conc.MpscConc.reach_bound g h
  have hi := Conc.MpscConc.reach_inv g h
  have := hi.o2
  have := hb.1
  omega

/-- nothing is overwritten: two reserved, unconsumed positions of the same chunk use different cells … -/
theorem c16_conc_cells_distinct (g : Conc.MpscConc.Geo) {s : Conc.MpscConc.St} (h : Conc.MpscConc.Reach g s) (p q : Nat)
    (hp : s.C ≤ p) (hpq : p < q) (hq : q < s.P) (hb : s.bufOf p = s.bufOf q) :
    p % g.size (s.bufOf p) ≠ q % g.size (s.bufOf p) :=
  Conc.MpscConc.cells_distinct g h p q hp hpq hq hb

/-- … and none of them uses the cell of the JUMP marker that links the chunk to the next, larger one -/
theorem c16_conc_jump_cell_free (g : Conc.MpscConc.Geo) {s : Conc.MpscConc.St} (h : Conc.MpscConc.Reach g s) (p : Nat)
    (hp : s.C ≤ p) (hpP : p < s.P) (hlast : s.bufOf p + 1 < s.nb) :
    p % g.size (s.bufOf p) ≠ s.first (s.bufOf p + 1) % g.size (s.bufOf p) :=
  Conc.MpscConc.jump_cell_free g h p hp hpP hlast

/-- an offer is refused only when the buffer holds its maximum: the refusal test `M ≤ pIndex - cIndex` can be true only when
    exactly M events are in the buffer (a stale, i.e. smaller, cIndex makes the producer refuse only if the buffer was full
    when it was read: the same statement for the state at that moment) -/
theorem c16_conc_refusal_means_full (g : Conc.MpscConc.Geo) {s : Conc.MpscConc.St} (h : Conc.MpscConc.Reach g s)
    (hfull : g.M ≤ s.P - s.C) : s.P - s.C = g.M := by
  have := c16_conc_bounded g h
  omega

theorem skeleton_MPSC_TryPush : Gen.Skeleton.MPSC_TryPush = Conc.MpscSkeleton.MPSC_TryPush := by decide

theorem skeleton_MPSC_pushSlowPath : Gen.Skeleton.MPSC_pushSlowPath = Conc.MpscSkeleton.MPSC_pushSlowPath := by decide

theorem skeleton_MPSC_resize : Gen.Skeleton.MPSC_resize = Conc.MpscSkeleton.MPSC_resize := by decide

theorem skeleton_MPSC_TryPop : Gen.Skeleton.MPSC_TryPop = Conc.MpscSkeleton.MPSC_TryPop := by decide

theorem skeleton_MPSC_getNextBuffer : Gen.Skeleton.MPSC_getNextBuffer = Conc.MpscSkeleton.MPSC_getNextBuffer := by decide

theorem skeleton_MPSC_newBufferTryPush : Gen.Skeleton.MPSC_newBufferTryPush = Conc.MpscSkeleton.MPSC_newBufferTryPush := by decide

theorem skeleton_MPSC_newBufferAndOffset : Gen.Skeleton.MPSC_newBufferAndOffset = Conc.MpscSkeleton.MPSC_newBufferAndOffset := by decide

/-- the consumer side at the cache level: buffered events are replayed before the event handed over by a writer whose
    offers were refused (otherwise that event would overtake the same producer's earlier ones) -/
theorem skeleton_cache_maintenance : Gen.Skeleton.cache_maintenance = Conc.DrainSkeleton.cache_maintenance := by decide

theorem skeleton_cache_drainWriteBuffer : Gen.Skeleton.cache_drainWriteBuffer = Conc.DrainSkeleton.cache_drainWriteBuffer := by decide

theorem skeleton_cache_afterWriteTask : Gen.Skeleton.cache_afterWriteTask = Conc.DrainSkeleton.cache_afterWriteTask := by decide

theorem maintenance_drains_before_handed_over_task :
    Conc.DrainSkeleton.cache_maintenance.take 3 =
      [(0, "Store drainStatus processingToIdle"), (0, "call drainReadBuffer"), (0, "call drainWriteBuffer")] ∧
    (Conc.DrainSkeleton.cache_maintenance.drop 3).head? = some (0, "call runTask") := by decide

/-! ### Non-vacuity -/
example : (Gen.MpscIdx.modifiedCalcElementOffset 10 6).toNat = 1 ∧ (Gen.MpscIdx.nextArrayOffset 6).toNat = 4 := by decide

/-! ### The slow path of TryPush, over the regenerated computations of internal/deque/queue/mpsc.go -/

/-- an offer is refused only when the buffer holds its maximum: for ALL index values, also for a producer whose
    producerIndex is stale (consumerIndex ahead of it, so that `pIndex - cIndex` wraps) -/
theorem c16_gen_refused_only_when_full (maxCap mask pIndex cIndex : BitVec 64) (limitCAS indexCAS : Bool)
    (h : Proofs.MpscGen.slowPathG maxCap mask pIndex cIndex limitCAS indexCAS = 2#8) : pIndex - cIndex = maxCap :=
  Proofs.MpscGen.refuse_only_when_full maxCap mask pIndex cIndex limitCAS indexCAS h

/-- with room in the current chunk the limit is extended: no refusal, no resize -/
theorem c16_gen_room_extends_limit (maxCap mask pIndex cIndex : BitVec 64) (l i : Bool)
    (h : BitVec.ult pIndex (cIndex + Proofs.MpscGen.capG maxCap mask) = true) :
    Proofs.MpscGen.slowPathG maxCap mask pIndex cIndex l i = (if l then 0#8 else 1#8) :=
  Proofs.MpscGen.room_extends_limit maxCap mask pIndex cIndex l i h

/-- the conditions of the sequential model (Impl.Mpsc.tryPush) are the code's -/
theorem c16_gen_model_conditions (maxCap mask pIndex cIndex limit : BitVec 64) :
    Gen.MpscSites.MPSC_TryPush_c1 pIndex limit = BitVec.ule limit pIndex ∧
    Gen.MpscSites.MPSC_pushSlowPath_c0 (Proofs.MpscGen.capG maxCap mask) cIndex pIndex
      = BitVec.ult pIndex (cIndex + Gen.MpscIdx.getCurrentBufferCapacity maxCap mask) ∧
    Gen.MpscSites.MPSC_pushSlowPath_c1 (Gen.MpscSites.MPSC_availableInQueue_r0 cIndex maxCap pIndex)
      = (Gen.MpscIdx.availableInQueue maxCap pIndex cIndex == 0) :=
  Proofs.MpscGen.model_conditions maxCap mask pIndex cIndex limit

example : Proofs.MpscGen.slowPathG 8#64 6#64 8#64 0#64 true true = 2#8 := by decide


/-- growth is bounded: the chunk a resize links has twice the capacity of the current one and — chunk capacities and the
    maximum being powers of two — never more than the maximum; getNextBufferSize refuses only a chunk already beyond it -/
theorem c16_gen_growth_bounded (len maxCap : BitVec 64) (k m : Nat) (hk : k ≤ 60) (hm : m ≤ 60)
    (hlen : len.toNat = 2 ^ k + 1) (hmax : (Gen.MpscSites.MPSC_getNextBufferSize_a0 maxCap).toNat = 2 ^ m)
    (hok : Gen.MpscSites.MPSC_getNextBufferSize_c0 len (Gen.MpscSites.MPSC_getNextBufferSize_a0 maxCap) = false) :
    (Gen.MpscSites.MPSC_getNextBufferSize_r0 (Gen.MpscSites.MPSC_getNextBufferSize_a2 len)).toNat = 2 * (len.toNat - 1) + 1 ∧
    (Gen.MpscSites.MPSC_getNextBufferSize_r0 (Gen.MpscSites.MPSC_getNextBufferSize_a2 len)).toNat - 1
      ≤ (Gen.MpscSites.MPSC_getNextBufferSize_a0 maxCap).toNat :=
  Proofs.MpscGen.growth_bounded len maxCap k m hk hm hlen hmax hok


end OtterVerif.Props.C16
