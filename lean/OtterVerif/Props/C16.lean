/-
  C16 — Write buffer: each event delivered exactly once, in producer order, bounded.

  Model: Impl.Mpsc (sequential transcription of mpsc.go; index arithmetic regenerated from the source), tied by UNIT-mpsc
  (index words and chunk lengths after every call; FIFO / refuse-iff-full oracle over all capacity pairs and chunk switches),
  by skeleton equality of the seven queue functions, and by CONC-mpsc (real producers + consumer; delivery log judged for
  exactly-once, per-producer order, no invention, no refusal below capacity).
  Theorems (all indices and masks): an element offset never exceeds half the mask, so it stays inside the chunk and never
  hits the link slot; the link slot is the chunk's last slot; the free-space computation is exact; the buffer capacity
  rule. PARTIAL: the refinement "Impl.Mpsc behaves as a bounded FIFO for every operation sequence" and the concurrent
  exactly-once invariant are checked by the oracles above on every run, not mechanised.
-/
import OtterVerif.Impl.Mpsc
import OtterVerif.Conc.MpscSkeleton
import OtterVerif.Conc.DrainSkeleton
import OtterVerif.Gen.Skeleton

namespace OtterVerif.Props.C16
open OtterVerif

/-- an element offset is at most half the mask: inside a chunk of length mask/2 + 2 and below its last (link) slot -/
theorem c16_offset_bound (index mask : BitVec 64) :
    (Gen.MpscIdx.modifiedCalcElementOffset index mask).toNat ≤ mask.toNat / 2 := by
  unfold Gen.MpscIdx.modifiedCalcElementOffset
  rw [BitVec.toNat_ushiftRight, BitVec.toNat_and, Nat.shiftRight_eq_div_pow]
  exact Nat.div_le_div_right Nat.and_le_right

/-- the link to the next chunk lives in the last slot: index mask/2 + 1 -/
theorem c16_link_slot (mask : BitVec 64) (h : mask.toNat + 2 < 2 ^ 64) :
    (Gen.MpscIdx.nextArrayOffset mask).toNat = mask.toNat / 2 + 1 := by
  unfold Gen.MpscIdx.nextArrayOffset Gen.MpscIdx.modifiedCalcElementOffset
  rw [BitVec.toNat_ushiftRight, BitVec.toNat_and, Nat.shiftRight_eq_div_pow]
  have h1 : (mask + 2#64).toNat = mask.toNat + 2 := by
    rw [BitVec.toNat_add]; simp; omega
  rw [h1]
  have : (18446744073709551615#64 : BitVec 64).toNat = 2 ^ 64 - 1 := by decide
  rw [this, Nat.and_two_pow_sub_one_eq_mod, Nat.mod_eq_of_lt h]
  omega

/-- hence an element is never stored over the link -/
theorem c16_element_never_in_link_slot (index mask : BitVec 64) (h : mask.toNat + 2 < 2 ^ 64) :
    (Gen.MpscIdx.modifiedCalcElementOffset index mask).toNat < (Gen.MpscIdx.nextArrayOffset mask).toNat := by
  have := c16_offset_bound index mask
  rw [c16_link_slot mask h]; omega

/-- free space is exact while the producer is at most one capacity ahead of the consumer -/
theorem c16_available_exact (maxCap pIndex cIndex : BitVec 64) (h1 : cIndex.toNat ≤ pIndex.toNat)
    (h2 : pIndex.toNat - cIndex.toNat ≤ maxCap.toNat) :
    (Gen.MpscIdx.availableInQueue maxCap pIndex cIndex).toNat = maxCap.toNat - (pIndex.toNat - cIndex.toNat) := by
  unfold Gen.MpscIdx.availableInQueue
  have hp := pIndex.isLt; have hc := cIndex.isLt; have hm := maxCap.isLt
  rw [BitVec.toNat_sub, BitVec.toNat_sub]
  omega

/-- refusal test: no free space iff the producer is exactly one capacity ahead -/
theorem c16_full_iff (maxCap pIndex cIndex : BitVec 64) (h1 : cIndex.toNat ≤ pIndex.toNat)
    (h2 : pIndex.toNat - cIndex.toNat ≤ maxCap.toNat) :
    Gen.MpscIdx.availableInQueue maxCap pIndex cIndex = 0 ↔ pIndex.toNat - cIndex.toNat = maxCap.toNat := by
  have := c16_available_exact maxCap pIndex cIndex h1 h2
  constructor
  · intro h; rw [h] at this; simp at this; omega
  · intro h
    apply BitVec.eq_of_toNat_eq
    rw [this]; simp; omega

theorem skeleton_MPSC_TryPush : Gen.Skeleton.MPSC_TryPush = Conc.MpscSkeleton.MPSC_TryPush := by decide

theorem skeleton_MPSC_pushSlowPath : Gen.Skeleton.MPSC_pushSlowPath = Conc.MpscSkeleton.MPSC_pushSlowPath := by decide

theorem skeleton_MPSC_resize : Gen.Skeleton.MPSC_resize = Conc.MpscSkeleton.MPSC_resize := by decide

theorem skeleton_MPSC_TryPop : Gen.Skeleton.MPSC_TryPop = Conc.MpscSkeleton.MPSC_TryPop := by decide

theorem skeleton_MPSC_getNextBuffer : Gen.Skeleton.MPSC_getNextBuffer = Conc.MpscSkeleton.MPSC_getNextBuffer := by decide

theorem skeleton_MPSC_newBufferTryPush : Gen.Skeleton.MPSC_newBufferTryPush = Conc.MpscSkeleton.MPSC_newBufferTryPush := by decide

theorem skeleton_MPSC_newBufferAndOffset : Gen.Skeleton.MPSC_newBufferAndOffset = Conc.MpscSkeleton.MPSC_newBufferAndOffset := by decide

/-- the consumer side at the cache level: buffered events are replayed before the event handed over by a writer whose
    offers were refused (otherwise that event would overtake the same producer's earlier ones) -/
theorem skeleton_cache_maintenance : Gen.Skeleton.cache_maintenance = Conc.DrainSkeleton.cache_maintenance := by decide

theorem skeleton_cache_drainWriteBuffer : Gen.Skeleton.cache_drainWriteBuffer = Conc.DrainSkeleton.cache_drainWriteBuffer := by decide

theorem skeleton_cache_afterWriteTask : Gen.Skeleton.cache_afterWriteTask = Conc.DrainSkeleton.cache_afterWriteTask := by decide

theorem maintenance_drains_before_handed_over_task :
    Conc.DrainSkeleton.cache_maintenance.take 3 =
      [(0, "Store drainStatus processingToIdle"), (0, "call drainReadBuffer"), (0, "call drainWriteBuffer")] ∧
    (Conc.DrainSkeleton.cache_maintenance.drop 3).head? = some (0, "call runTask") := by decide

/-! ### Non-vacuity -/
example : (Gen.MpscIdx.modifiedCalcElementOffset 10 6).toNat = 1 ∧ (Gen.MpscIdx.nextArrayOffset 6).toNat = 4 := by decide

end OtterVerif.Props.C16
