/-
  C05 / C13 / C06 — the glue between write events and the two policies (runTask, onAccess) is what the joint models assume.

  Impl.Maint lists the calls runTask / onAccess make.  Below: (1) its guards are the regenerated conditions of cache_impl.go
  and the switch labels are the task reasons of task.go; (2) for a cache with both policies on and an alive node, the calls are
  exactly the steps of Proofs.CacheJoint (policy add / update / delete / access) and Proofs.WheelJoint (wheel Add / Delete,
  a deadline move = Delete then Add); (3) every replayed update / delete reports the removed node exactly once (OnDeletion),
  an add reports nothing; (4) a dead node is never (re)scheduled in the wheel.
-/
import OtterVerif.Impl.Maint
import OtterVerif.Gen.CacheWrite
import OtterVerif.Proofs.CacheJoint
import OtterVerif.Proofs.WheelJoint

namespace OtterVerif.Props.C05Maint
open OtterVerif OtterVerif.Impl.Maint

/-- the guards of the model are the code's (regenerated on every run) -/
theorem c05_gen_runTask_guards (withExp withEv alive : Bool) :
    Gen.CacheWrite.cache_runTask_c1 withExp alive = (withExp && alive) ∧
    Gen.CacheWrite.cache_runTask_c2 withEv = withEv ∧
    Gen.CacheWrite.cache_runTask_c3 withExp = withExp ∧
    Gen.CacheWrite.cache_runTask_c4 alive = alive ∧
    Gen.CacheWrite.cache_runTask_c5 withEv = withEv ∧
    Gen.CacheWrite.cache_runTask_c6 withExp = withExp ∧
    Gen.CacheWrite.cache_runTask_c7 withEv = withEv := ⟨rfl, rfl, rfl, rfl, rfl, rfl, rfl⟩

/-- the three branches of runTask are selected by the three task reasons, in the order add, update, delete -/
theorem c05_gen_runTask_dispatch (r : Reason) :
    Gen.CacheWrite.cache_runTask_s0 r.code = decide (r = .add) ∧
    Gen.CacheWrite.cache_runTask_s1 r.code = decide (r = .update) ∧
    Gen.CacheWrite.cache_runTask_s2 r.code = decide (r = .delete) := by
  cases r <;> refine ⟨?_, ?_, ?_⟩ <;> decide

theorem c05_gen_onAccess_guards (withExp withEv notLinkedNil alive : Bool) :
    Gen.CacheWrite.cache_onAccess_c0 withEv = withEv ∧
    Gen.CacheWrite.cache_onAccess_c2 alive = alive := ⟨rfl, rfl⟩

/-- with both policies on and the node alive at replay time (same-goroutine executor), the calls are the joint models' steps -/
theorem c05_calls_are_joint_steps (n old : Nat) :
    runTask ⟨true, true⟩ .add n old true = [.wheelAdd n, .policyAdd n] ∧
    runTask ⟨true, true⟩ .update n old true = [.wheelDelete old, .wheelAdd n, .policyUpdate n old, .notifyDeletion old] ∧
    runTask ⟨true, true⟩ .delete n old true = [.wheelDelete n, .policyDelete n, .notifyDeletion n] ∧
    onAccess ⟨true, true⟩ n true true = [.policyAccess n, .wheelDelete n, .wheelAdd n] := ⟨rfl, rfl, rfl, rfl⟩

/-- C06: the replay of an update or a delete event calls OnDeletion exactly once, for the removed node; an add never does -/
theorem c06_replay_reports_once (f : Flags) (r : Reason) (n old : Nat) (alive : Bool) :
    ((runTask f r n old alive).filter (fun c => match c with | .notifyDeletion _ => true | _ => false)) =
      (match r with | .add => [] | .update => [.notifyDeletion old] | .delete => [.notifyDeletion n]) := by
  cases r <;> cases f with | mk a b => cases a <;> cases b <;> cases alive <;> rfl

/-- C13 / C05: a node that is no longer alive when its event is replayed is never scheduled in the timer wheel -/
theorem c13_dead_node_not_scheduled (f : Flags) (r : Reason) (n old : Nat) :
    Call.wheelAdd n ∉ runTask f r n old false ∧ ∀ linked, Call.wheelAdd n ∉ onAccess f n linked false := by
  constructor
  · cases r <;> cases f with | mk a b => cases a <;> cases b <;> simp [runTask]
  · intro linked; cases f with | mk a b => cases a <;> cases b <;> cases linked <;> simp [onAccess]

/-- C05: whatever is unscheduled from the wheel by a replay is the replaced / removed node, never the new one -/
theorem c05_only_old_unscheduled (f : Flags) (n old : Nat) (alive : Bool) (h : n ≠ old) :
    Call.wheelDelete n ∉ runTask f .update n old alive ∧ Call.wheelDelete n ∉ runTask f .add n old alive := by
  constructor
  · cases f with | mk a b =>
      cases a <;> cases b <;> cases alive <;> simp [runTask, h]
  · cases f with | mk a b =>
      cases a <;> cases b <;> cases alive <;> simp [runTask]

/-! ### the calls, interpreted on Impl.Policy and Impl.Wheel, are the state changes the joint models use -/

/-- what a call does to the pair (size policy, timer wheel); `dl n` = the deadline node n carries -/
def interp (dl : Nat → Nat) (s : Impl.Policy.Policy × Impl.Wheel.Wheel) : Call → Impl.Policy.Policy × Impl.Wheel.Wheel
  | .wheelAdd n => (s.1, Impl.Wheel.add s.2 n (dl n))
  | .wheelDelete n => (s.1, Impl.Wheel.delete s.2 n)
  | .policyAdd n => (Impl.Policy.add s.1 n, s.2)
  | .policyUpdate n old => (Impl.Policy.update s.1 n old, s.2)
  | .policyDelete n => (Impl.Policy.delete s.1 n, s.2)
  | .policyAccess n => (Impl.Policy.access s.1 n, s.2)
  | .notifyDeletion _ => s

/-- replaying an add / update / delete event, or a drained read, changes the size policy exactly as the steps of
    Proofs.CacheJoint assume (`add`, `update`, `delete`, `access` — before the eviction pass) and the timer wheel exactly as the
    steps of Proofs.WheelJoint assume (Add; Delete old then Add new; Delete; a deadline move = Delete then Add) -/
theorem c05_replay_is_joint_step (dl : Nat → Nat) (p : Impl.Policy.Policy) (w : Impl.Wheel.Wheel) (n old : Nat) :
    (runTask ⟨true, true⟩ .add n old true).foldl (interp dl) (p, w) = (Impl.Policy.add p n, Impl.Wheel.add w n (dl n)) ∧
    (runTask ⟨true, true⟩ .update n old true).foldl (interp dl) (p, w)
      = (Impl.Policy.update p n old, Impl.Wheel.add (Impl.Wheel.delete w old) n (dl n)) ∧
    (runTask ⟨true, true⟩ .delete n old true).foldl (interp dl) (p, w) = (Impl.Policy.delete p n, Impl.Wheel.delete w n) ∧
    (onAccess ⟨true, true⟩ n true true).foldl (interp dl) (p, w)
      = (Impl.Policy.access p n, Impl.Wheel.add (Impl.Wheel.delete w n) n (dl n)) := ⟨rfl, rfl, rfl, rfl⟩

/-- without an expiration policy the wheel is never touched; without a size policy the size policy never is -/
theorem c05_policies_independent (dl : Nat → Nat) (p : Impl.Policy.Policy) (w : Impl.Wheel.Wheel) (r : Reason) (n old : Nat)
    (alive : Bool) :
    ((runTask ⟨false, true⟩ r n old alive).foldl (interp dl) (p, w)).2 = w ∧
    ((runTask ⟨true, false⟩ r n old alive).foldl (interp dl) (p, w)).1 = p := by
  cases r <;> cases alive <;> exact ⟨rfl, rfl⟩

end OtterVerif.Props.C05Maint
