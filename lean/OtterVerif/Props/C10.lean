/-
  C09 / C10 / C11 — what the completion of a load does (Spec.finishCall), for EVERY state and outcome.

  C10: a successful load caches the value; a failed load leaves the cache unchanged (apart from the refresh
       deadline of a failed reload); a not-found result caches nothing and removes an existing entry.
  C09: the outcome is installed (or the entry removed) only if the call is still the registered one; every explicit
       write, invalidation or automatic removal of the key unregisters it — so a load never overwrites a newer write.
  C11: a failed reload keeps the value and its expiration; a not-found reload removes it.
-/
import OtterVerif.Proofs.MapLemmas
import OtterVerif.Proofs.BulkShape

namespace OtterVerif.Props.C10
open OtterVerif OtterVerif.Spec

/-! ### C09: installation only by the registered call -/

/-- a superseded (unregistered, non-volunteered) call never changes which values are cached -/
theorem c09_no_stale_install (c : Cfg) (s : State) (k cid : Nat) (r : Bool) (v : Nat)
    (h : s.inflightOf k ≠ some cid) :
    (finishCall c s k cid r false (.ok v)).1.m = s.m ∧ (finishCall c s k cid r false (.ok v)).2 = [] ∧
    (finishCall c s k cid r false (.notFound v)).1.m = s.m ∧ (finishCall c s k cid r false (.notFound v)).2 = [] := by
  unfold finishCall
  have hb : (s.inflightOf k == some cid) = false := by
    simp only [beq_eq_false_iff_ne, ne_eq]; exact h
  simp [hb]

theorem inflightOf_clear_self (s : State) (k : Nat) : (s.clearInflight k).inflightOf k = none := by
  unfold State.clearInflight State.inflightOf
  simp only [Option.map_eq_none_iff]
  rw [List.find?_eq_none]
  intro p hp
  simp only [List.mem_filter, bne_iff_ne, ne_eq] at hp
  simpa using hp.2

/-- every explicit write unregisters the load in flight for that key … -/
theorem c09_set_unregisters (c : Cfg) (s : State) (k v : Nat) : (Spec.set c s k v).1.inflightOf k = none := by
  unfold Spec.set write
  exact inflightOf_clear_self s k

theorem c09_invalidate_unregisters (s : State) (k : Nat) : (invalidate s k).1.inflightOf k = none := by
  unfold invalidate remove
  cases (s.clearInflight k).phys k <;> exact inflightOf_clear_self s k

theorem c09_compute_write_unregisters (c : Cfg) (s : State) (k v : Nat) :
    (computeStep c s k (.write v)).1.inflightOf k = none := by
  unfold computeStep write
  exact inflightOf_clear_self s k

theorem c09_compute_invalidate_unregisters (c : Cfg) (s : State) (k : Nat) :
    (computeStep c s k .invalidate).1.inflightOf k = none := by
  unfold computeStep remove
  cases (s.clearInflight k).phys k <;> exact inflightOf_clear_self s k

/-- … and so does an automatic removal of the key -/
theorem c09_evict_unregisters (c : Cfg) (s s' : State) (ev : Event) (h : evict c s ev = some s') :
    s'.inflightOf ev.key = none := by
  obtain ⟨e, _, _, _, rfl⟩ := evict_some c s s' ev h
  unfold evictApply
  exact inflightOf_clear_self _ _

/-- the composed statement: a Set that falls between registration and completion wins -/
theorem c09_write_during_load_wins (c : Cfg) (s : State) (k cid v w : Nat) (r : Bool) :
    let s1 := (startCall s k cid).1
    let s2 := (Spec.set c s1 k v).1
    (finishCall c s2 k cid r false (.ok w)).1.m = s2.m := by
  intro s1 s2
  have : s2.inflightOf k ≠ some cid := by
    rw [show s2.inflightOf k = none from c09_set_unregisters c s1 k v]; simp
  exact (c09_no_stale_install c s2 k cid r w this).1

/-! ### C10: outcomes -/

/-- a successful load by the registered call caches exactly the loaded value -/
theorem c10_ok_caches (c : Cfg) (s : State) (k cid v : Nat) (r : Bool) (h : s.inflightOf k = some cid) :
    ((finishCall c s k cid r false (.ok v)).1.phys k).map (·.val) = some v := by
  unfold finishCall write
  simp [h, State.phys, find_put_self, State.clearInflight]

theorem reloadFailure_keeps (c : Cfg) (s : State) (k k' : Nat) :
    ((applyReloadFailure c s k).phys k').map (fun e => (e.val, e.exp)) = (s.phys k').map (fun e => (e.val, e.exp)) := by
  unfold applyReloadFailure
  cases hp : s.phys k with
  | none => rfl
  | some e =>
    simp only
    split
    · simp only [State.phys]
      by_cases hk : k' = k
      · subst hk
        rw [find_put_self]
        unfold State.phys at hp
        rw [hp]; rfl
      · rw [find_put_other _ _ _ _ hk]
    · rfl

/-- a failed load leaves every cached value and every expiration deadline unchanged and reports nothing -/
theorem c10_err_keeps (c : Cfg) (s : State) (k cid v k' : Nat) (r fake : Bool) :
    ((finishCall c s k cid r fake (.err v)).1.phys k').map (fun e => (e.val, e.exp)) =
      (s.phys k').map (fun e => (e.val, e.exp)) ∧ (finishCall c s k cid r fake (.err v)).2 = [] := by
  unfold finishCall
  simp only
  generalize hs' : (if (s.inflightOf k == some cid) = true then s.clearInflight k else s) = s'
  have hph : s'.phys k' = s.phys k' := by rw [← hs']; split <;> rfl
  refine ⟨?_, trivial⟩
  split
  · rw [reloadFailure_keeps, hph]
  · rw [hph]

/-- a not-found result of the registered call caches nothing and removes an existing entry -/
theorem c10_notfound_removes (c : Cfg) (s : State) (k cid v : Nat) (r : Bool) (h : s.inflightOf k = some cid) :
    (finishCall c s k cid r false (.notFound v)).1.phys k = none := by
  unfold finishCall remove
  simp only [h, beq_self_eq_true, Bool.or_true, ↓reduceIte, Bool.false_or]
  cases hp : (s.clearInflight k).phys k with
  | none => simpa using hp
  | some o => simp [State.phys, find_erase_self]

theorem reloadFailure_other (c : Cfg) (s : State) (k k' : Nat) (hk : k' ≠ k) :
    (applyReloadFailure c s k).phys k' = s.phys k' := by
  unfold applyReloadFailure
  cases hp : s.phys k with
  | none => rfl
  | some e =>
    simp only
    split
    · simp only [State.phys]; rw [find_put_other _ _ _ _ hk]
    · rfl

/-- the completion of a load touches no other key -/
theorem c10_other_keys (c : Cfg) (s : State) (k cid k' : Nat) (r fake : Bool) (o : LoadOutcome) (hk : k' ≠ k) :
    (finishCall c s k cid r fake o).1.phys k' = s.phys k' := by
  unfold finishCall
  simp only
  generalize hs' : (if (s.inflightOf k == some cid) = true then s.clearInflight k else s) = s'
  have hph : ∀ x, s'.phys x = s.phys x := by intro x; rw [← hs']; split <;> rfl
  cases o with
  | ok v =>
    simp only
    split
    · unfold write; simp only [State.phys]; rw [find_put_other _ _ _ _ hk]; exact hph k'
    · exact hph k'
  | err v =>
    simp only
    split
    · exact (reloadFailure_other c s' k k' hk).trans (hph k')
    · exact hph k'
  | panic =>
    simp only
    split
    · exact (reloadFailure_other c s' k k' hk).trans (hph k')
    · exact hph k'
  | notFound v =>
    simp only
    split
    · unfold remove
      cases hp : s'.phys k with
      | none => exact hph k'
      | some e => simp only [State.phys]; rw [find_erase_other _ _ _ hk]; exact hph k'
    · exact hph k'

/-- statistics: each loader invocation counts once; not-found is a success (C20) -/
theorem c10_load_counted_once (s : State) (o : LoadOutcome) :
    (recordLoad s o).stats.loadOk + (recordLoad s o).stats.loadFail = s.stats.loadOk + s.stats.loadFail + 1 := by
  unfold recordLoad; cases o <;> simp <;> omega

/-! ### C08 (sequential part): single flight — a second registration for the same key is refused -/
theorem c08_single_flight (s : State) (k cid cid' : Nat) :
    (startCall (startCall s k cid).1 k cid').2 = false := by
  unfold startCall
  cases h : s.inflightOf k with
  | some x => simp [h]
  | none =>
    simp only
    have : ({ s with inflight := (k, cid) :: s.inflight } : State).inflightOf k = some cid := by
      unfold State.inflightOf; simp
    simp [this]

/-! ### Non-vacuity -/
def e1 : Entry := { val := 7, weight := 1, exp := 500, ref := 200 }
def s1 : State := { now := 100, m := [(1, e1)], inflight := [(1, 5)] }
example : s1.inflightOf 1 = some 5 := by decide
example : ((finishCall {} s1 1 5 true false (.ok 9)).1.phys 1).map (·.val) = some 9 := by decide
example : ((finishCall {} (Spec.set {} s1 1 8).1 1 5 true false (.ok 9)).1.phys 1).map (·.val) = some 8 := by decide


/-! ### The shape of BulkGet (Spec.Bulk — the functions the judge uses for the expected loader keys and the expected result) -/
section bulk
open Proofs.BulkShape

/-- every requested key is looked up exactly once and classified as a hit or as a miss; nothing else is -/
theorem c10_bulk_request_partitioned (c : Cfg) (s : State) (ks : List Nat) :
    (keysOf (bulkPlan c s ks)).Nodup ∧ ∀ k, k ∈ keysOf (bulkPlan c s ks) ↔ k ∈ ks :=
  plan_partition c s ks

/-- the loader is invoked for the missing keys only, each once -/
theorem c10_bulk_loader_keys (c : Cfg) (s : State) (ks : List Nat) :
    (bulkPlan c s ks).misses.Nodup ∧ ∀ k, k ∈ (bulkPlan c s ks).misses → k ∈ ks :=
  misses_distinct_requested c s ks

/-- BulkGet returns requested keys only, each distinct key at most once, for EVERY loader answer (full, partial, extra keys,
    empty, duplicates) -/
theorem c10_bulk_result_shape (c : Cfg) (s : State) (ks : List Nat) (kvs : List (Nat × Nat)) :
    (∀ q, q ∈ bulkReturn (bulkPlan c s ks) kvs → q.1 ∈ ks) ∧ ((bulkReturn (bulkPlan c s ks) kvs).map (·.1)).Nodup :=
  ⟨fun _ h => return_keys_requested c s ks kvs h, return_nodup c s ks kvs⟩

/-- every returned value was cached at the lookup or is what the loader supplied for a key it was asked for -/
theorem c10_bulk_result_source (c : Cfg) (s : State) (ks : List Nat) (kvs : List (Nat × Nat)) (q : Nat × Nat)
    (h : q ∈ bulkReturn (bulkPlan c s ks) kvs) :
    q ∈ (bulkPlan c s ks).hits ∨ (q.1 ∈ (bulkPlan c s ks).misses ∧ ∃ q', q' ∈ kvs ∧ q'.1 = q.1 ∧ q'.2 = q.2) :=
  return_source c s ks kvs h

/-- a missing key the loader did not supply is absent from the result -/
theorem c10_bulk_absent_stays_absent (c : Cfg) (s : State) (ks : List Nat) (kvs : List (Nat × Nat)) (k : Nat)
    (hk : k ∈ (bulkPlan c s ks).misses) (hno : ∀ q, q ∈ kvs → q.1 ≠ k) :
    k ∉ (bulkReturn (bulkPlan c s ks) kvs).map (·.1) :=
  unsupplied_absent c s ks kvs hk hno

/-- a volunteered key is not returned on the loader's word (it is only cached) -/
theorem c10_bulk_volunteered_not_returned (misses : List Nat) (kvs : List (Nat × Nat)) (q : Nat × Nat)
    (h : q ∈ bulkVolunteered misses kvs) : q.1 ∉ (bulkSupplied misses kvs).map (·.1) :=
  volunteered_not_supplied misses kvs h

/-- non-vacuity: keys 1 (twice), 2, 3 requested on an empty cache, the loader supplies 1 and volunteers 9 -/
example : (bulkPlan {} {} [1, 2, 1, 3]).misses = [1, 2, 3] ∧
    bulkReturn (bulkPlan {} {} [1, 2, 1, 3]) [(1, 10), (9, 90)] = [(1, 10)] ∧
    bulkVolunteered [1, 2, 3] [(1, 10), (9, 90)] = [(9, 90)] := by decide

end bulk

end OtterVerif.Props.C10
