/-
  C06 — "values written = values present + values reported", for every history of Impl.Table (the transcription of the
  per-key decision code of cache_impl.go that Props/C01Refine ties to the regenerated code), automatic removals at arbitrary
  points included; and the table stays a map (one node per key) throughout.
-/
import OtterVerif.Proofs.TableConserve

namespace OtterVerif.Props.C06Conserve
open OtterVerif OtterVerif.Impl.Table OtterVerif.Proofs.TableRefine OtterVerif.Proofs.TableTrace OtterVerif.Proofs.TableEvict
open OtterVerif.Proofs.TableConserve
open OtterVerif.Spec (Cause Event Out Entry Cfg Kind)

/-- C06: one step — present + reported grows by exactly what the step installed (0 or 1, read off the operation's own answer) -/
theorem c06_step_conserves (c : Cfg) (s : IState) (op : XOp) (h : NodupKeys s.t) :
    (xistep c s op).1.t.length + (xistep c s op).2.2.length = s.t.length + installs op (xistep c s op).2.1 ∧
    NodupKeys (xistep c s op).1.t :=
  xistep_conserves c s op h

/-- C06: **every history, from the empty cache: written = present + reported** -/
theorem c06_written_eq_present_plus_reported (c : Cfg) (ops : List XOp) (now0 : Int) :
    totalInstalls ops (xirun c { now := now0, t := [] } ops).2
      = (xirun c { now := now0, t := [] } ops).1.t.length + totalEvents (xirun c { now := now0, t := [] } ops).2 :=
  conservation_from_empty c ops now0

/-- C06 / C01: the table is a map at every point of every history -/
theorem c06_one_node_per_key (c : Cfg) (ops : List XOp) (now0 : Int) :
    NodupKeys (xirun c { now := now0, t := [] } ops).1.t :=
  (history_conserves c ops { now := now0, t := [] } (by unfold NodupKeys; exact List.nodup_nil)).2

/-- C06: a step reports at most one value -/
theorem c06_at_most_one_report (c : Cfg) (s : IState) (op : XOp) : (xistep c s op).2.2.length ≤ 1 := by
  have hset : ∀ (cfg : TCfg) k v old now kd, (atomicSet cfg k v old now kd).2.length ≤ 1 := by
    intro cfg k v old now kd; rw [atomicSet_events]; split <;> omega
  cases op with
  | evict k same =>
    show (evictNode s.t k same s.now).2.length ≤ 1
    rcases evict_reports_iff_removed s.t k same s.now with h1 | ⟨ev, h1, _⟩
    · rw [h1.1]; exact Nat.zero_le _
    · rw [h1]; exact Nat.le_refl _
  | base o =>
    cases o with
    | advance d => exact Nat.zero_le _
    | get k => exact Nat.zero_le _
    | invalidate k =>
      show (invalidate s.t k s.now).2.2.length ≤ 1
      unfold invalidate; cases lookup s.t k <;> simp
    | compute k act =>
      show (computeStep (cfgOf c) s.t k act s.now).2.2.length ≤ 1
      unfold computeStep
      cases act with
      | panic => exact Nat.zero_le _
      | bad => exact Nat.zero_le _
      | write v => exact (hset (cfgOf c) k v (lookup s.t k) s.now .plain)
      | invalidate => cases lookup s.t k <;> simp
      | cancel =>
        cases lookup s.t k with
        | none => exact Nat.zero_le _
        | some o => simp only; split <;> simp
    | set k v =>
      show (Impl.Table.set (cfgOf c) s.t k v false s.now).2.2.length ≤ 1
      unfold Impl.Table.set
      simp only [Bool.false_and, Bool.false_eq_true, ↓reduceIte]
      cases lookup s.t k with
      | none => exact (hset (cfgOf c) k v none s.now .plain)
      | some o => simp only; split <;> exact (hset (cfgOf c) k v (some o) s.now .plain)
    | setIfAbsent k v =>
      show (Impl.Table.set (cfgOf c) s.t k v true s.now).2.2.length ≤ 1
      unfold Impl.Table.set
      simp only [Bool.true_and, ↓reduceIte]
      cases lookup s.t k with
      | none => simp only [Bool.false_eq_true, ↓reduceIte]; exact (hset (cfgOf c) k v none s.now .plain)
      | some o => simp only; split <;> first | exact Nat.zero_le _ | exact (hset (cfgOf c) k v (some o) s.now .plain)

/-! ### non-vacuity: three writes, a replacement, an expiry sweep, an invalidation -/
def exOps : List XOp :=
  [.base (.set 1 7), .base (.set 2 8), .base (.set 1 9), .base (.advance 11), .evict 2 true, .base (.invalidate 1), .base (.setIfAbsent 3 5)]
example : totalInstalls exOps (xirun { expiry := .writing 10 } { now := 0, t := [] } exOps).2 = 4
    ∧ (xirun { expiry := .writing 10 } { now := 0, t := [] } exOps).1.t.length = 1
    ∧ totalEvents (xirun { expiry := .writing 10 } { now := 0, t := [] } exOps).2 = 3 := by decide

end OtterVerif.Props.C06Conserve
