/-
  C08 — Loads are single-flight and every waiter terminates.

  Spec level (every state): a second registration for a key with a load in flight is refused — the second caller joins;
  completion of a call (value, error, not-found, panic) always unregisters it; a write / invalidation / automatic removal
  unregisters it too (that is the only way two loader executions for one key may overlap) — `Props.C10`.
  Tie: skeleton equality of startCall / deleteCall / delete / doCall / doBulkCall / afterDeleteCall (get-or-create under
  the call table's bucket lock; the deferred recover + afterFinish loop; deleteCall inside the cache bucket's critical
  section); SEQ (load profile: every loader outcome incl. panic, partial/extra bulk results, nested operations; a
  watchdog reports an operation that never returns — F12); CONC-flight: 2-9 real concurrent Get/BulkGet callers per round
  behind blocked loaders: loader executions per key never overlap, a successful load runs once, every caller returns the
  outcome of the load it joined, no in-flight record is left at quiescence (white box), no caller hangs.
  PARTIAL: the interleaving model of the flight protocol (all schedules) is not mechanised.
-/
import OtterVerif.Props.C10
import OtterVerif.Gen.Skeleton
import OtterVerif.Conc.FlightSkeleton

namespace OtterVerif.Props.C08
open OtterVerif OtterVerif.Spec

/-- single flight: while a load is registered for k, no second one is registered -/
theorem c08_single_flight (s : State) (k cid cid' : Nat) : (startCall (startCall s k cid).1 k cid').2 = false :=
  C10.c08_single_flight s k cid cid'

/-- the registered call is unregistered by its own completion, whatever the outcome -/
theorem c08_completion_unregisters (c : Cfg) (s : State) (k cid : Nat) (r f : Bool) (o : LoadOutcome)
    (h : s.inflightOf k = some cid) : (finishCall c s k cid r f o).1.inflightOf k = none := by
  have hclear := C10.inflightOf_clear_self s k
  have key : ∀ (t : State), t.inflightOf k = none → ∀ e, ({ t with m := e } : State).inflightOf k = none := by
    intro t ht e; exact ht
  unfold finishCall
  simp only [h, beq_self_eq_true, Bool.or_true, ↓reduceIte]
  cases o with
  | ok v => simp only [↓reduceIte]; unfold write; exact hclear
  | err v =>
    simp only
    split
    · unfold applyReloadFailure
      cases (s.clearInflight k).phys k with
      | none => exact hclear
      | some e => simp only; split <;> exact hclear
    · exact hclear
  | panic =>
    simp only
    split
    · unfold applyReloadFailure
      cases (s.clearInflight k).phys k with
      | none => exact hclear
      | some e => simp only; split <;> exact hclear
    · exact hclear
  | notFound v =>
    simp only [↓reduceIte]
    unfold remove
    cases (s.clearInflight k).phys k with
    | none => exact hclear
    | some e => exact hclear

/-- after completion a later Get registers (and loads) afresh -/
theorem c08_later_get_loads_afresh (c : Cfg) (s : State) (k cid cid' : Nat) (r f : Bool) (o : LoadOutcome)
    (h : s.inflightOf k = some cid) : (startCall (finishCall c s k cid r f o).1 k cid').2 = true := by
  have := c08_completion_unregisters c s k cid r f o h
  unfold startCall
  rw [this]

theorem skeleton_group_startCall : Gen.Skeleton.group_startCall = Conc.FlightSkeleton.group_startCall := by decide
theorem skeleton_group_deleteCall : Gen.Skeleton.group_deleteCall = Conc.FlightSkeleton.group_deleteCall := by decide
theorem skeleton_group_delete : Gen.Skeleton.group_delete = Conc.FlightSkeleton.group_delete := by decide
theorem skeleton_group_doCall : Gen.Skeleton.group_doCall = Conc.FlightSkeleton.group_doCall := by decide
theorem skeleton_group_doBulkCall : Gen.Skeleton.group_doBulkCall = Conc.FlightSkeleton.group_doBulkCall := by decide
theorem skeleton_cache_afterDeleteCall : Gen.Skeleton.cache_afterDeleteCall = Conc.FlightSkeleton.cache_afterDeleteCall := by decide

/-! ### Non-vacuity -/
def s1 : State := { now := 1, inflight := [(3, 7)] }
example : s1.inflightOf 3 = some 7 ∧ (finishCall {} s1 3 7 false false .panic).1.inflightOf 3 = none := by decide

end OtterVerif.Props.C08
