/-
  C08 — Loads are single-flight and every waiter terminates.

  Spec level (every state): a second registration for a key with a load in flight is refused — the second caller joins;
  completion of a call (value, error, not-found, panic) always unregisters it; a write / invalidation / automatic removal
  unregisters it too (that is the only way two loader executions for one key may overlap) — `Props.C10`.
  Tie: skeleton equality of startCall / deleteCall / delete / doCall / doBulkCall / afterDeleteCall (get-or-create under
  the call table's bucket lock; the deferred recover + afterFinish loop; deleteCall inside the cache bucket's critical
  section); SEQ (load profile: every loader outcome incl. panic, partial/extra bulk results, nested operations; a
  watchdog reports an operation that never returns — F12); CONC-flight: 2-9 real concurrent Get/BulkGet callers per round
  behind blocked loaders: loader executions per key never overlap, a successful load runs once, every caller returns the
  outcome of the load it joined, no in-flight record is left at quiescence (white box), no caller hangs.
  Interleaving model (Conc.Flight): one key, unboundedly many callers, writers and call objects, every schedule of the atomic
  steps join / create / unregister / cancel / kill / resume: loader executions overlap only if a write, invalidation or
  eviction removed the registered call in between; no record is left once no load runs; a waiter is never stuck.
  PARTIAL: the model's atomic steps are tied to the code by the skeletons (which include Get / BulkGet / refreshKey /
  bulkRefreshKeys: no return between startCall and doCall/doBulkCall, every path reaches wait) and by CONC-flight, not by a
  step-by-step refinement proof; bulk calls are modelled per key.
-/
import OtterVerif.Props.C10
import OtterVerif.Gen.Skeleton
import OtterVerif.Conc.FlightSkeleton
import OtterVerif.Conc.Flight

namespace OtterVerif.Props.C08
open OtterVerif OtterVerif.Spec

/-- single flight: while a load is registered for k, no second one is registered -/
theorem c08_single_flight (s : State) (k cid cid' : Nat) : (startCall (startCall s k cid).1 k cid').2 = false :=
  C10.c08_single_flight s k cid cid'

/-- the registered call is unregistered by its own completion, whatever the outcome -/
theorem c08_completion_unregisters (c : Cfg) (s : State) (k cid : Nat) (r f : Bool) (o : LoadOutcome)
    (h : s.inflightOf k = some cid) : (finishCall c s k cid r f o).1.inflightOf k = none := by
  have hclear := C10.inflightOf_clear_self s k
  have key : ∀ (t : State), t.inflightOf k = none → ∀ e, ({ t with m := e } : State).inflightOf k = none := by
    intro t ht e; exact ht
  unfold finishCall
  simp only [h, beq_self_eq_true, Bool.or_true, ↓reduceIte]
  cases o with
  | ok v => simp only [↓reduceIte]; unfold write; exact hclear
  | err v =>
    simp only
    split
    · unfold applyReloadFailure
      cases (s.clearInflight k).phys k with
      | none => exact hclear
      | some e => simp only; split <;> exact hclear
    · exact hclear
  | panic =>
    simp only
    split
    · unfold applyReloadFailure
      cases (s.clearInflight k).phys k with
      | none => exact hclear
      | some e => simp only; split <;> exact hclear
    · exact hclear
  | notFound v =>
    simp only [↓reduceIte]
    unfold remove
    cases (s.clearInflight k).phys k with
    | none => exact hclear
    | some e => exact hclear

/-- after completion a later Get registers (and loads) afresh -/
theorem c08_later_get_loads_afresh (c : Cfg) (s : State) (k cid cid' : Nat) (r f : Bool) (o : LoadOutcome)
    (h : s.inflightOf k = some cid) : (startCall (finishCall c s k cid r f o).1 k cid').2 = true := by
  have := c08_completion_unregisters c s k cid r f o h
  unfold startCall
  rw [this]

theorem skeleton_group_startCall : Gen.Skeleton.group_startCall = Conc.FlightSkeleton.group_startCall := by decide
theorem skeleton_group_deleteCall : Gen.Skeleton.group_deleteCall = Conc.FlightSkeleton.group_deleteCall := by decide
theorem skeleton_group_delete : Gen.Skeleton.group_delete = Conc.FlightSkeleton.group_delete := by decide
theorem skeleton_group_doCall : Gen.Skeleton.group_doCall = Conc.FlightSkeleton.group_doCall := by decide
theorem skeleton_group_doBulkCall : Gen.Skeleton.group_doBulkCall = Conc.FlightSkeleton.group_doBulkCall := by decide
theorem skeleton_cache_afterDeleteCall : Gen.Skeleton.cache_afterDeleteCall = Conc.FlightSkeleton.cache_afterDeleteCall := by decide

theorem skeleton_cache_Get : Gen.Skeleton.cache_Get = Conc.FlightSkeleton.cache_Get := by decide
theorem skeleton_cache_BulkGet : Gen.Skeleton.cache_BulkGet = Conc.FlightSkeleton.cache_BulkGet := by decide
theorem skeleton_cache_refreshKey : Gen.Skeleton.cache_refreshKey = Conc.FlightSkeleton.cache_refreshKey := by decide
theorem skeleton_cache_bulkRefreshKeys : Gen.Skeleton.cache_bulkRefreshKeys = Conc.FlightSkeleton.cache_bulkRefreshKeys := by decide
theorem skeleton_cache_wrapLoad : Gen.Skeleton.cache_wrapLoad = Conc.FlightSkeleton.cache_wrapLoad := by decide
theorem skeleton_call_cancel : Gen.Skeleton.call_cancel = Conc.FlightSkeleton.call_cancel := by decide
theorem skeleton_call_wait : Gen.Skeleton.call_wait = Conc.FlightSkeleton.call_wait := by decide

/-! ### All interleavings (Conc.Flight) -/

open OtterVerif.Conc.Flight in
/-- loader invocations for one key never overlap in time unless the key was written, invalidated or evicted in between:
    two call objects that are both being loaded and were both not removed by a writer are the same object -/
theorem c08_no_overlap {s : St} (h : Reach s) (i j : Nat) (hi : s.phase i = .loading) (hj : s.phase j = .loading)
    (oi : s.orphaned i = false) (oj : s.orphaned j = false) : i = j := by
  have inv := reach_inv h
  have a := inv.own i hi oi
  have b := inv.own j hj oj
  rw [a] at b
  exact Option.some.inj b

open OtterVerif.Conc.Flight in
/-- … so two distinct loads in progress imply that a writer removed one of them from the table -/
theorem c08_overlap_needs_write {s : St} (h : Reach s) (i j : Nat) (hne : i ≠ j) (hi : s.phase i = .loading)
    (hj : s.phase j = .loading) : s.orphaned i = true ∨ s.orphaned j = true := by
  cases oi : s.orphaned i with
  | true => exact Or.inl rfl
  | false =>
    cases oj : s.orphaned j with
    | true => exact Or.inr rfl
    | false => exact absurd (c08_no_overlap h i j hi hj oi oj) hne

open OtterVerif.Conc.Flight in
/-- a loader that fails, reports not-found or panics leaves no in-flight record behind: once no load is running the table
    holds no call (the record is removed by the leader before it releases the waiters) -/
theorem c08_no_record_left {s : St} (h : Reach s) (hq : ∀ i, s.phase i ≠ .loading) : s.cur = none := by
  cases hc : s.cur with
  | none => rfl
  | some i => exact absurd ((reach_inv h).reg i hc).1 (hq i)

open OtterVerif.Conc.Flight in
/-- every waiter terminates: whenever a caller waits on object i, a step of i's leader or of the waiter is enabled that
    strictly advances i (loading → finishing → done → one waiter fewer) — under the assumption that loaders return -/
theorem c08_waiter_progress {s : St} (h : Reach s) (i : Nat) (hw : 0 < s.waiting i) :
    ∃ s', Step s s' ∧ ((s.phase i = .loading ∧ s'.phase i = .finishing) ∨ (s.phase i = .finishing ∧ s'.phase i = .done) ∨
      (s.phase i = .done ∧ s'.waiting i + 1 = s.waiting i)) := by
  have hnf := (reach_inv h).wait i hw
  cases hp : s.phase i with
  | fresh => exact absurd hp hnf
  | loading => exact ⟨_, Step.unregister s i hp, Or.inl ⟨rfl, by simp⟩⟩
  | finishing => exact ⟨_, Step.cancel s i hp, Or.inr (Or.inl ⟨rfl, by simp⟩)⟩
  | done => exact ⟨_, Step.resume s i hp hw, Or.inr (Or.inr ⟨rfl, by simp; omega⟩)⟩

open OtterVerif.Conc.Flight in
/-- a later Get loads afresh: with no load running, the next caller registers a new call and becomes its leader -/
theorem c08_later_get_creates {s : St} (h : Reach s) (hq : ∀ i, s.phase i ≠ .loading) :
    ∃ s', Step s s' ∧ s'.cur = some s.next ∧ s'.phase s.next = .loading :=
  ⟨_, Step.create s (c08_no_record_left h hq), rfl, by simp⟩

open OtterVerif.Conc.Flight in
/-- non-vacuity: two overlapping loads are reachable (create, kill by a writer, create) and the first is orphaned -/
theorem c08_overlap_reachable : ∃ s, Reach s ∧ s.phase 0 = .loading ∧ s.phase 1 = .loading ∧ s.orphaned 0 = true := by
  refine ⟨_, Reach.step (Reach.step (Reach.step Reach.init (Step.create {} rfl)) (Step.kill _)) (Step.create _ rfl), ?_, ?_, ?_⟩
  · simp [upd]
  · simp [upd]
  · simp [upd]

/-! ### Non-vacuity -/
def s1 : State := { now := 1, inflight := [(3, 7)] }
example : s1.inflightOf 3 = some 7 ∧ (finishCall {} s1 3 7 false false .panic).1.inflightOf 3 = none := by decide

end OtterVerif.Props.C08
