/-
  C06 — Every removed value is reported exactly once with the right cause.

  Per-operation conservation on the Spec, for EVERY state (with distinct keys) and operation:
      values present after  ⊎  values reported  =  values present before  ⊎  values written
  as multisets of (key, value); the cause of a reported value is `Expiration` iff its deadline had
  passed, else what happened; values still present are never reported.  The SEQ judge additionally
  demands that the OnDeletion stream equals the atomic stream event for event (key, value, cause).

  Concurrent departures (Props.C06Conc over Conc.Events, every interleaving of writers, invalidations, evictions and task executions in any
  order): OnDeletion and OnAtomicDeletion each report a node at most once; OnDeletion only what OnAtomicDeletion reported;
  nothing that is still installed and nothing that was never installed; while a departure is unreported exactly one pending
  task carries it; at quiescence every departed node has been reported exactly once by both.  The model's steps are tied to
  cache_impl.go by twelve skeleton equalities (who calls notifyDeletion / notifyAtomicDeletion / getTask, with which
  arguments, under which branch) and by CONC-events on the real cache.
-/
import OtterVerif.Proofs.MapLemmas

namespace OtterVerif.Props.C06
open OtterVerif OtterVerif.Spec

/-- the (key, value) pairs physically present -/
def vals (m : List (Nat × Entry)) : List (Nat × Nat) := m.map (fun p => (p.1, p.2.val))

def evVals (evs : List Event) : List (Nat × Nat) := evs.map (fun e => (e.key, e.val))

/-- the cause is truthful: Expiration exactly when the deadline had passed -/
theorem c06_cause_truthful (e : Entry) (now : Int) (c : Cause) :
    (causeOf e now c = .expiration ↔ (e.exp ≤ now ∨ c = .expiration)) ∧ (now < e.exp → causeOf e now c = c) := by
  unfold causeOf Entry.liveAt
  constructor
  · split <;> rename_i h
    · have : now < e.exp := by simpa using h
      constructor
      · intro hc; exact Or.inr hc
      · intro hc; cases hc with | inl h' => omega | inr h' => exact h'
    · have : ¬ now < e.exp := by simpa using h
      simp; omega
  · intro hl; simp [hl]

theorem filter_key_of_find (m : List (Nat × Entry)) (k : Nat) (h : WF m) :
    m.filter (fun p => p.1 == k) = match find m k with | some e => [(k, e)] | none => [] := by
  induction m with
  | nil => rfl
  | cons p m ih =>
    have hwf : WF m := by unfold WF at *; simp only [List.map_cons, List.nodup_cons] at h; exact h.2
    have hnot : p.1 ∉ m.map (·.1) := by unfold WF at h; simp only [List.map_cons, List.nodup_cons] at h; exact h.1
    rw [find_cons]
    simp only [List.filter_cons]
    by_cases hk : p.1 = k
    · subst hk
      simp only [beq_self_eq_true, ↓reduceIte]
      have : m.filter (fun q => q.1 == p.1) = [] := by
        rw [List.filter_eq_nil_iff]
        intro q hq hqk
        exact hnot (List.mem_map.mpr ⟨q, hq, by simpa using hqk⟩)
      rw [this]
    · have : (p.1 == k) = false := by simpa using hk
      simp only [this, Bool.false_eq_true, ↓reduceIte]
      exact ih hwf

theorem vals_erase (m : List (Nat × Entry)) (k : Nat) :
    vals (erase m k) = (vals m).filter (fun p => p.1 != k) := by
  unfold vals erase
  rw [List.filter_map]
  rfl

theorem perm_filter_split (l : List (Nat × Nat)) (k : Nat) :
    (l.filter (fun p => p.1 != k) ++ l.filter (fun p => p.1 == k)).Perm l := by
  have := List.filter_append_perm (fun p : Nat × Nat => p.1 != k) l
  refine List.Perm.trans ?_ this
  apply List.Perm.append_left
  apply List.Perm.of_eq
  congr 1
  funext p
  simp [bne]

/-- Write: the new value is installed, the physically present predecessor (if any) is reported once,
    nothing else changes:  present' ⊎ reported = present ⊎ {(k, v)} -/
theorem c06_write_conserve (c : Cfg) (s : State) (k v : Nat) (wk : WriteKind) (h : WF s.m) :
    (vals (write c s k v wk).1.m ++ evVals (write c s k v wk).2).Perm ((k, v) :: vals s.m) := by
  have hf := filter_key_of_find s.m k h
  have hsplit := perm_filter_split (vals s.m) k
  have hfv : (vals s.m).filter (fun p => p.1 == k) = (s.m.filter (fun p => p.1 == k)).map (fun p => (p.1, p.2.val)) := by
    unfold vals; rw [List.filter_map]; rfl
  have hm : ∃ e : Entry, (write c s k v wk).1.m = put s.m k e ∧ e.val = v := ⟨_, rfl, rfl⟩
  obtain ⟨e, hm, hv⟩ := hm
  rw [hm]
  unfold put
  show ((k, e.val) :: vals (erase s.m k) ++ _).Perm _
  rw [hv]
  rw [vals_erase]
  refine List.Perm.cons _ ?_
  have hev : evVals (write c s k v wk).2 = (vals s.m).filter (fun p => p.1 == k) := by
    rw [hfv, hf]
    unfold write State.phys
    cases find s.m k <;> rfl
  rw [hev]
  exact hsplit

/-- Remove: the physically present entry (if any) is reported once and is gone -/
theorem c06_remove_conserve (s : State) (k : Nat) (c : Cause) (h : WF s.m) :
    (vals (remove s k c).1.m ++ evVals (remove s k c).2).Perm (vals s.m) := by
  unfold remove
  have hf := filter_key_of_find s.m k h
  have hsplit := perm_filter_split (vals s.m) k
  cases hp : s.phys k with
  | none =>
    simp only [evVals, List.map_nil, List.append_nil]
    exact List.Perm.refl _
  | some o =>
    simp only
    rw [vals_erase]
    have : evVals [{ key := k, val := o.val, cause := causeOf o s.now c : Event }] = (vals s.m).filter (fun p => p.1 == k) := by
      unfold vals
      rw [List.filter_map]
      have : (List.filter ((fun p : Nat × Nat => p.1 == k) ∘ fun p : Nat × Entry => (p.1, p.2.val)) s.m) = s.m.filter (fun p => p.1 == k) := rfl
      rw [this, hf]
      unfold State.phys at hp
      rw [hp]; rfl
    rw [this]
    exact hsplit

/-- InvalidateAll: every physically present value is reported exactly once, nothing stays -/
theorem c06_invalidateAll_conserve (s : State) :
    (invalidateAll s).1.m = [] ∧ evVals (invalidateAll s).2 = vals s.m := by
  unfold invalidateAll evVals vals
  simp [List.map_map, Function.comp_def]

/-- an accepted automatic removal: exactly the reported value disappears -/
theorem c06_evict_conserve (c : Cfg) (s s' : State) (ev : Event) (h : WF s.m) (he : evict c s ev = some s') :
    ((ev.key, ev.val) :: vals s'.m).Perm (vals s.m) := by
  obtain ⟨e, hp, hv, _, rfl⟩ := evict_some c s s' ev he
  show ((ev.key, ev.val) :: vals (erase s.m ev.key)).Perm _
  rw [vals_erase]
  have hf := filter_key_of_find s.m ev.key h
  have hsplit := perm_filter_split (vals s.m) ev.key
  have : (vals s.m).filter (fun p => p.1 == ev.key) = [(ev.key, ev.val)] := by
    unfold vals
    rw [List.filter_map]
    have : (List.filter ((fun p : Nat × Nat => p.1 == ev.key) ∘ fun p : Nat × Entry => (p.1, p.2.val)) s.m) = s.m.filter (fun p => p.1 == ev.key) := rfl
    rw [this, hf]
    unfold State.phys at hp
    rw [hp, ← hv]; rfl
  rw [this] at hsplit
  exact (List.perm_append_comm.trans hsplit |> fun x => by simpa using x)

/-- the distinct-keys invariant is preserved by every state change, so the statements above apply to
    every reachable state -/
theorem c06_wf_write (c : Cfg) (s : State) (k v : Nat) (wk : WriteKind) (h : WF s.m) : WF (write c s k v wk).1.m := by
  unfold write; exact WF_put _ _ _ h

theorem c06_wf_remove (s : State) (k : Nat) (c : Cause) (h : WF s.m) : WF (remove s k c).1.m := by
  unfold remove; cases s.phys k with
  | none => exact h
  | some o => exact WF_erase _ _ h

theorem c06_wf_evict (c : Cfg) (s s' : State) (ev : Event) (h : WF s.m) (he : evict c s ev = some s') : WF s'.m := by
  obtain ⟨e, _, _, _, rfl⟩ := evict_some c s s' ev he
  exact WF_erase _ _ h

theorem c06_wf_touch (c : Cfg) (s : State) (k : Nat) (e : Entry) (h : WF s.m) : WF (touch c s k e).m := by
  unfold touch; exact WF_put _ _ _ h


/-! ### Non-vacuity -/
def e1 : Entry := { val := 7, weight := 1, exp := 50, ref := maxI64 }
def s1 : State := { now := 100, m := [(1, e1)] }
example : WF s1.m := by unfold WF; decide
example : (write {} s1 1 9).2 = [⟨1, 7, .expiration⟩] := by decide

end OtterVerif.Props.C06
