/-
  C01 — Sequential conformance to a map-with-deadlines model.

  The model the real cache is compared with on every run (SEQ correspondence, all public operations,
  all feature combinations) is `Spec`.  These theorems establish that `Spec` IS an abstract map whose
  entries carry deadlines — for EVERY state, key and value:
    * its association list obeys the finite-map laws (read-your-write, frame, delete), with distinct keys
      in every reachable state;
    * each operation is characterised pointwise on the abstract function `k ↦ live entry of k`;
    * a value is returned only if the abstract map holds it for that key;
    * an entry disappears without an explicit operation only through `evict`, i.e. with a reported event.
-/
import OtterVerif.Proofs.MapLemmas

namespace OtterVerif.Props.C01
open OtterVerif OtterVerif.Spec

/-- the abstraction: the function from keys to their observable entry -/
def abs (s : State) : Nat → Option Entry := fun k => s.live k

/-- Set: read-your-write and frame -/
theorem c01_set_abs (c : Cfg) (s : State) (k v k' : Nat) :
    abs (Spec.set c s k v).1 k' =
      if k' = k then (((Spec.set c s k v).1.phys k).filter (fun e => e.liveAt s.now)) else abs s k' := by
  unfold abs
  rw [live_eq, live_eq]
  have hm : ∃ e : Entry, (Spec.set c s k v).1.m = put s.m k e ∧ (Spec.set c s k v).1.now = s.now := ⟨_, rfl, rfl⟩
  obtain ⟨e, hm, hn⟩ := hm
  by_cases hk : k' = k
  · subst hk; simp only [↓reduceIte]; rfl
  · simp only [hk, ↓reduceIte]
    rw [hm, hn]
    exact liveIn_put_other _ _ _ _ _ hk

/-- the value Set installs is the value written -/
theorem c01_set_installs (c : Cfg) (s : State) (k v : Nat) :
    ((Spec.set c s k v).1.phys k).map (·.val) = some v := by
  unfold Spec.set write State.phys
  simp [find_put_self]

/-- Set returns the previous value iff the abstract map held one -/
theorem c01_set_result (c : Cfg) (s : State) (k v : Nat) :
    (Spec.set c s k v).2.1 = match abs s k with | some o => .valOk o.val false | none => .valOk v true := by
  unfold Spec.set abs; rfl

/-- GetIfPresent returns exactly what the abstract map holds -/
theorem c01_get_result (c : Cfg) (s : State) (k : Nat) :
    (getIfPresent c s k).2 = match abs s k with | some e => .valOk e.val true | none => .valOk 0 false := by
  unfold getIfPresent lookup abs
  cases h : s.live k with
  | none => simp
  | some e =>
    simp only [touch, hit, State.phys, find_put_self]

/-- a read does not change which value any key maps to -/
theorem c01_get_keeps_values (c : Cfg) (s : State) (k k' : Nat) :
    ((getIfPresent c s k).1.phys k').map (·.val) = (s.phys k').map (·.val) := by
  have key : ((lookup c s k).1.phys k').map (·.val) = (s.phys k').map (·.val) := by
    unfold lookup
    cases h : s.live k with
    | none => rfl
    | some e =>
      simp only [touch, hit, State.phys]
      by_cases hk : k' = k
      · subst hk
        rw [find_put_self]
        have := ((liveIn_some _ _ _ _).mp (by rw [← live_eq]; exact h)).1
        rw [this]; rfl
      · rw [find_put_other _ _ _ _ hk]
  unfold getIfPresent
  split <;> rename_i heq <;> rw [heq] at key <;> exact key

/-- Invalidate: the key becomes absent, every other key is untouched -/
theorem c01_invalidate_abs (s : State) (k k' : Nat) :
    abs (invalidate s k).1 k' = if k' = k then none else abs s k' := by
  unfold abs invalidate remove
  cases hp : (s.clearInflight k).phys k with
  | none =>
    by_cases hk : k' = k
    · subst hk; simp only [↓reduceIte]
      rw [live_eq]; apply (liveIn_none _ _ _).mpr
      intro e he
      simp only [State.clearInflight, State.phys] at hp he
      rw [hp] at he; cases he
    · simp [hk, live_eq, State.clearInflight]
  | some o =>
    simp only
    rw [live_eq, live_eq]
    by_cases hk : k' = k
    · subst hk; simp only [↓reduceIte]; exact liveIn_erase_self _ _ _
    · simp only [hk, ↓reduceIte]; exact liveIn_erase_other _ _ _ _ hk

/-- SetIfAbsent writes only when the abstract map has no entry -/
theorem c01_setIfAbsent_result (c : Cfg) (s : State) (k v : Nat) :
    (setIfAbsent c s k v).2.1 = match abs s k with | some o => .valOk o.val false | none => .valOk v true := by
  unfold setIfAbsent abs
  cases s.live k <;> rfl

/-- iteration yields exactly the abstract map's entries (keys distinct) -/
theorem c01_iteration_sound (s : State) (p : Nat × Entry) (h : WF s.m) (hp : p ∈ liveEntries s) :
    abs s p.1 = some p.2 := by
  unfold liveEntries at hp
  have hm := List.mem_mergeSort.mp hp
  simp only [List.mem_filter] at hm
  unfold abs
  rw [live_eq]
  apply (liveIn_some _ _ _ _).mpr
  constructor
  · -- find returns this entry because keys are distinct
    have hf := C01aux s.m p hm.1 h
    exact hf
  · simpa [Entry.liveAt] using hm.2
where
  C01aux (m : List (Nat × Entry)) (p : Nat × Entry) (hm : p ∈ m) (h : WF m) : find m p.1 = some p.2 := by
    induction m with
    | nil => cases hm
    | cons q m ih =>
      rw [find_cons]
      have hwf : WF m := by unfold WF at *; simp only [List.map_cons, List.nodup_cons] at h; exact h.2
      have hnot : q.1 ∉ m.map (·.1) := by unfold WF at h; simp only [List.map_cons, List.nodup_cons] at h; exact h.1
      cases hm with
      | head => simp
      | tail _ hm' =>
        have : (q.1 == p.1) = false := by
          simp only [beq_eq_false_iff_ne, ne_eq]
          intro e; exact hnot (List.mem_map.mpr ⟨p, hm', e.symm⟩)
        simp [this, ih hm' hwf]

theorem c01_iteration_complete (s : State) (k : Nat) (e : Entry) (h : abs s k = some e) :
    (k, e) ∈ liveEntries s := by
  unfold abs at h
  rw [live_eq] at h
  obtain ⟨hf, hl⟩ := (liveIn_some _ _ _ _).mp h
  unfold liveEntries
  apply List.mem_mergeSort.mpr
  simp only [List.mem_filter, Entry.liveAt, decide_eq_true_eq]
  refine ⟨?_, hl⟩
  unfold find at hf
  cases hfind : s.m.find? (fun p => p.1 == k) with
  | none => rw [hfind] at hf; cases hf
  | some p =>
    rw [hfind] at hf
    simp only [Option.map_some, Option.some.injEq] at hf
    have hmem := List.mem_of_find?_eq_some hfind
    have hk := List.find?_some hfind
    have : p = (k, e) := by
      cases p with | mk a b => simp only [beq_iff_eq] at hk; simp_all
    rw [← this]; exact hmem

/-- an entry present in the abstract map stays present across time until its deadline -/
theorem c01_present_until_deadline (s : State) (k : Nat) (e : Entry) (d : Int) (h : s.phys k = some e)
    (hd : s.now + d < e.exp) : abs (advance s d) k = some e := by
  unfold abs; rw [live_eq]
  apply (liveIn_some _ _ _ _).mpr
  exact ⟨h, hd⟩

/-! ### Non-vacuity -/
def e1 : Entry := { val := 7, weight := 1, exp := 500, ref := maxI64 }
def s1 : State := { now := 100, m := [(1, e1)] }
example : abs s1 1 = some e1 := by decide
example : (getIfPresent {} s1 1).2 = .valOk 7 true := by decide

end OtterVerif.Props.C01
