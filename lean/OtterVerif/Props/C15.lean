/-
  C15 (and the table part of C02) — Concurrent table: nothing lost across resizes, weakly consistent iteration.

  Specification: a finite map (Spec's association list; `Proofs.MapLemmas`: read-your-write, frame, delete, distinct keys).
  Tie: (1) the skeletons of Get / Compute / resize / copyBucket / copyBucketWithDestLock / Range / waitForResize are
  regenerated from map.go every run and must equal the snapshot (lock acquisition, resize re-check, publication order);
  (2) CONC-lin: real goroutines on the table alone (get / compute-set / compute-delete / compute-keep on a few keys while
  side keys force growth and shrink), every write stamped inside its critical section; the Lean judge (Lin.Check) decides
  linearizability per key exactly, that every callback ran once, and at quiescence Size() = number of keys = keys yielded
  by Range, each once; (3) the SEQ engine drives the table through the cache with InitialCapacity 1..1000.
  Theorems: finite-map laws of the specification; SWAR facts over the regenerated Gen.Swar: the hash fragment stored in
  the meta word is always < 0x80, so an occupied slot never looks empty and the empty marker never matches a key.
  All interleavings (Conc.Resize: one key, unboundedly many writers, any number of successive resizes): the handshake between
  Compute (lock the root bucket, then check the resizing flag, then check that the table is still current, then store) and
  resize (raise the flag, copy each bucket under its lock, publish, clear the flag) never loses a completed write — the value
  the specification holds is the value in the current table in every reachable state; the copy of a bucket waits for the
  writer inside it; at most one writer is inside a bucket.
  PARTIAL: bucket chains and the SWAR search are not modelled (skeletons, CONC-lin, CONC-resize); the model is per key.
-/
import OtterVerif.Proofs.MapLemmas
import OtterVerif.Gen.Swar
import OtterVerif.Gen.Skeleton
import OtterVerif.Conc.TableSkeleton
import OtterVerif.Lin.Check
import OtterVerif.Conc.Resize
import OtterVerif.Conc.Bucket
import OtterVerif.Proofs.MapGen
import OtterVerif.Pin.MapSites

namespace OtterVerif.Props.C15
open OtterVerif OtterVerif.Spec

/-- the specification is a map: a key inserted and not removed is found -/
theorem c15_inserted_found (m : List (Nat × Entry)) (k : Nat) (e : Entry) : find (put m k e) k = some e :=
  find_put_self m k e

theorem c15_other_keys_untouched (m : List (Nat × Entry)) (k k' : Nat) (e : Entry) (h : k' ≠ k) :
    find (put m k e) k' = find m k' ∧ find (erase m k) k' = find m k' :=
  ⟨find_put_other m k k' e h, find_erase_other m k k' h⟩

theorem c15_removed_not_found (m : List (Nat × Entry)) (k : Nat) : find (erase m k) k = none := find_erase_self m k

/-- size = number of keys: keys stay distinct under every update -/
theorem c15_keys_distinct (m : List (Nat × Entry)) (k : Nat) (e : Entry) (h : WF m) : WF (put m k e) ∧ WF (erase m k) :=
  ⟨WF_put m k e h, WF_erase m k h⟩

/-- the 7-bit hash fragment never equals the empty-slot marker 0x80 -/
theorem c15_h2_lt_empty (h : BitVec 64) : (Gen.Swar.h2 h).toNat < Gen.Swar.emptyMetaSlot.toNat := by
  unfold Gen.Swar.h2 Gen.Swar.emptyMetaSlot
  simp only [BitVec.toNat_setWidth, BitVec.toNat_and, BitVec.toNat_ofNat]
  have h1 : h.toNat &&& 127 ≤ 127 := Nat.and_le_right
  have h2 : (127 : Nat) % 2 ^ 64 = 127 := by decide
  rw [h2]
  have h3 : (h.toNat &&& 127) % 2 ^ 8 = h.toNat &&& 127 := Nat.mod_eq_of_lt (by omega)
  rw [h3]
  have h4 : (128 : Nat) % 2 ^ 8 = 128 := by decide
  omega

/-- an empty table's meta word is the empty marker in every byte -/
theorem c15_default_meta : Gen.Swar.defaultMeta = Gen.Swar.broadcast Gen.Swar.emptyMetaSlot := by decide

/-- only the five slot bytes take part in a lookup -/
theorem c15_meta_mask : Gen.Swar.defaultMetaMasked = Gen.Swar.defaultMeta &&& Gen.Swar.metaMask ∧ Gen.Swar.nodesPerMapBucket = 5 := by decide

theorem skeleton_Map_Get : Gen.Skeleton.Map_Get = Conc.TableSkeleton.Map_Get := by decide

theorem skeleton_Map_Compute : Gen.Skeleton.Map_Compute = Conc.TableSkeleton.Map_Compute := by decide

theorem skeleton_Map_resize : Gen.Skeleton.Map_resize = Conc.TableSkeleton.Map_resize := by decide

theorem skeleton_Map_waitForResize : Gen.Skeleton.Map_waitForResize = Conc.TableSkeleton.Map_waitForResize := by decide

theorem skeleton_Map_Range : Gen.Skeleton.Map_Range = Conc.TableSkeleton.Map_Range := by decide

theorem skeleton_Map_copyBucket : Gen.Skeleton.Map_copyBucket = Conc.TableSkeleton.Map_copyBucket := by decide

theorem skeleton_Map_copyBucketWithDestLock : Gen.Skeleton.Map_copyBucketWithDestLock = Conc.TableSkeleton.Map_copyBucketWithDestLock := by decide

theorem skeleton_Map_newerTableExists : Gen.Skeleton.Map_newerTableExists = Conc.TableSkeleton.Map_newerTableExists := by decide

theorem skeleton_Map_resizeInProgress : Gen.Skeleton.Map_resizeInProgress = Conc.TableSkeleton.Map_resizeInProgress := by decide

/-! ### The resize handshake, all interleavings (Conc.Resize) -/

/-- nothing is lost across resizes: in every reachable state the current table holds, for the key, exactly the value of the
    last completed write (the specification's value) — whatever the interleaving of writers with any number of resizes -/
theorem c15_no_lost_write {s : Conc.Resize.St} (h : Conc.Resize.Reach s) : s.abs = s.content s.cur :=
  (Conc.Resize.reach_inv h).val

/-- the resizer copies a bucket only when no writer is inside it, and no writer enters it afterwards until the new table is
    in use: while the copy exists (or the new table is published with the flag still up) nobody is past the flag check -/
theorem c15_copy_excludes_writers {s : Conc.Resize.St} (h : Conc.Resize.Reach s)
    (hc : s.copied = true ∨ s.published = true) : s.c1 s.cur = 0 ∧ s.passed s.cur = 0 :=
  ⟨((Conc.Resize.reach_inv h).quiet hc).1, ((Conc.Resize.reach_inv h).quiet hc).2.1⟩

/-- an update function is applied under mutual exclusion: at most one writer is inside a bucket's critical section -/
theorem c15_one_writer_per_bucket {s : Conc.Resize.St} (h : Conc.Resize.Reach s) (g : Nat) :
    s.locked g + s.c1 g + s.passed g ≤ 1 := by
  have := (Conc.Resize.reach_inv h).own g
  have hb := Conc.Resize.ite_bool_le (s.lock g)
  omega

/-- a writer that stores does so into the current table -/
theorem c15_store_goes_to_current_table {s : Conc.Resize.St} (h : Conc.Resize.Reach s) (g : Nat) (hp : 0 < s.passed g) :
    g = s.cur :=
  (Conc.Resize.reach_inv h).pc g hp

/-- non-vacuity: a write, a complete resize, and a write into the new table -/
theorem c15_resize_example : ∃ s, Conc.Resize.Reach s ∧ s.cur = 1 ∧ s.abs = some 7 ∧ s.content 1 = some 7 := by
  open Conc.Resize in
  refine ⟨_, Reach.step (Reach.step (Reach.step (Reach.step (Reach.step (Reach.step (Reach.step (Reach.step Reach.init
    (Step.wLock _ 0 (Nat.le_refl _) rfl)) (Step.wCheck1 _ 0 (by simp [upd]) rfl)) (Step.wCheck2 _ 0 (by simp [upd]) rfl))
    (Step.wApply _ 0 (some 7) (by simp [upd]))) (Step.rStart _ rfl)) (Step.rCopy _ rfl rfl rfl (by simp [upd])))
    (Step.rPublish _ rfl rfl rfl)) (Step.rDone _ rfl rfl), rfl, rfl, ?_⟩
  simp [upd]


/-! ### One bucket chain: lock-free readers against the single stores of the locked writer (Conc.Bucket) -/

/-- a reader walking a chain while the writer inserts, replaces, deletes, appends buckets or the table is replaced returns
    what the chain mapped its key to in some state of its own search (every schedule, any number of readers) -/
theorem c15_lockfree_read_consistent (w : Nat) (h2 : Nat → Nat) (hw : 0 < w) {s : Conc.Bucket.St}
    (h : Conc.Bucket.Reach w h2 s) {r k : Nat} {v : Option Conc.Bucket.Node} (hd : s.m.rd r = .done k v) :
    ∃ s0, Conc.Bucket.Reach w h2 s0 ∧ Conc.Bucket.Run w h2 s0 s ∧ (s0.m.rd r).key = some k ∧ Conc.Bucket.Abs h2 s0.m k v :=
  Conc.Bucket.read_linearizable_run w h2 hw h hd

/-- Range's per-bucket copy (taken under the bucket lock) is exactly the chain's mapping: every non-nil pointer is a complete
    mapping of its key, no key occurs twice, and every mapped key is among the copied pointers -/
theorem c15_range_bucket_copy_exact (w : Nat) (h2 : Nat → Nat) (hw : 0 < w) {s : Conc.Bucket.St}
    (h : Conc.Bucket.Reach w h2 s) (hidle : s.m.wr = .idle) :
    (∀ sl n, s.m.ptr sl = some n → Conc.Bucket.Valid h2 s.m sl n.key n) ∧
    (∀ sl sl' n n', s.m.ptr sl = some n → s.m.ptr sl' = some n' → n.key = n'.key → sl = sl') ∧
    (∀ k n, Conc.Bucket.Abs h2 s.m k (some n) → ∃ sl, s.m.ptr sl = some n ∧ sl < s.m.len * w) :=
  Conc.Bucket.locked_scan_exact w h2 hw h hidle

/-- in every reachable chain: no key in two slots; a pointer without its meta byte only in the middle of its own deletion;
    a meta byte without pointer only in the middle of its own insertion is covered by `insI`; nothing beyond the last bucket -/
theorem c15_chain_invariant (w : Nat) (h2 : Nat → Nat) (hw : 0 < w) {s : Conc.Bucket.St} (h : Conc.Bucket.Reach w h2 s) :
    Conc.Bucket.MInv w h2 s.m :=
  (Conc.Bucket.reach_inv w h2 hw h).1

/-! ### Non-vacuity -/
example : (Gen.Swar.h2 0xffffffffffffffff).toNat = 127 := by decide
example : find (put [] 3 { val := 1, weight := 1, exp := 0, ref := 0 }) 3 ≠ none := by decide

/-! ### The table copy of `resize`, over the regenerated arithmetic of internal/hashmap/map.go -/

/-- the parallel copy hands every source bucket to exactly one goroutine: for every table length on the parallel path and
    every processor count (also those that do not divide the table length), every index below tableLen lies in one
    goroutine's range [c*chunkSize, min((c+1)*chunkSize, tableLen)), and the ranges of different goroutines do not overlap -/
theorem c15_gen_parallel_copy_covers (procs tableLen : BitVec 64) (hp : procs.toNat < 2 ^ 31) (hn : tableLen.toNat < 2 ^ 31)
    (hpar : 128 ≤ tableLen.toNat) (i : Nat) (hi : i < tableLen.toNat) (chunks cs : BitVec 64)
    (hch : chunks = Gen.MapSites.Map_resize_a9 (Gen.MapSites.Map_resize_a8 procs tableLen))
    (hcsdef : cs = Gen.MapSites.Map_resize_a10 chunks tableLen) :
    (∃ c : Nat, c < chunks.toNat ∧
      (Gen.MapSites.Map_resize_g0_0 (BitVec.ofNat 64 c) cs).toNat ≤ i ∧
      i < (Gen.MapSites.Map_resize_g0_1 (BitVec.ofNat 64 c) cs tableLen).toNat) ∧
    (∀ c d : Nat, c < d → d < chunks.toNat →
      (Gen.MapSites.Map_resize_g0_1 (BitVec.ofNat 64 c) cs tableLen).toNat ≤ (Gen.MapSites.Map_resize_g0_0 (BitVec.ofNat 64 d) cs).toNat) :=
  Proofs.MapGen.parallel_copy_covers procs tableLen hp hn hpar i hi chunks cs hch hcsdef

/-- both copy loops run over the table that is current AFTER the resizing flag was won (`tableLen = len(table.buckets)`
    with `table := m.table.Load()`), not over the table the caller had looked at: the loser of a resize race copies the
    whole current table -/
theorem c15_gen_copy_bounds_current_table :
    Gen.MapSites.siteParams.lookup "Map_resize_c10" = some ["i", "tableLen"] ∧
    Gen.MapSites.siteParams.lookup "Map_resize_a2" = some ["len_table_buckets"] ∧
    Gen.MapSites.siteParams.lookup "Map_resize_g0_1" = some ["c", "chunkSize", "tableLen"] ∧
    (∀ i n : BitVec 64, Gen.MapSites.Map_resize_c10 i n = BitVec.slt i n) := by
  rw [Pin.MapSites.siteParams_pin]
  exact ⟨by rfl, by rfl, by rfl, fun _ _ => rfl⟩


/-- one bucket-index formula at all four sites: where Get searches is where Compute wrote and where a resize copied to; for
    a power-of-two table it is h1(hash) mod len, inside the table -/
theorem c15_gen_bucket_index (len hash : BitVec 64) (k : Nat) (hk : k ≤ 62) (hlen : len.toNat = 2 ^ k) :
    let i := Gen.MapSites.Map_Compute_a6 (Gen.MapSites.Map_Compute_a3 hash) len
    Gen.MapSites.Map_Get_a4 (Gen.MapSites.Map_Get_a2 hash) len = i ∧
    Gen.MapSites.Map_copyBucket_a4 hash len = i ∧ Gen.MapSites.Map_copyBucketWithDestLock_a4 hash len = i ∧
    i.toNat = (Gen.MapSites.h_h1 hash).toNat % 2 ^ k ∧ i.toNat < len.toNat :=
  Proofs.MapGen.bucket_index_same len hash k hk hlen


end OtterVerif.Props.C15
