/-
  C15 (and the table part of C02) — Concurrent table: nothing lost across resizes, weakly consistent iteration.

  Specification: a finite map (Spec's association list; `Proofs.MapLemmas`: read-your-write, frame, delete, distinct keys).
  Tie: (1) the skeletons of Get / Compute / resize / copyBucket / copyBucketWithDestLock / Range / waitForResize are
  regenerated from map.go every run and must equal the snapshot (lock acquisition, resize re-check, publication order);
  (2) CONC-lin: real goroutines on the table alone (get / compute-set / compute-delete / compute-keep on a few keys while
  side keys force growth and shrink), every write stamped inside its critical section; the Lean judge (Lin.Check) decides
  linearizability per key exactly, that every callback ran once, and at quiescence Size() = number of keys = keys yielded
  by Range, each once; (3) the SEQ engine drives the table through the cache with InitialCapacity 1..1000.
  Theorems: finite-map laws of the specification; SWAR facts over the regenerated Gen.Swar: the hash fragment stored in
  the meta word is always < 0x80, so an occupied slot never looks empty and the empty marker never matches a key.
  PARTIAL: no mechanised model of the bucket chains, the SWAR search and the cooperative resize; C15 is decided by (1)-(3).
-/
import OtterVerif.Proofs.MapLemmas
import OtterVerif.Gen.Swar
import OtterVerif.Gen.Skeleton
import OtterVerif.Conc.TableSkeleton
import OtterVerif.Lin.Check

namespace OtterVerif.Props.C15
open OtterVerif OtterVerif.Spec

/-- the specification is a map: a key inserted and not removed is found -/
theorem c15_inserted_found (m : List (Nat × Entry)) (k : Nat) (e : Entry) : find (put m k e) k = some e :=
  find_put_self m k e

theorem c15_other_keys_untouched (m : List (Nat × Entry)) (k k' : Nat) (e : Entry) (h : k' ≠ k) :
    find (put m k e) k' = find m k' ∧ find (erase m k) k' = find m k' :=
  ⟨find_put_other m k k' e h, find_erase_other m k k' h⟩

theorem c15_removed_not_found (m : List (Nat × Entry)) (k : Nat) : find (erase m k) k = none := find_erase_self m k

/-- size = number of keys: keys stay distinct under every update -/
theorem c15_keys_distinct (m : List (Nat × Entry)) (k : Nat) (e : Entry) (h : WF m) : WF (put m k e) ∧ WF (erase m k) :=
  ⟨WF_put m k e h, WF_erase m k h⟩

/-- the 7-bit hash fragment never equals the empty-slot marker 0x80 -/
theorem c15_h2_lt_empty (h : BitVec 64) : (Gen.Swar.h2 h).toNat < Gen.Swar.emptyMetaSlot.toNat := by
  unfold Gen.Swar.h2 Gen.Swar.emptyMetaSlot
  simp only [BitVec.toNat_setWidth, BitVec.toNat_and, BitVec.toNat_ofNat]
  have h1 : h.toNat &&& 127 ≤ 127 := Nat.and_le_right
  have h2 : (127 : Nat) % 2 ^ 64 = 127 := by decide
  rw [h2]
  have h3 : (h.toNat &&& 127) % 2 ^ 8 = h.toNat &&& 127 := Nat.mod_eq_of_lt (by omega)
  rw [h3]
  have h4 : (128 : Nat) % 2 ^ 8 = 128 := by decide
  omega

/-- an empty table's meta word is the empty marker in every byte -/
theorem c15_default_meta : Gen.Swar.defaultMeta = Gen.Swar.broadcast Gen.Swar.emptyMetaSlot := by decide

/-- only the five slot bytes take part in a lookup -/
theorem c15_meta_mask : Gen.Swar.defaultMetaMasked = Gen.Swar.defaultMeta &&& Gen.Swar.metaMask ∧ Gen.Swar.nodesPerMapBucket = 5 := by decide

theorem skeleton_Map_Get : Gen.Skeleton.Map_Get = Conc.TableSkeleton.Map_Get := by decide

theorem skeleton_Map_Compute : Gen.Skeleton.Map_Compute = Conc.TableSkeleton.Map_Compute := by decide

theorem skeleton_Map_resize : Gen.Skeleton.Map_resize = Conc.TableSkeleton.Map_resize := by decide

theorem skeleton_Map_waitForResize : Gen.Skeleton.Map_waitForResize = Conc.TableSkeleton.Map_waitForResize := by decide

theorem skeleton_Map_Range : Gen.Skeleton.Map_Range = Conc.TableSkeleton.Map_Range := by decide

theorem skeleton_Map_copyBucket : Gen.Skeleton.Map_copyBucket = Conc.TableSkeleton.Map_copyBucket := by decide

theorem skeleton_Map_copyBucketWithDestLock : Gen.Skeleton.Map_copyBucketWithDestLock = Conc.TableSkeleton.Map_copyBucketWithDestLock := by decide

theorem skeleton_Map_newerTableExists : Gen.Skeleton.Map_newerTableExists = Conc.TableSkeleton.Map_newerTableExists := by decide

theorem skeleton_Map_resizeInProgress : Gen.Skeleton.Map_resizeInProgress = Conc.TableSkeleton.Map_resizeInProgress := by decide

/-! ### Non-vacuity -/
example : (Gen.Swar.h2 0xffffffffffffffff).toNat = 127 := by decide
example : find (put [] 3 { val := 1, weight := 1, exp := 0, ref := 0 }) 3 ≠ none := by decide

end OtterVerif.Props.C15
