/-
  C04 / C05 / C07 — the policy model's arithmetic and decisions are the code's.

  Gen.Policy is regenerated from policy.go on every run (every condition, counter update and assignment of its functions
  that lies in the integer/boolean subset).  The theorems below state, for every policy state, that the model functions the
  bound / bookkeeping / justification theorems are about (Impl.Policy.add, update, discount, reorderProbation, the guards of
  the two eviction loops) are exactly the model's control structure with each decision and each counter update replaced by
  the regenerated one.  Pin.Policy additionally records the meaning and the operand names of every generated definition.
-/
import OtterVerif.Proofs.PolicyGen
import OtterVerif.Pin.Policy
import OtterVerif.Gen.NodeSites

namespace OtterVerif.Props.C04Gen
open OtterVerif OtterVerif.Impl.Policy OtterVerif.Proofs.PolicyGen

/-- add: weight accounted iff alive; sketch initialised from half of the maximum on; an arrival heavier than the maximum is
    evicted on the spot, one heavier than the window goes to the window's front -/
theorem c04_gen_add (p : Policy) (id : Nat) : addG p id = add p id := addG_eq p id

/-- update: which queue's counter gets the new weight, when the replacement is evicted because it alone exceeds the maximum -/
theorem c04_gen_update (p : Policy) (id old : Nat) : updateG p id old = update p id old := updateG_eq p id old

/-- discount: the weight leaves the counter of the queue the node is in, and the total -/
theorem c04_gen_discount (p : Policy) (id : Nat) : discountG p id = discount p id := discountG_eq p id

theorem c04_gen_reorderProbation (p : Policy) (id : Nat) : reorderProbationG p id = reorderProbation p id :=
  reorderProbationG_eq p id

/-- the eviction loops run while `windowMaximum < windowWeightedSize` resp. `maximum < weightedSize` (strictly), skip entries
    of weight zero, evict a candidate that alone exceeds the maximum without asking the sketch, and walk the victim queues
    probation → protected → window -/
theorem c04_gen_eviction_guards (p : Policy) :
    Gen.Policy.evictFromWindow_c0 p.windowMaximum p.windowWeightedSize = BitVec.ult p.windowMaximum p.windowWeightedSize ∧
    Gen.Policy.evictFromMain_c0 p.maximum p.weightedSize = BitVec.ult p.maximum p.weightedSize ∧
    (∀ w : Nat, w < 2 ^ 64 → Gen.Policy.evictFromWindow_c2 (w64 w) = (w != 0)) ∧
    (∀ w : BitVec 32, Gen.Policy.evictFromMain_c12 w p.maximum = BitVec.ult p.maximum (w64 w.toNat)) ∧
    (Gen.Policy.evictFromMain_a0 = 1#8 ∧ Gen.Policy.evictFromMain_a1 = 1#8) ∧
    (∀ q : BitVec 8, Gen.Policy.evictFromMain_c3 q = (q == 1#8) ∧ Gen.Policy.evictFromMain_c4 q = (q == 2#8)) :=
  ⟨evictFromWindow_guard p, evictFromMain_guard p, evictFromWindow_skip, evictFromMain_oversized p,
   evictFromMain_queues.1, evictFromMain_queues.2⟩

/-- admission (C18): strictly greater estimate; else, from the hash-flooding threshold 6 on, one random draw in 128 -/
theorem c18_gen_admit (p : Policy) (ck vk : Nat) :
    (Impl.Policy.admit p ck vk).2 =
      if Gen.Policy.admit_c0 (p.freq ck) (p.freq vk) then Gen.Policy.admit_r0
      else if Gen.Policy.admit_c1 (p.freq ck) then
        (match p.rands with
         | r :: _ => Gen.Policy.admit_r1 (BitVec.ofNat 32 r)
         | [] => false)
      else Gen.Policy.admit_r2 := admit_gen p ck vk

/-- every generated definition of policy.go still mentions the operands it mentioned, and every function still has the
    number of decisions and updates it had, when the model was written -/
theorem c04_gen_operands :
    Gen.Policy.siteParams.lookup "admit_c0" = some ["candidateFreq", "victimFreq"] ∧
    Gen.Policy.siteParams.lookup "update_c10" = some ["nodeWeight", "p_maximum"] ∧
    (Gen.Policy.shape.lookup "evictFromMain").map (List.take 3) = some [14, 0, 29] := by
  rw [Pin.Policy.siteParams_pin, Pin.Policy.shape_pin]
  refine ⟨by rfl, by rfl, by rfl⟩

/-- the ten node layouts that carry a life-cycle state encode it the same way (0 alive, 1 retired, 2 dead) — what Impl.Policy's
    `NState` and the table's makeRetired / makeDead rely on; the two layouts of caches without maintenance (B, BR) are always alive -/
theorem c05_gen_node_states (s : BitVec 32) :
    (Gen.NodeSites.BE_IsAlive_r0 s = (s == 0#32) ∧ Gen.NodeSites.BE_IsRetired_r0 s = (s == 1#32) ∧ Gen.NodeSites.BE_IsDead_r0 s = (s == 2#32)) ∧
    (Gen.NodeSites.BER_IsAlive_r0 s = (s == 0#32) ∧ Gen.NodeSites.BER_IsRetired_r0 s = (s == 1#32) ∧ Gen.NodeSites.BER_IsDead_r0 s = (s == 2#32)) ∧
    (Gen.NodeSites.BERW_IsAlive_r0 s = (s == 0#32) ∧ Gen.NodeSites.BERW_IsRetired_r0 s = (s == 1#32) ∧ Gen.NodeSites.BERW_IsDead_r0 s = (s == 2#32)) ∧
    (Gen.NodeSites.BEW_IsAlive_r0 s = (s == 0#32) ∧ Gen.NodeSites.BEW_IsRetired_r0 s = (s == 1#32) ∧ Gen.NodeSites.BEW_IsDead_r0 s = (s == 2#32)) ∧
    (Gen.NodeSites.BRW_IsAlive_r0 s = (s == 0#32) ∧ Gen.NodeSites.BRW_IsRetired_r0 s = (s == 1#32) ∧ Gen.NodeSites.BRW_IsDead_r0 s = (s == 2#32)) ∧
    (Gen.NodeSites.BS_IsAlive_r0 s = (s == 0#32) ∧ Gen.NodeSites.BS_IsRetired_r0 s = (s == 1#32) ∧ Gen.NodeSites.BS_IsDead_r0 s = (s == 2#32)) ∧
    (Gen.NodeSites.BSE_IsAlive_r0 s = (s == 0#32) ∧ Gen.NodeSites.BSE_IsRetired_r0 s = (s == 1#32) ∧ Gen.NodeSites.BSE_IsDead_r0 s = (s == 2#32)) ∧
    (Gen.NodeSites.BSER_IsAlive_r0 s = (s == 0#32) ∧ Gen.NodeSites.BSER_IsRetired_r0 s = (s == 1#32) ∧ Gen.NodeSites.BSER_IsDead_r0 s = (s == 2#32)) ∧
    (Gen.NodeSites.BSR_IsAlive_r0 s = (s == 0#32) ∧ Gen.NodeSites.BSR_IsRetired_r0 s = (s == 1#32) ∧ Gen.NodeSites.BSR_IsDead_r0 s = (s == 2#32)) ∧
    (Gen.NodeSites.BW_IsAlive_r0 s = (s == 0#32) ∧ Gen.NodeSites.BW_IsRetired_r0 s = (s == 1#32) ∧ Gen.NodeSites.BW_IsDead_r0 s = (s == 2#32)) ∧
    Gen.NodeSites.B_IsAlive_r0 = true ∧ Gen.NodeSites.BR_IsAlive_r0 = true :=
  ⟨⟨rfl, rfl, rfl⟩, ⟨rfl, rfl, rfl⟩, ⟨rfl, rfl, rfl⟩, ⟨rfl, rfl, rfl⟩, ⟨rfl, rfl, rfl⟩, ⟨rfl, rfl, rfl⟩, ⟨rfl, rfl, rfl⟩, ⟨rfl, rfl, rfl⟩, ⟨rfl, rfl, rfl⟩, ⟨rfl, rfl, rfl⟩, rfl, rfl⟩

/-! non-vacuity: a policy at its maximum where the guard is true -/
example : Gen.Policy.evictFromMain_c0 (3#64) (4#64) = true := by decide

end OtterVerif.Props.C04Gen
