/-
  C09 — A load never overwrites a newer write or invalidation.

  Specification level (every state; Props.C10): a superseded call installs nothing; every write / invalidation / eviction
  unregisters the call in flight; a write made while a load is running wins.
  All interleavings (Conc.Flight, one key, unboundedly many callers / writers / call objects): a call object whose record
  was removed from the call table by a Set / Invalidate / Compute / eviction (`kill`, executed inside the same bucket
  critical section as the write) never writes its result into the cache, however late its loader returns and whatever
  happens in between — the result is written only in the step that finds the call still registered (afterDeleteCall's
  `isCorrectCall`, i.e. deleteCall's compare-and-delete inside the cache bucket's critical section).
  Tie: skeletons of afterDeleteCall / deleteCall / delete / atomicSet / atomicDelete (Props.C08), SEQ load profile with writes
  nested inside loaders and between loader return and installation (clock hook), CONC-flight supersede rounds.
-/
import OtterVerif.Props.C10
import OtterVerif.Conc.Flight
import OtterVerif.Conc.EventsSkeleton
import OtterVerif.Conc.FlightSkeleton
import OtterVerif.Gen.Skeleton

namespace OtterVerif.Props.C09
open OtterVerif.Conc.Flight

/-- a call removed by a write / invalidation / eviction never writes its result -/
theorem c09_superseded_load_never_installs {s : St} (h : Reach s) (i : Nat) (ho : s.orphaned i = true) :
    s.installed i = false := by
  cases hi : s.installed i with
  | false => rfl
  | true =>
    have := ((reach_inv2 h).inst i hi).1
    rw [ho] at this; cases this

/-- only a load that has finished writes a result, and the registered call is never one that a writer removed -/
theorem c09_install_needs_finished_load {s : St} (h : Reach s) (i : Nat) (hi : s.installed i = true) :
    s.phase i = .finishing ∨ s.phase i = .done := by
  have := (reach_inv2 h).inst i hi
  cases hp : s.phase i with
  | fresh => exact absurd hp this.2.2
  | loading => exact absurd hp this.2.1
  | finishing => exact Or.inl rfl
  | done => exact Or.inr rfl

/-- the step in which a result is written is exactly the one that finds the call still registered -/
theorem c09_install_iff_still_registered (s : St) (i : Nat) (hp : s.phase i = .loading) (hn : s.installed i = false) :
    ∀ s', s' = { s with cur := if s.cur = some i then none else s.cur, phase := upd s.phase i .finishing,
                        installed := if s.cur = some i then upd s.installed i true else s.installed } →
      (s'.installed i = true ↔ s.cur = some i) := by
  intro s' hs'
  subst hs'
  by_cases hc : s.cur = some i
  · simp [hc]
  · simp [hc, hn]

/-- non-vacuity: load 0 is superseded by an invalidation, load 1 installs -/
theorem c09_example : ∃ s, Reach s ∧ s.orphaned 0 = true ∧ s.installed 0 = false ∧ s.installed 1 = true := by
  refine ⟨_, Reach.step (Reach.step (Reach.step (Reach.step (Reach.step Reach.init (Step.create {} rfl)) (Step.kill _))
    (Step.create _ rfl)) (Step.unregister _ 0 (by simp [upd]))) (Step.unregister _ 1 (by simp [upd])), ?_, ?_, ?_⟩
  · simp [upd]
  · simp [upd]
  · simp [upd]

/-! ### The model's `kill` step is the code's: EVERY write, invalidation and removal unregisters the key's call, unconditionally
     (skeletons regenerated from /repo on every run: `call delete` under `if cl==nil` only, before anything else) -/
theorem skeleton_cache_atomicSet : Gen.Skeleton.cache_atomicSet = Conc.EventsSkeleton.cache_atomicSet := by decide
theorem skeleton_cache_atomicDelete : Gen.Skeleton.cache_atomicDelete = Conc.EventsSkeleton.cache_atomicDelete := by decide
theorem skeleton_cache_deleteNodeFromMap : Gen.Skeleton.cache_deleteNodeFromMap = Conc.EventsSkeleton.cache_deleteNodeFromMap := by decide
theorem skeleton_group_delete : Gen.Skeleton.group_delete = Conc.FlightSkeleton.group_delete := by decide
theorem skeleton_group_deleteCall : Gen.Skeleton.group_deleteCall = Conc.FlightSkeleton.group_deleteCall := by decide
theorem skeleton_cache_afterDeleteCall : Gen.Skeleton.cache_afterDeleteCall = Conc.FlightSkeleton.cache_afterDeleteCall := by decide

end OtterVerif.Props.C09
