/-
  C12 — Expiration and refresh deadlines are computed exactly and without overflow.

  Part 1 (regenerated tie): the deadline expression at each of the four call sites of
  cache_impl.go (`Gen.Deadline.*`, translated from the source on every run) equals the
  specification `satAdd now d` for EVERY 64-bit clock value (negative origins included) and
  EVERY duration in [1, MaxInt64]; hence a positive duration never yields a deadline at or before
  `now` (unless the clock itself sits at MaxInt64).
  Part 2 (Spec): every write/read rule of the abstract map stores `satAdd now d` for the
  duration the calculator returned, and visibility is exactly `now < expiresAt`.
-/
import OtterVerif.Gen.Deadline
import OtterVerif.Spec.Core

namespace OtterVerif.Props.C12
open OtterVerif OtterVerif.Spec

/-- `x` is a value of Go type int64 -/
def I64 (x : Int) : Prop := minI64 ≤ x ∧ x ≤ maxI64

theorem deadlineAfter_exact (now d : Int) (hn : I64 now) (hd1 : 1 ≤ d) (hd : I64 d) :
    Gen.Deadline.h_deadlineAfter now d = satAdd now d := by
  unfold Gen.Deadline.h_deadlineAfter satAdd wrapS maxI64
  unfold I64 minI64 maxI64 at *
  simp only [decide_eq_true_eq, Nat.reducePow, Nat.reduceSub, Int.reducePow]
  split <;> split <;> omega

/-- the four sites, as extracted from the source -/
theorem c12_site_afterRead (now d : Int) (hn : I64 now) (hd1 : 1 ≤ d) (hd : I64 d) :
    Gen.Deadline.setExpiresAfterRead_CASExpiresAt now d = satAdd now d := by
  unfold Gen.Deadline.setExpiresAfterRead_CASExpiresAt; exact deadlineAfter_exact now d hn hd1 hd

theorem c12_site_afterWrite (now d : Int) (hn : I64 now) (hd1 : 1 ≤ d) (hd : I64 d) :
    Gen.Deadline.calcExpiresAtAfterWrite_SetExpiresAt now d = satAdd now d := by
  unfold Gen.Deadline.calcExpiresAtAfterWrite_SetExpiresAt; exact deadlineAfter_exact now d hn hd1 hd

theorem c12_site_refreshAfterWrite (now d : Int) (hn : I64 now) (hd1 : 1 ≤ d) (hd : I64 d) :
    Gen.Deadline.calcRefreshableAt_SetRefreshableAt now d = satAdd now d := by
  unfold Gen.Deadline.calcRefreshableAt_SetRefreshableAt; exact deadlineAfter_exact now d hn hd1 hd

theorem c12_site_setRefreshableAfter (now d : Int) (hn : I64 now) (hd1 : 1 ≤ d) (hd : I64 d) :
    Gen.Deadline.SetRefreshableAfter_SetRefreshableAt now d = satAdd now d := by
  unfold Gen.Deadline.SetRefreshableAfter_SetRefreshableAt; exact deadlineAfter_exact now d hn hd1 hd

/-- exactly these four sites exist: a new site must get its own theorem -/
theorem c12_sites_complete :
    Gen.Deadline.siteNames.map (·.1) =
      ["setExpiresAfterRead_CASExpiresAt", "SetRefreshableAfter_SetRefreshableAt",
       "calcExpiresAtAfterWrite_SetExpiresAt", "calcRefreshableAt_SetRefreshableAt"] := by decide

/-- the specification value never lies in the past: "effectively never" instead of wrapping -/
theorem satAdd_future (now d : Int) (hd : 1 ≤ d) (hn : now < maxI64) : now < satAdd now d := by
  unfold satAdd maxI64 at *; split <;> omega

theorem satAdd_le_max (now d : Int) : satAdd now d ≤ maxI64 := by
  unfold satAdd maxI64 at *; split <;> omega

theorem satAdd_exact (now d : Int) (h : now + d ≤ maxI64) : satAdd now d = now + d := by
  unfold satAdd; split <;> omega

/-- a positive duration at any of the sites never produces an already-expired entry -/
theorem c12_never_born_expired (now d : Int) (hn : I64 now) (hd1 : 1 ≤ d) (hd : I64 d) (hlt : now < maxI64) :
    now < Gen.Deadline.calcExpiresAtAfterWrite_SetExpiresAt now d := by
  rw [c12_site_afterWrite now d hn hd1 hd]; exact satAdd_future _ _ hd1 hlt

/-- the result is again an int64 (no wrap-around is ever stored) -/
theorem c12_site_in_range (now d : Int) (hn : I64 now) (hd1 : 1 ≤ d) (hd : I64 d) :
    I64 (Gen.Deadline.calcExpiresAtAfterWrite_SetExpiresAt now d) := by
  rw [c12_site_afterWrite now d hn hd1 hd]
  unfold I64 satAdd minI64 maxI64 at *; split <;> omega

/-! ### Spec level: deadlines per calculator kind -/

theorem spec_create_deadline (c : Cfg) (now : Int) (k : Nat) :
    expAfterWrite c now k none =
      match c.expiry with
      | .none => maxI64
      | .creating d | .writing d | .accessing d => satAdd now d
      | .custom => if c.expCreate.get k > 0 then satAdd now (c.expCreate.get k) else maxI64 := by
  unfold expAfterWrite; cases c.expiry <;> rfl

theorem spec_update_deadline_creating (c : Cfg) (now : Int) (k : Nat) (o : Entry) (d : Int)
    (h : c.expiry = .creating d) : expAfterWrite c now k (some o) = o.exp := by
  unfold expAfterWrite; rw [h]

theorem spec_update_deadline_writing (c : Cfg) (now : Int) (k : Nat) (o : Option Entry) (d : Int)
    (h : c.expiry = .writing d) : expAfterWrite c now k o = satAdd now d := by
  unfold expAfterWrite; rw [h]

theorem spec_read_deadline_accessing (c : Cfg) (now : Int) (k : Nat) (e : Entry) (d : Int)
    (h : c.expiry = .accessing d) : expAfterRead c now k e = satAdd now d := by
  unfold expAfterRead; rw [h]

theorem spec_read_deadline_keep (c : Cfg) (now : Int) (k : Nat) (e : Entry)
    (h : ∀ d, c.expiry ≠ .accessing d) (h2 : c.expiry ≠ .custom) : expAfterRead c now k e = e.exp := by
  unfold expAfterRead
  split
  · rename_i d heq; exact absurd heq (h d)
  · rename_i heq; exact absurd heq h2
  · rfl

/-- visibility is exactly "clock before the expiration time" -/
theorem spec_visible_iff (s : State) (k : Nat) (e : Entry) (h : s.phys k = some e) :
    (s.live k).isSome = true ↔ s.now < e.exp := by
  unfold State.live Entry.liveAt
  rw [h]
  simp [Option.filter]

/-- SetExpiresAfter override: the deadline becomes exactly now + d (saturating) -/
theorem spec_setExpiresAfter_exact (c : Cfg) (s : State) (k : Nat) (d : Int) (e : Entry)
    (hc : c.withExpiry = true) (hd : 0 < d) (hl : s.live k = some e) :
    ((setExpiresAfter c s k d).phys k).map (·.exp) = some (satAdd s.now d) := by
  unfold setExpiresAfter
  simp [hc, hd, hl, State.phys, find, put]

/-! ### Non-vacuity -/
example : I64 1800000000000000000 ∧ I64 9223372036854775807 ∧
    Gen.Deadline.calcExpiresAtAfterWrite_SetExpiresAt 1800000000000000000 9223372036854775807 = maxI64 := by
  refine ⟨by unfold I64 minI64 maxI64; omega, by unfold I64 minI64 maxI64; omega, ?_⟩
  rw [c12_site_afterWrite _ _ (by unfold I64 minI64 maxI64; omega) (by omega) (by unfold I64 minI64 maxI64; omega)]
  unfold satAdd maxI64; simp
example : Gen.Deadline.calcExpiresAtAfterWrite_SetExpiresAt (-5000) 100 = -4900 := by
  rw [c12_site_afterWrite _ _ (by unfold I64 minI64 maxI64; omega) (by omega) (by unfold I64 minI64 maxI64; omega)]
  unfold satAdd maxI64; simp

end OtterVerif.Props.C12
