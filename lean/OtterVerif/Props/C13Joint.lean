/-
  C13 / C05 — the timer wheel and the table, jointly, over every history of insertions, removals, deadline changes and
  maintenance runs with a monotone clock.

  Proofs.WheelJoint: the wheel loses nothing — Add schedules the node and keeps every other node scheduled, Delete unschedules
  only its node, DeleteExpired(T) keeps a scheduled node scheduled (with its deadline) or hands it to the expiration callback.
  Hence: every mapped node with a deadline is scheduled at every point (C05: no entry present but unknown to the expiration
  policy), and after maintenance at T no mapped node has both its deadline and its scheduling a full tick behind T (C13).
-/
import OtterVerif.Proofs.WheelJoint

namespace OtterVerif.Props.C13Joint
open OtterVerif OtterVerif.Impl.Wheel

structure WState where
  w : Wheel := {}
  live : List (Nat × Nat) := []

/-- one step of the cache as the table and the timer wheel see it (preconditions: an identity is used once, deadlines and
    clock readings are 64-bit values, the clock does not move backwards) -/
inductive WStep : WState → WState → Prop
  /-- a new or replacing node n with deadline d (its write event replayed) -/
  | insert (s s' : WState) (n d : Nat) : d < two64 → n ∉ s.live.map (·.1) →
      s'.w = add s.w n d → s'.live = (n, d) :: s.live → WStep s s'
  /-- node n replaced, invalidated or evicted for size -/
  | remove (s s' : WState) (n : Nat) : s'.w = delete s.w n → s'.live = s.live.filter (·.1 != n) → WStep s s'
  /-- a read moved the deadline of node n: the code unlinks and re-schedules it -/
  | move (s s' : WState) (n d : Nat) : d < two64 →
      s'.w = add (delete s.w n) n d → s'.live = (n, d) :: s.live.filter (·.1 != n) → WStep s s'
  /-- maintenance at clock reading T -/
  | sweep (s s' : WState) (T : Nat) : s.w.time ≤ T → T < two64 →
      s'.w = (deleteExpired s.w T).1 → s'.live = sweepLive s.w T s.live → WStep s s'

inductive WRun : WState → WState → Prop
  | done (s : WState) : WRun s s
  | step {s s' s'' : WState} : WStep s s' → WRun s' s'' → WRun s s''

theorem wstep_inv {s s' : WState} (st : WStep s s') (h : WJ s.w s.live) : WJ s'.w s'.live := by
  cases st with
  | insert n d hd hn e1 e2 => rw [e1, e2]; exact wj_insert h n d hd hn
  | remove n e1 e2 => rw [e1, e2]; exact wj_remove h n
  | move n d hd e1 e2 =>
    rw [e1, e2]
    refine wj_insert (wj_remove h n) n d hd ?_
    intro hm
    obtain ⟨p, hp, e⟩ := List.mem_map.mp hm
    have := (List.mem_filter.mp hp).2
    simp [e] at this
  | sweep T hle hT e1 e2 => rw [e1, e2]; exact wj_sweep h T hle hT

theorem wrun_inv {s s' : WState} (r : WRun s s') (h : WJ s.w s.live) : WJ s'.w s'.live := by
  induction r with
  | done s => exact h
  | step st _ ih => exact ih (wstep_inv st h)

/-- C05: **every mapped node is scheduled, after every history** from the empty cache -/
theorem c05_mapped_is_scheduled {s : WState} (r : WRun {} s) : ∀ p ∈ s.live, Has s.w p.1 p.2 :=
  (wrun_inv r wj_init).sched

/-- C13: **after maintenance at T, following any history**: a node that is still mapped is scheduled with its deadline in a
    bucket that is correct for T; its effective time e (the later of the deadline and the wheel time at which it was scheduled)
    satisfies T's tick ≤ e's tick.  Contrapositive: an entry whose deadline and whose scheduling both lie a full tick before T
    has been handed to the expiration callback and unlinked -/
theorem c13_after_maintenance {s : WState} (r : WRun {} s) (T : Nat) (hle : s.w.time ≤ T) (hT : T < two64)
    (p : Nat × Nat) (hp : p ∈ sweepLive s.w T s.live) :
    ∃ x : Ent, x.id = p.1 ∧ x.d = p.2 ∧ x.d ≤ x.e ∧ T >>> shift 0 ≤ x.e >>> shift 0 :=
  c13_mapped_not_overdue (wrun_inv r wj_init) T hle hT p hp

/-- C13: the sweep loses nothing: what it does not keep scheduled it hands to the expiration callback -/
theorem c13_sweep_loses_nothing (w : Wheel) (T : Nat) (hr : WReach w) (hle : w.time ≤ T) (hT : T < two64) (n d : Nat)
    (h : Has w n d) : Has (deleteExpired w T).1 n d ∨ n ∈ (deleteExpired w T).2 :=
  deleteExpired_keep w T hT hle (wreach_inv hr).2 n d h

/-! ### non-vacuity: two timers (one second, one hour), a jump of three seconds -/
def t0 : Nat := wheelTime 0
def s2 : WState := { w := add (add {} 1 (t0 + 1000000000)) 2 (t0 + 3600000000000),
                     live := [(2, t0 + 3600000000000), (1, t0 + 1000000000)] }
example : WRun {} s2 :=
  WRun.step (WStep.insert {} { w := add {} 1 (t0 + 1000000000), live := [(1, t0 + 1000000000)] } 1 (t0 + 1000000000)
      (by decide) (by decide) rfl rfl)
    (WRun.step (WStep.insert _ s2 2 (t0 + 3600000000000) (by decide) (by decide) rfl rfl) (WRun.done _))
example : (sweepLive s2.w (t0 + 3000000000) s2.live).map (·.1) = [2] := by decide

end OtterVerif.Props.C13Joint
