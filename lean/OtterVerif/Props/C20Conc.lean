/-
  C20 (concurrent part) — the striped counter behind every statistic, for every interleaving (Conc.Adder).

  Adds from any number of goroutines and Value() calls overlapping them: nothing added is lost or counted twice (the stripes
  always sum to the total), and a Value() returns a number between the total when it started and the total when it finished;
  with no Add in progress it is exact.  Tie: skeleton equality of Adder.Add / Adder.Value (regenerated on every run) and
  the statistics tallies of CONC-flight / CONC-lin on the real cache.
-/
import OtterVerif.Conc.Adder
import OtterVerif.Conc.AdderSkeleton
import OtterVerif.Gen.Skeleton
import OtterVerif.Proofs.AdderGen
import OtterVerif.Pin.AdderSites

namespace OtterVerif.Props.C20Conc
open OtterVerif

/-- nothing lost, nothing twice: the stripes sum to everything that was added -/
theorem c20_conc_stripes_sum_to_total {n : Nat} {s : Conc.Adder.St} (h : Conc.Adder.Reach n s) :
    s.total = Conc.Adder.sumTo s.stripe n := Conc.Adder.total_is_sum h

/-- a Value() overlapping Adds returns a number between the total at its start and the total at its end -/
theorem c20_conc_value_between {n : Nat} {s : Conc.Adder.St} (h : Conc.Adder.Reach n s) {r acc : Nat}
    (hr : s.rd r = some (n, acc)) : s.lo r ≤ acc ∧ acc ≤ s.total := Conc.Adder.value_between h hr

/-- with no Add between its start and its end, Value() is exact -/
theorem c20_conc_value_exact_when_quiet {n : Nat} {s : Conc.Adder.St} (h : Conc.Adder.Reach n s) {r acc : Nat}
    (hr : s.rd r = some (n, acc)) (hq : s.lo r = s.total) : acc = s.total := by
  have := Conc.Adder.value_between h hr
  omega

/-- non-vacuity: two stripes, Value() reads stripe 0, an Add lands on stripe 0 behind it and one on stripe 1 ahead of it:
    the result 5 lies strictly between the totals 0 (start) and 12 (end) -/
theorem c20_conc_example : ∃ s, Conc.Adder.Reach 2 s ∧ s.rd 0 = some (2, 5) ∧ s.lo 0 = 0 ∧ s.total = 12 := by
  have r0 := Conc.Adder.Reach.init (n := 2)
  have r1 := Conc.Adder.Reach.step r0 (Conc.Adder.Step.rStart _ 0 rfl)
  have r2 := Conc.Adder.Reach.step r1 (Conc.Adder.Step.rRead _ 0 0 0 rfl (by decide))
  have r3 := Conc.Adder.Reach.step r2 (Conc.Adder.Step.add _ 0 7 (by decide))
  have r4 := Conc.Adder.Reach.step r3 (Conc.Adder.Step.add _ 1 5 (by decide))
  have r5 := Conc.Adder.Reach.step r4 (Conc.Adder.Step.rRead _ 0 1 0 rfl (by decide))
  exact ⟨_, r5, rfl, rfl, rfl⟩

theorem skeleton_Adder_Add : Gen.Skeleton.Adder_Add = Conc.AdderSkeleton.Adder_Add := by decide
theorem skeleton_Adder_Value : Gen.Skeleton.Adder_Value = Conc.AdderSkeleton.Adder_Value := by decide

/-! ### the striped counter's arithmetic, regenerated from internal/xsync/adder.go -/

/-- an Add always lands on one of the stripes Value() sums: the index `idx & (nstripes - 1)` is below nstripes (a power of two) -/
theorem c20_gen_stripe_in_range (n idx : BitVec 32) (k : Nat) (hk : k ≤ 31) (hn : n.toNat = 2 ^ k) :
    (Gen.AdderSites.Adder_Add_x0 (Gen.AdderSites.NewAdder_x0 n) idx).toNat < n.toNat :=
  (Proofs.AdderGen.stripe_in_range n idx k hk hn).2

/-- an Add installs `cnt + delta`; Value starts from 0, visits every stripe below len(stripes) once and adds its load -/
theorem c20_gen_add_and_value (cnt delta i len v x : BitVec 64) (hi : i.toNat < 2 ^ 62) (hl : len.toNat < 2 ^ 62) :
    Gen.AdderSites.Adder_Add_x1 cnt delta = cnt + delta ∧
    Gen.AdderSites.Adder_Value_a0 = 0#64 ∧ Gen.AdderSites.Adder_Value_a1 = 0#64 ∧
    Gen.AdderSites.Adder_Value_c0 i len = decide (i.toNat < len.toNat) ∧
    Gen.AdderSites.Adder_Value_u0 i = i + 1#64 ∧ Gen.AdderSites.Adder_Value_u1 x v = v + x :=
  ⟨rfl, (Proofs.AdderGen.value_walk i len v x hi hl).1, (Proofs.AdderGen.value_walk i len v x hi hl).2.1,
   (Proofs.AdderGen.value_walk i len v x hi hl).2.2.1, (Proofs.AdderGen.value_walk i len v x hi hl).2.2.2.1,
   (Proofs.AdderGen.value_walk i len v x hi hl).2.2.2.2.1⟩


end OtterVerif.Props.C20Conc
