/-
  C04 / C05 / C07 — table and size policy, jointly, over every single-goroutine history (same-goroutine executor).

  Proofs.CacheJoint: a joint step = the table's change (node created alive / replaced or removed node retired), the replay of
  the write event on Impl.Policy, the eviction pass, the table unlinking what the eviction callback was called for.  For every
  sequence of such steps from the empty cache: a node is mapped exactly while it is introduced and alive, the policy state is
  reachable and quiescent (`JInv`) — so the hypothesis `Agree` of Props/C04Table is discharged for sequential use — and
  WeightedSize is the sum of the weights of exactly the mapped nodes; after every operation that sum is within the maximum or
  every mapped entry weighs nothing.
-/
import OtterVerif.Proofs.CacheJoint
import OtterVerif.Proofs.PolicyFuel
import OtterVerif.Proofs.PolicyEvicted

namespace OtterVerif.Props.C04Joint
open OtterVerif OtterVerif.Impl.Policy OtterVerif.Proofs.CacheAgree OtterVerif.Proofs.CacheJoint

/-- C05: **mapped ⇔ introduced ∧ alive, after every sequential history** (and the policy state is reachable and quiescent) -/
theorem c05_agreement_is_invariant (p0 : Policy)
    (h0 : p0.window = [] ∧ p0.probation = [] ∧ p0.prot = [] ∧ p0.weightedSize = 0) (ops : List JOp) :
    let s := ops.foldl jstep { S := [], p := p0, live := [] }; JInv s.S s.p s.live :=
  jrun_inv p0 h0 ops

/-- C05: the policy tracks exactly the mapped entries (each once) after every sequential history -/
theorem c05_tracked_eq_mapped (p0 : Policy)
    (h0 : p0.window = [] ∧ p0.probation = [] ∧ p0.prot = [] ∧ p0.weightedSize = 0) (ops : List JOp) (id : Nat) :
    let s := ops.foldl jstep { S := [], p := p0, live := [] }; Linked s.p id ↔ id ∈ s.live := by
  intro s
  have h := jrun_inv p0 h0 ops
  rw [h.alive id, linked_iff_all]
  constructor
  · intro hl
    have hnd := (reach_inv h.reach).a id hl
    refine ⟨hnd.1, ?_⟩
    cases hst : (s.p.node id).st with
    | alive => rfl
    | retired =>
      exact absurd (h.quiet id hnd.1 (by rw [hst]; exact fun e => NState.noConfusion e)) (by rw [hst]; exact fun e => NState.noConfusion e)
    | dead => exact absurd hst hnd.2
  · intro ⟨hs, hal⟩; exact (reach_inv h.reach).b id hs hal

/-- C04 / C05: WeightedSize = Σ weights of exactly the mapped nodes (uint64) after every sequential history -/
theorem c04_weightedSize_is_mapped_weight (p0 : Policy)
    (h0 : p0.window = [] ∧ p0.probation = [] ∧ p0.prot = [] ∧ p0.weightedSize = 0) (ops : List JOp) :
    let s := ops.foldl jstep { S := [], p := p0, live := [] }; s.p.weightedSize = wsum s.p s.live :=
  jrun_weight p0 h0 ops

/-- C04: **the bound after every operation** (every operation that ends with an eviction pass; the removal of an expired node by
    the timer wheel, `.expire`, runs none of its own — it only shrinks the mapped set and is followed by the pass of the same
    maintenance run): one joint step from a state satisfying the invariant either is not a step of the
    cache (precondition failed: state unchanged) or ends with the mapped weight within the maximum, or with only weightless
    entries mapped -/
theorem c04_bound_after_every_operation (s : JState) (op : JOp) (h : JInv s.S s.p s.live)
    (hop : ∀ old, op ≠ .expire old) :
    jstep s op = s ∨ (jstep s op).p.weightedSize.toNat ≤ (jstep s op).p.maximum.toNat ∨
      (∀ id ∈ (jstep s op).live, ((jstep s op).p.node id).weight = 0) := by
  have hnext := jstep_inv s op h
  -- every real step ends with an eviction pass over a reachable state
  have key : ∀ (S : List Nat) (q : Policy) (l : List Nat), Reach S q → JInv S (evictNodes q) l →
      (evictNodes q).weightedSize.toNat ≤ (evictNodes q).maximum.toNat ∨ (∀ id ∈ l, ((evictNodes q).node id).weight = 0) := by
    intro S q l hr hj
    rcases bound_evictNodes (reach_inv hr) (evictNodes_never_runs_out (reach_inv hr)) with hb | hz
    · left; simpa [BitVec.ult] using hb
    · right
      intro id hid
      have := (hj.alive id).mp hid
      exact hz id ((reach_inv hj.reach).b id this.1 this.2)
  cases op with
  | insert id key' w =>
    by_cases hs : id ∈ s.S
    · left; unfold jstep; simp only [hs, ↓reduceIte]
    · right
      unfold jstep at hnext ⊢
      simp only [hs, ↓reduceIte] at hnext ⊢
      exact key _ _ _ (Reach.add id (Reach.mk id key' w .alive h.reach hs) hs) hnext
  | replace id old key' w =>
    by_cases hc : id ∈ s.S ∨ old ∉ s.live
    · left; unfold jstep; simp only [hc, ↓reduceIte]
    · right
      have h1 : id ∉ s.S := fun e => hc (Or.inl e)
      unfold jstep at hnext ⊢
      simp only [hc, ↓reduceIte] at hnext ⊢
      exact key _ _ _ (Reach.update id old (Reach.mk id key' w .alive (Reach.retire old h.reach) h1) h1) hnext
  | remove old =>
    by_cases hc : old ∉ s.live
    · left; unfold jstep; simp only [hc, not_false_eq_true, ↓reduceIte]
    · right
      have h2 : old ∈ s.live := Classical.byContradiction hc
      unfold jstep at hnext ⊢
      simp only [h2, not_true_eq_false, ↓reduceIte] at hnext ⊢
      exact key _ _ _ (Reach.delete old (Reach.retire old h.reach)) hnext
  | expire old => exact absurd rfl (hop old)
  | read id => right; exact key _ _ _ (Reach.access id h.reach) hnext
  | climb => right; exact key _ _ _ (Reach.climb h.reach) hnext
  | setMax m => right; exact key _ _ _ (Reach.setmax m h.reach) hnext

/-- C07 / C04: the policy never changes a node's state except by killing it (add, update, the eviction pass; reads, the hill
    climber and SetMaximum change none) — the fact the joint invariant rests on -/
theorem c05_policy_only_kills {S : List Nat} {p : Policy} (h : Reach S p) (id old : Nat) (hs : id ∉ S) :
    Dn p (add p id) ∧ Dn p (update p id old) ∧ Dn p (evictNodes p) :=
  ⟨dn_add id (reach_inv h), dn_update old (reach_inv h) hs, dn_evictNodes (reach_inv h)⟩

/-- C06 / C07: **what the table unlinks in reaction to the policy was handed to the eviction callback** — in a joint step an
    alive node stops being alive only through `evictNode` (the replaced / removed node was retired by the table before its
    event is replayed): every node `react` drops after an insert, a replacement or a removal is in the policy's callback list -/
theorem c07_reaction_is_callback {S : List Nat} {p : Policy} {live : List Nat} (h : JInv S p live) :
    (∀ id key w, id ∉ S → ∀ x ∈ id :: live,
      x ∉ react (evictNodes (add (mkNode p id key w .alive) id)) (id :: live) →
      x ∈ (evictNodes (add (mkNode p id key w .alive) id)).evicted) ∧
    (∀ id old key w, id ∉ S → old ∈ live → ∀ x ∈ id :: live.filter (· != old),
      x ∉ react (evictNodes (update (mkNode (retire p old) id key w .alive) id old)) (id :: live.filter (· != old)) →
      x ∈ (evictNodes (update (mkNode (retire p old) id key w .alive) id old)).evicted) ∧
    (∀ old, old ∈ live → ∀ x ∈ live.filter (· != old),
      x ∉ react (evictNodes (delete (retire p old) old)) (live.filter (· != old)) →
      x ∈ (evictNodes (delete (retire p old) old)).evicted) :=
  ⟨fun id key w hs x hx hd => jinsert_react h id key w hs x hx hd,
   fun id old key w hs ho x hx hd => jreplace_react h id old key w hs ho x hx hd,
   fun old ho x hx hd => jdelete_react h old ho x hx hd⟩

/-- C07: an alive node stops being alive only through the callback — for the add event, the update event of a retired
    predecessor, and the eviction pass -/
theorem c07_alive_dies_only_by_callback {S : List Nat} {p : Policy} (h : Reach S p) (id old : Nat) (hs : id ∉ S)
    (hna : (p.node old).st ≠ .alive) : Ek p (add p id) ∧ Ek p (update p id old) ∧ Ek p (evictNodes p) :=
  ⟨ek_add id (reach_inv h), ek_update old (reach_inv h) hs hna, ek_evictNodes (reach_inv h)⟩

/-- C06 / C07: the converse of `c07_alive_dies_only_by_callback` — whatever the add event, the update event and the eviction pass put on the callback
    list is dead afterwards (and nodes only die), so a node handed to the callback is never mapped again -/
theorem c07_callback_nodes_are_dead {S : List Nat} {p : Policy} (h : Reach S p) (id old : Nat) (hs : id ∉ S) :
    DE p (add p id) ∧ DE p (update p id old) ∧ DE p (evictNodes p) :=
  ⟨de_add id (reach_inv h), de_update old (reach_inv h) hs, de_evictNodes (reach_inv h)⟩

/-- C07: **Overflow only if the total weight of the entries mapped AT THAT MOMENT exceeds the maximum** — inside one eviction
    pass, started from a state reached by any sequential history: every node handed to the eviction callback is removed from a
    state in which `maximum < Σ weights of the currently mapped nodes`, the mapped set shrinking in lock-step with the callback
    (`JustT`); and the pass ends with the deques holding exactly the nodes still mapped -/
theorem c07_every_eviction_justified_at_table (p0 : Policy)
    (h0 : p0.window = [] ∧ p0.probation = [] ∧ p0.prot = [] ∧ p0.weightedSize = 0) (ops : List JOp) :
    let s := ops.foldl jstep { S := [], p := p0, live := [] }
    ∃ live', JustT (evictFromWindow s.p).1 s.live (evictNodes s.p) live' ∧ (all (evictNodes s.p)).Perm live' := by
  intro s
  have h := jrun_inv p0 h0 ops
  have hperm : (all s.p).Perm s.live := by
    rw [List.perm_ext_iff_of_nodup (reach_inv h.reach).c h.nodup]
    intro id
    rw [← linked_iff_all]
    exact c05_tracked_eq_mapped p0 h0 ops id
  exact evictNodes_justified_at_table (reach_inv h.reach) (reach_winv h.reach) s.live hperm

/-! ### non-vacuity: three inserts into a cache of maximum 2, a replacement, a removal -/
def q0 : Policy := { maximum := 2, windowMaximum := 1, mainProtectedMaximum := 1 }
def exOps : List JOp := [.insert 1 1 1, .insert 2 2 1, .insert 3 3 1, .replace 4 3 3 1, .remove 4]
example : q0.window = [] ∧ q0.probation = [] ∧ q0.prot = [] ∧ q0.weightedSize = 0 := ⟨rfl, rfl, rfl, rfl⟩

/-- the third insert pushes the cache over its maximum of 2: one node is evicted and unlinked by the reaction; the replacement
    and the removal keep the agreement -/
example : ((exOps.take 3).foldl jstep { S := [], p := q0, live := [] }).live = [3, 1] := by decide
example : ((exOps.take 4).foldl jstep { S := [], p := q0, live := [] }).live = [4, 1] := by decide
set_option maxRecDepth 16000 in
example : (exOps.foldl jstep { S := [], p := q0, live := [] }).live = [1] := by decide
set_option maxRecDepth 16000 in
example : (exOps.foldl jstep { S := [], p := q0, live := [] }).p.weightedSize = 1 := by decide

end OtterVerif.Props.C04Joint
