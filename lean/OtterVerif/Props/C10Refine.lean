/-
  C09 / C10 / C11 — the completion of a load, as cache_impl.go decides it inside the table's critical section
  (afterDeleteCall → atomicSet / atomicDelete / calcRefreshableAt with the call in hand), refines Spec.finishCall.

  `correct` is the one input from outside the table: "this call is still the registered one for the key (or a volunteered
  key's fake call)" — Conc.Flight proves what makes it false (a write, invalidation or eviction unregistered the call).
  Given it, for every configuration, table, outcome and clock reading within ±2^62:
    * C09: a call that is no longer registered installs nothing and removes nothing;
    * C10: a value is installed by the write rule (deadlines of a creation or an update of the visible predecessor), a
      not-found outcome removes the entry and reports it, an error changes no value;
    * C11: a successful REFRESH of a visible entry uses RefreshAfterReload, a failed one moves at most the refresh
      deadline (RefreshAfterReloadFailure, in place), and never the value or the expiration deadline.
-/
import OtterVerif.Proofs.TableRefine

namespace OtterVerif.Props.C10Refine
open OtterVerif OtterVerif.Impl.Table OtterVerif.Proofs.TableRefine
open OtterVerif.Spec (Cause Event Out Entry Cfg Kind)

theorem c10_finishCall_refines (c : Cfg) (s : Spec.State) (t : Tbl) (k cid : Nat) (isRefresh fake : Bool) (hs : s.m = absT t)
    (hnow : -4611686018427387904 < s.now ∧ s.now < 4611686018427387904)
    (hwf : ∀ o, lookup t k = some o → NodeOk k o) (hk1 : KindOk c.expiry) (hk2 : KindOk c.refresh) :
    let correct := fake || s.inflightOf k == some cid
    (∀ v, MapEq (absT (finishCall (cfgOf c) t k correct isRefresh (.ok v) s.now).1) (Spec.finishCall c s k cid isRefresh fake (.ok v)).1.m ∧
          (finishCall (cfgOf c) t k correct isRefresh (.ok v) s.now).2 = (Spec.finishCall c s k cid isRefresh fake (.ok v)).2) ∧
    (∀ v, MapEq (absT (finishCall (cfgOf c) t k correct isRefresh .notFound s.now).1) (Spec.finishCall c s k cid isRefresh fake (.notFound v)).1.m ∧
          (finishCall (cfgOf c) t k correct isRefresh .notFound s.now).2 = (Spec.finishCall c s k cid isRefresh fake (.notFound v)).2) ∧
    (∀ v, MapEq (absT (finishCall (cfgOf c) t k correct isRefresh .err s.now).1) (Spec.finishCall c s k cid isRefresh fake (.err v)).1.m ∧
          (finishCall (cfgOf c) t k correct isRefresh .err s.now).2 = (Spec.finishCall c s k cid isRefresh fake (.err v)).2) :=
  finishCall_refines c s t k cid isRefresh fake hs hnow hwf hk1 hk2

/-- C09 in the model's own terms: whatever the outcome, a call that is not the registered one leaves the table and reports
    nothing, except that a failed refresh may still move the refresh deadline of the entry it was reloading -/
theorem c09_superseded_call_changes_nothing (cfg : TCfg) (t : Tbl) (k : Nat) (isRefresh : Bool) (v : Nat) (now : Int) :
    finishCall cfg t k false isRefresh (.ok v) now = (t, []) ∧ finishCall cfg t k false isRefresh .notFound now = (t, []) := by
  unfold finishCall; exact ⟨rfl, rfl⟩

/-- C11: a failed load reports nothing, and the only node it can replace is the reloaded entry's own, with nothing but the
    refresh deadline changed -/
theorem c11_failed_load_touches_only_ref (cfg : TCfg) (t : Tbl) (k : Nat) (correct isRefresh : Bool) (now : Int) :
    (finishCall cfg t k correct isRefresh .err now).2 = [] ∧
    ((finishCall cfg t k correct isRefresh .err now).1 = t ∨
     ∃ x r, lookup t k = some x ∧ (finishCall cfg t k correct isRefresh .err now).1 = store t k { x with ref := r }) := by
  unfold finishCall
  cases hl : lookup t k with
  | none => exact ⟨rfl, Or.inl rfl⟩
  | some x =>
    simp only
    split
    · split
      · exact ⟨rfl, Or.inr ⟨x, _, rfl, rfl⟩⟩
      · exact ⟨rfl, Or.inl rfl⟩
    · exact ⟨rfl, Or.inl rfl⟩

end OtterVerif.Props.C10Refine
