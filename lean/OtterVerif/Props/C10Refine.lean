/-
  C09 / C10 / C11 — the completion of a load, as cache_impl.go decides it inside the table's critical section
  (afterDeleteCall → atomicSet / atomicDelete / calcRefreshableAt with the call in hand), refines Spec.finishCall.

  `correct` is the one input from outside the table: "this call is still the registered one for the key (or a volunteered
  key's fake call)" — Conc.Flight proves what makes it false (a write, invalidation or eviction unregistered the call).
  Given it, for every configuration, table, outcome and clock reading within ±2^62:
    * C09: a call that is no longer registered installs nothing and removes nothing;
    * C10: a value is installed by the write rule (deadlines of a creation or an update of the visible predecessor), a
      not-found outcome removes the entry and reports it, an error changes no value;
    * C11: a successful REFRESH of a visible entry uses RefreshAfterReload, a failed one moves at most the refresh
      deadline (RefreshAfterReloadFailure, in place), and never the value or the expiration deadline.
-/
import OtterVerif.Proofs.TableRefine
import OtterVerif.Proofs.TableTraceFull

namespace OtterVerif.Props.C10Refine
open OtterVerif OtterVerif.Impl.Table OtterVerif.Proofs.TableRefine
open OtterVerif.Spec (Cause Event Out Entry Cfg Kind)

theorem c10_finishCall_refines (c : Cfg) (s : Spec.State) (t : Tbl) (k cid : Nat) (isRefresh fake : Bool) (hs : s.m = absT t)
    (hnow : -4611686018427387904 < s.now ∧ s.now < 4611686018427387904)
    (hwf : ∀ o, lookup t k = some o → NodeOk k o) (hk1 : KindOk c.expiry) (hk2 : KindOk c.refresh) :
    let correct := fake || s.inflightOf k == some cid
    (∀ v, MapEq (absT (finishCall (cfgOf c) t k correct isRefresh (.ok v) s.now).1) (Spec.finishCall c s k cid isRefresh fake (.ok v)).1.m ∧
          (finishCall (cfgOf c) t k correct isRefresh (.ok v) s.now).2 = (Spec.finishCall c s k cid isRefresh fake (.ok v)).2) ∧
    (∀ v, MapEq (absT (finishCall (cfgOf c) t k correct isRefresh .notFound s.now).1) (Spec.finishCall c s k cid isRefresh fake (.notFound v)).1.m ∧
          (finishCall (cfgOf c) t k correct isRefresh .notFound s.now).2 = (Spec.finishCall c s k cid isRefresh fake (.notFound v)).2) ∧
    (∀ v, MapEq (absT (finishCall (cfgOf c) t k correct isRefresh .err s.now).1) (Spec.finishCall c s k cid isRefresh fake (.err v)).1.m ∧
          (finishCall (cfgOf c) t k correct isRefresh .err s.now).2 = (Spec.finishCall c s k cid isRefresh fake (.err v)).2) :=
  finishCall_refines c s t k cid isRefresh fake hs hnow hwf hk1 hk2

/-- C09 in the model's own terms: whatever the outcome, a call that is not the registered one leaves the table and reports
    nothing, except that a failed refresh may still move the refresh deadline of the entry it was reloading -/
theorem c09_superseded_call_changes_nothing (cfg : TCfg) (t : Tbl) (k : Nat) (isRefresh : Bool) (v : Nat) (now : Int) :
    finishCall cfg t k false isRefresh (.ok v) now = (t, []) ∧ finishCall cfg t k false isRefresh .notFound now = (t, []) := by
  unfold finishCall; exact ⟨rfl, rfl⟩

/-- C11: a failed load reports nothing, and the only node it can replace is the reloaded entry's own, with nothing but the
    refresh deadline changed -/
theorem c11_failed_load_touches_only_ref (cfg : TCfg) (t : Tbl) (k : Nat) (correct isRefresh : Bool) (now : Int) :
    (finishCall cfg t k correct isRefresh .err now).2 = [] ∧
    ((finishCall cfg t k correct isRefresh .err now).1 = t ∨
     ∃ x r, lookup t k = some x ∧ (finishCall cfg t k correct isRefresh .err now).1 = store t k { x with ref := r }) := by
  unfold finishCall
  cases hl : lookup t k with
  | none => exact ⟨rfl, Or.inl rfl⟩
  | some x =>
    simp only
    split
    · split
      · exact ⟨rfl, Or.inr ⟨x, _, rfl, rfl⟩⟩
      · exact ⟨rfl, Or.inl rfl⟩
    · exact ⟨rfl, Or.inl rfl⟩

/-- **every history, with loads**: any sequence of Set / SetIfAbsent / Invalidate / GetIfPresent / Compute / clock advances,
    registrations of loads (single flight), completions of loads with any outcome (value, error, not found, panic; plain load or
    refresh; requested or volunteered key), SetExpiresAfter and SetRefreshableAfter, run on the transcription of the code from a
    state related to a spec state, returns at every step the spec's result and atomic deletion events and stays related (same
    map, same clock, same in-flight table).  In particular a completion installs its value only if no write, invalidation or
    Compute of the key came after the registration (C09), whatever else happened in between -/
theorem c10_every_history_with_loads (c : Cfg) (hk1 : KindOk c.expiry) (hk2 : KindOk c.refresh) (hr : ReadOk c)
    (ops : List Proofs.TableTraceFull.FOp) (is : Proofs.TableTraceFull.FState) (ss : Spec.State)
    (R : Proofs.TableTraceFull.FR is ss) (hclk : Proofs.TableTraceFull.FClockOk is.now ops) :
    (Proofs.TableTraceFull.firun c is ops).2 = (Proofs.TableTraceFull.fsrun c ss ops).2 ∧
    Proofs.TableTraceFull.FR (Proofs.TableTraceFull.firun c is ops).1 (Proofs.TableTraceFull.fsrun c ss ops).1 :=
  Proofs.TableTraceFull.full_history_sim c hk1 hk2 hr ops is ss R hclk

/-- the empty cache is related to the empty spec state -/
theorem c10_empty_related (now0 : Int) :
    Proofs.TableTraceFull.FR { now := now0, t := [], inflight := [] } { now := now0 } :=
  ⟨fun _ => rfl, rfl, rfl, by intro k o h; cases h⟩

end OtterVerif.Props.C10Refine
