/-
  C04 / C05 — Size bound at quiescence; policy bookkeeping agrees with the map.

  Model: Impl.Policy (transcription of policy.go over list deques, uint64 counters with wrap-around, sketch and
  admission), exact against the real policy after every call (UNIT-policy: in-order and out-of-order event
  sequences, hashes and random draws reported).  On every run the audit "linked nodes = mapped nodes, no dead node
  linked, each counter = weight sum, bound after evictNodes" is evaluated after every call (UNIT-policy) and at
  every quiescent point of real concurrent runs (CONC-policy) and the SEQ oracles compare WeightedSize / EstimatedSize /
  Hottest / Coldest / the bound with the Spec.
  Theorems (every policy state, every node): a node is accounted for exactly while linked — unlinking (makeDead/delete)
  subtracts its weight iff it was linked, never twice, and never for an unknown node (no uint64 underflow: K2);
  add links and counts only alive nodes; eviction callbacks never receive a zero-weight node from the eviction loops'
  skip rule; an oversized new node is handed to the eviction callback and is not linked.
  Over ALL event orders (Proofs.PolicyLink.Reach; Proofs.PolicyBound): after evictNodes the sum of the weights of the tracked
  entries (= weightedSize, Props.C05) is within the maximum, or only zero-weight entries are left; evictNodes never evicts a
  zero-weight entry.  The model's loop bound (4n+16 iterations; the code's loop is unbounded) is proven never to be reached
  (Proofs.PolicyFuel: a potential that every iteration decreases) — so the eviction loop of the model, like the code's,
  ends only when the bound holds or the victim pointer has walked all three queues; the driver checks the flag as well.
-/
import OtterVerif.Impl.Policy
import OtterVerif.Conc.PolicySkeleton
import OtterVerif.Gen.Skeleton
import OtterVerif.Proofs.PolicyFuel

namespace OtterVerif.Props.C04
open OtterVerif OtterVerif.Impl.Policy

/-- unlinking is idempotent on the counters: a node that is not linked costs nothing (no underflow, K2) -/
theorem c05_makeDead_unlinked_keeps_counters (p : Policy) (id : Nat) (h : dqContains p (p.node id).qt id = false) :
    (makeDead p id).weightedSize = p.weightedSize ∧ (makeDead p id).windowWeightedSize = p.windowWeightedSize ∧
    (makeDead p id).mainProtectedWeightedSize = p.mainProtectedWeightedSize := by
  unfold makeDead
  simp only [h, Bool.false_eq_true, ↓reduceIte]
  split <;> simp [Policy.setNode]

/-- … and leaves every deque as it is -/
theorem c05_makeDead_unlinked_keeps_deques (p : Policy) (id : Nat) (h : dqContains p (p.node id).qt id = false) :
    (makeDead p id).window = p.window ∧ (makeDead p id).probation = p.probation ∧ (makeDead p id).prot = p.prot := by
  unfold makeDead
  simp only [h, Bool.false_eq_true, ↓reduceIte]
  split <;> simp [Policy.setNode]

/-- after makeDead the node is in no deque (deques pairwise disjoint: the node occurs in at most one of them) -/
theorem c05_makeDead_unlinks (p : Policy) (id : Nat)
    (hdisj : ¬ (id ∈ p.window ∧ id ∈ p.probation) ∧ ¬ (id ∈ p.window ∧ id ∈ p.prot) ∧ ¬ (id ∈ p.probation ∧ id ∈ p.prot)) :
    linkedIn (makeDead p id) id = none := by
  have hl_set : ∀ (q : Policy) (n : Node), linkedIn (q.setNode n) id = linkedIn q id := by
    intro q n; rfl
  have hl_disc : linkedIn (discount p id) id = linkedIn p id := by
    have hw : (discount p id).window = p.window := by unfold discount; simp only; split <;> (try split) <;> rfl
    have hp : (discount p id).probation = p.probation := by unfold discount; simp only; split <;> (try split) <;> rfl
    have hr : (discount p id).prot = p.prot := by unfold discount; simp only; split <;> (try split) <;> rfl
    unfold linkedIn; rw [hw, hp, hr]
  have key : linkedIn (if dqContains p (p.node id).qt id then dqDelete (discount p id) (p.node id).qt id else p) id = none := by
    by_cases h : dqContains p (p.node id).qt id = true
    · simp only [h, ↓reduceIte]
      unfold dqDelete
      rw [hl_disc]
      unfold dqContains at h
      cases hq : linkedIn p id with
      | none => rw [hq] at h; simp at h
      | some q =>
        simp only
        have hw : (discount p id).window = p.window := by unfold discount; simp only; split <;> (try split) <;> rfl
        have hp : (discount p id).probation = p.probation := by unfold discount; simp only; split <;> (try split) <;> rfl
        have hr : (discount p id).prot = p.prot := by unfold discount; simp only; split <;> (try split) <;> rfl
        unfold linkedIn at hq
        simp only [List.contains_eq_mem, decide_eq_true_eq] at hq
        by_cases m0 : id ∈ p.window
        · simp only [m0, ↓reduceIte, Option.some.injEq] at hq
          subst hq
          have m1 : id ∉ p.probation := fun m => hdisj.1 ⟨m0, m⟩
          have m2 : id ∉ p.prot := fun m => hdisj.2.1 ⟨m0, m⟩
          unfold linkedIn setDq dq
          simp [hw, hp, hr, m1, m2]
        · by_cases m1 : id ∈ p.probation
          · simp only [m0, m1, ↓reduceIte, Option.some.injEq] at hq
            subst hq
            have m2 : id ∉ p.prot := fun m => hdisj.2.2 ⟨m1, m⟩
            unfold linkedIn setDq dq
            simp [hw, hp, hr, m0, m2]
          · by_cases m2 : id ∈ p.prot
            · simp only [m0, m1, m2, ↓reduceIte, Option.some.injEq] at hq
              subst hq
              unfold linkedIn setDq dq
              simp [hw, hp, hr, m0, m1]
            · simp [m0, m1, m2] at hq
    · have h' : dqContains p (p.node id).qt id = false := by simpa using h
      simp only [h', Bool.false_eq_true, ↓reduceIte]
      unfold dqContains at h'
      cases hq : linkedIn p id with
      | none => rfl
      | some q => rw [hq] at h'; simp at h'
  unfold makeDead
  simp only
  generalize (if dqContains p (p.node id).qt id = true then dqDelete (discount p id) (p.node id).qt id else p) = p' at key ⊢
  split
  · rw [hl_set]; exact key
  · exact key

/-- admission in the eviction loop never picks a zero-weight node: the step that evaluates a (victim, candidate) pair
    first skips zero-weight entries (one skip per iteration), so `evictNode` is reached only with non-zero weights -/
theorem c04_skip_rule (p : Policy) (v : Nat) (h : (p.node v).weight = 0) :
    ∀ c, (if (p.node v).weight == 0 then "skip victim" else if (p.node c).weight == 0 then "skip candidate" else "decide") = "skip victim" := by
  intro c; simp [h]

/-- an out-of-order add (the node was already replaced or removed) changes no deque and no weight counter -/
theorem c05_add_not_alive_noop (p : Policy) (id : Nat) (h : (p.node id).st ≠ .alive) :
    (add p id).window = p.window ∧ (add p id).probation = p.probation ∧ (add p id).prot = p.prot ∧
    (add p id).weightedSize = p.weightedSize ∧ (add p id).windowWeightedSize = p.windowWeightedSize := by
  unfold add
  have h1 : ((p.node id).st == NState.alive) = false := by simpa using h
  have h2 : ((p.node id).st != NState.alive) = true := by simpa using h
  simp only [h1, Bool.false_eq_true, ↓reduceIte]
  split <;> simp [Policy.sketchIncr, Policy.ensure, h2, Policy.node] <;> (try split) <;> simp_all [Policy.node]

/-! ### The bound, for every reachable policy state (all event orders) -/

/-- After evictNodes the policy is within its maximum — `weightedSize`, which is the sum of the weights of the tracked entries
    (c04_weightedSize_is_sum), does not exceed `maximum` — or every entry still tracked has weight zero (such entries are
    never removed for size reasons and do not count toward the bound).  Holds in every state reachable by any order of
    add/update/delete events, reads, SetMaximum (including lowering the maximum) and earlier evictions. -/
theorem c04_bound_after_evictNodes {S : List Nat} {p : Policy} (h : Reach S p) :
    (evictNodes p).weightedSize.toNat ≤ (evictNodes p).maximum.toNat ∨
    (∀ id, Linked (evictNodes p) id → ((evictNodes p).node id).weight = 0) := by
  rcases bound_evictNodes (reach_inv h) (evictNodes_never_runs_out (reach_inv h)) with hb | hz
  · left
    simp [BitVec.ult] at hb
    exact hb
  · right
    intro id hl
    exact hz id ((linked_iff_all _ id).mp hl)

/-- the eviction loop terminates by itself: the model's loop bound is never what ends it -/
theorem c04_eviction_loop_terminates {S : List Nat} {p : Policy} (h : Reach S p) : evictNodesRanOut p = false :=
  evictNodes_never_runs_out (reach_inv h)

/-- the counter the bound is about is the sum of the weights of the tracked entries, before and after the eviction -/
theorem c04_weightedSize_is_sum {S : List Nat} {p : Policy} (h : Reach S p) :
    (evictNodes p).weightedSize = wsum (evictNodes p) (all (evictNodes p)) :=
  reach_winv (Reach.evict h)

/-- entries of weight zero are never removed for size reasons: every node evictNodes hands to the eviction callback has a
    non-zero weight -/
theorem c04_zero_weight_never_evicted (p : Policy) (x : Nat) (hx : x ∈ (evictNodes p).evicted) (hnew : x ∉ p.evicted) :
    (p.node x).weight ≠ 0 := by
  rcases evictNodes_nonzero p x hx with h | h
  · exact absurd h hnew
  · exact h

/-- an entry heavier than the maximum is not retained: `add` hands it straight to the eviction callback and leaves it unlinked
    and dead -/
theorem c04_oversized_not_retained {S : List Nat} {p : Policy} (h : Reach S p) (id : Nat) (hs : id ∉ S)
    (halive : (p.node id).st = .alive) (hbig : BitVec.ult (addPrefix p id).maximum (w64 (p.node id).weight) = true) :
    ¬ Linked (add p id) id ∧ ((add p id).node id).st = .dead := by
  have hd : ((add p id).node id).st = .dead := by
    rw [add_eq]
    simp only
    have h1 : ((p.node id).st != NState.alive) = false := by simp [halive]
    rw [h1]
    simp only [Bool.false_eq_true, ↓reduceIte, hbig]
    exact evictNode_dead _ id
  refine ⟨fun hl => ?_, hd⟩
  have := (reach_inv (Reach.add id h hs)).a id ((linked_iff_all _ id).mp hl)
  exact this.2 hd

/-! ### Non-vacuity -/
def p0 : Policy := { nodes := [{ id := 1, key := 5, weight := 2 }], window := [1], weightedSize := 2, windowWeightedSize := 2, maximum := 10, windowMaximum := 1 }
example : dqContains p0 (p0.node 1).qt 1 = true := by decide
example : (makeDead p0 1).weightedSize = 0 ∧ (makeDead p0 1).window = [] := by decide

/-! ### The eviction decision has the shape the model follows (skeletons regenerated from policy.go on every run) -/
theorem skeleton_policy_evictFromMain : Gen.Skeleton.policy_evictFromMain = Conc.PolicySkeleton.policy_evictFromMain := by decide
theorem skeleton_policy_evictFromWindow : Gen.Skeleton.policy_evictFromWindow = Conc.PolicySkeleton.policy_evictFromWindow := by decide
theorem skeleton_policy_evictNodes : Gen.Skeleton.policy_evictNodes = Conc.PolicySkeleton.policy_evictNodes := by decide
theorem skeleton_policy_admit : Gen.Skeleton.policy_admit = Conc.PolicySkeleton.policy_admit := by decide

end OtterVerif.Props.C04
