/-
  C01 / C03 — the observers: GetEntryQuietly, GetEntry (nodeToEntry's snapshot) and the iteration filter of cache.nodes()
  refine the spec's; the snapshot and the filters are the regenerated ones (Gen.CacheRead).
-/
import OtterVerif.Proofs.TableRead
import OtterVerif.Gen.CacheRead

namespace OtterVerif.Props.C03Read
open OtterVerif OtterVerif.Impl.Table OtterVerif.Proofs.TableRefine OtterVerif.Proofs.TableTrace OtterVerif.Proofs.TableRead
open OtterVerif.Spec (Cause Event Out Entry Cfg Kind)

/-- C01 / C03: GetEntryQuietly returns the snapshot of the live entry and nothing for an expired or absent one -/
theorem c03_getEntryQuietly_refines (c : Cfg) (s : Spec.State) (t : Tbl) (k : Nat) (hs : s.m = absT t)
    (hu : ∀ o, lookup t k = some o → Unreach (cfgOf c) o) :
    getEntryQuietly (cfgOf c) t k s.now = Spec.getEntryQuietly c s k :=
  getEntryQuietly_refines c s t k hs hu

/-- C01 / C03: GetEntry stores the read's deadline and returns the snapshot taken after it -/
theorem c03_getEntry_refines (c : Cfg) (s : Spec.State) (t : Tbl) (k : Nat) (hs : s.m = absT t)
    (hnow : -4611686018427387904 < s.now ∧ s.now < 4611686018427387904)
    (hwf : ∀ o, lookup t k = some o → NodeOk k o) (hu : ∀ o, lookup t k = some o → Unreach (cfgOf c) o) (hr : ReadOk c) :
    absT (getEntry (cfgOf c) t k s.now).1 = (Spec.getEntry c s k).1.m ∧
    (getEntry (cfgOf c) t k s.now).2 = (Spec.getEntry c s k).2 :=
  getEntry_refines c s t k hs hnow hwf hu hr

/-- the invariant the snapshot theorems assume is established by every write and kept by every read -/
theorem c03_unreach_established (c : TCfg) (k v : Nat) (old : Option TNode) (now : Int) (kd : RefKind) (n : TNode) (h : Unreach c n) :
    Unreach c (atomicSet c k v old now kd).1 ∧ Unreach c (calcExpiresAtAfterRead c n now) :=
  ⟨unreach_atomicSet c k v old now kd, unreach_read c n now h⟩

/-- C03: iteration (All / Keys / Values / entries) yields exactly the spec's live entries and never an expired one -/
theorem c03_iteration_refines (s : Spec.State) (t : Tbl) (hs : s.m = absT t) :
    absT (liveNodes t s.now) = s.m.filter (fun p => p.2.liveAt s.now) ∧
    ∀ p ∈ liveNodes t s.now, s.now < p.2.exp :=
  ⟨liveNodes_refines s t hs, fun p hp => liveNodes_unexpired t s.now p hp⟩

/-! ### ties to the regenerated code -/

/-- cache.nodes() skips a node iff it is not alive or has expired; for an alive node that is the model's filter -/
theorem c03_gen_iteration_filter (n : TNode) (now : Int) :
    Gen.CacheRead.cache_nodes_c0 (hasExpired n now) true = hasExpired n now := by
  unfold Gen.CacheRead.cache_nodes_c0; simp

/-- getNodeQuietly answers nil for an absent, a dead or an expired node -/
theorem c03_gen_quiet_lookup (absent alive expired : Bool) :
    Gen.CacheRead.cache_getNodeQuietly_c0 expired alive absent = (absent || !alive || expired) := by
  unfold Gen.CacheRead.cache_getNodeQuietly_c0; rfl

/-- nodeToEntry's choices as the code makes them: snapshot time 0 without a time-based policy, otherwise the clock value it
    was given; unreachable (MaxInt64) for a deadline whose policy is off, otherwise the node's field -/
theorem c03_gen_snapshot (withTime withExp withRef : Bool) (nanos e r : BitVec 64) :
    (if Gen.CacheRead.cache_nodeToEntry_c0 withTime then Gen.CacheRead.cache_nodeToEntry_a1 nanos else Gen.CacheRead.cache_nodeToEntry_a0)
      = (if withTime then nanos else 0#64) ∧
    (if Gen.CacheRead.cache_nodeToEntry_c1 withExp then Gen.CacheRead.cache_nodeToEntry_a3 e else Gen.CacheRead.cache_nodeToEntry_a2)
      = (if withExp then e else BitVec.ofInt 64 maxI64) ∧
    (if Gen.CacheRead.cache_nodeToEntry_c2 withRef then Gen.CacheRead.cache_nodeToEntry_a5 r else Gen.CacheRead.cache_nodeToEntry_a4)
      = (if withRef then r else BitVec.ofInt 64 maxI64) := by
  unfold Gen.CacheRead.cache_nodeToEntry_c0 Gen.CacheRead.cache_nodeToEntry_c1 Gen.CacheRead.cache_nodeToEntry_c2
    Gen.CacheRead.cache_nodeToEntry_a0 Gen.CacheRead.cache_nodeToEntry_a1 Gen.CacheRead.cache_nodeToEntry_a2
    Gen.CacheRead.cache_nodeToEntry_a3 Gen.CacheRead.cache_nodeToEntry_a4 Gen.CacheRead.cache_nodeToEntry_a5
  refine ⟨rfl, ?_, ?_⟩ <;> (congr 1)

/-! ### C11: which reads hand a reload to the executor -/

/-- C11: the model's staleness test is the spec's (`cfg.withRefresh && e.staleAt now`, Spec.Check.isStale): a read of a fresh
    entry triggers nothing, a read at or after the refresh deadline does -/
theorem c11_isStale_refines (c : Cfg) (n : TNode) (now : Int) :
    isStale (cfgOf c) n now = (c.withRefresh && (absN n).staleAt now) := rfl

/-- C11: the model's test is the code's: `c.withRefresh && n.RefreshableAt() <= nowNano && n.IsAlive()` (signed comparison),
    for the mapped (alive) node; a retired node is never stale whatever its deadline (F16) -/
theorem c11_gen_isStale (withRef : Bool) (ref now : BitVec 64) :
    Gen.CacheRead.cache_isStale_r0 withRef true ref now = (withRef && decide (ref.toInt ≤ now.toInt)) ∧
    Gen.CacheRead.cache_isStale_r0 withRef false ref now = false := by
  unfold Gen.CacheRead.cache_isStale_r0
  simp [BitVec.sle]

/-! ### non-vacuity -/
example : Unreach (cfgOf { expiry := .writing 10 }) { key := 1, val := 7, weight := 1, exp := 10, ref := maxI64 } := by
  refine ⟨?_, ?_⟩ <;> intro h <;> first | rfl | (simp [cfgOf, Cfg.withExpiry] at h)
example : getEntryQuietly (cfgOf { expiry := .writing 10 }) [(1, { key := 1, val := 7, weight := 1, exp := 10, ref := maxI64 })] 1 3
    = .entry (some (7, 1, 10, maxI64, 3)) := by decide

end OtterVerif.Props.C03Read
