/-
  C06 / C07 / C13 / C01 / C09 — automatic removals (size eviction, expiration sweep) inside the refinement Impl.Table ⊑ Spec.

  Impl.Table.evictNode transcribes cache.evictNode + cache.deleteNodeFromMap.  Proofs.TableEvict shows that what it reports is
  truthful by construction and that it is exactly the input the spec's `evict` judges; below: those theorems under the names
  of the properties they serve, the tie of the model's cause computation to the regenerated one (Gen.CacheWrite: evictNode's
  proposal, Gen.CacheRead: getCause), and a non-vacuity example.

  What is NOT proven here (DESIGN 13.10): that the size policy only ever hands in a node under size pressure — that is
  Proofs.PolicyJust about Impl.Policy, whose running total is tied to the table's total weight by the C05 theorems at
  quiescence and by the UNIT-policy / SEQ engines on the code, not by a composed Lean model.
-/
import OtterVerif.Proofs.TableEvict
import OtterVerif.Gen.CacheWrite
import OtterVerif.Gen.CacheRead
import OtterVerif.Proofs.PolicyJust

namespace OtterVerif.Props.C07Evict
open OtterVerif OtterVerif.Impl.Table OtterVerif.Proofs.TableRefine OtterVerif.Proofs.TableTrace OtterVerif.Proofs.TableEvict
open OtterVerif.Spec (Cause Event Out Entry Cfg Kind)

/-- deletion.go: CauseInvalidation = iota + 1, CauseReplacement, CauseOverflow, CauseExpiration -/
def causeCode : Cause → BitVec 64
  | .invalidation => 1#64 | .replacement => 2#64 | .overflow => 3#64 | .expiration => 4#64

/-- the cause evictNode reports, assembled from the regenerated pieces: the proposal (`cause := CauseOverflow; if
    n.HasExpired(now) { cause = CauseExpiration }`) passed through getCause (`if n.HasExpired(now) { return CauseExpiration };
    return cause`) -/
def evictCauseG (expired : Bool) : BitVec 64 :=
  let proposed := if Gen.CacheWrite.cache_evictNode_c0 expired then Gen.CacheWrite.cache_evictNode_a1 else Gen.CacheWrite.cache_evictNode_a0
  if Gen.CacheRead.getCause_c0 expired then Gen.CacheRead.getCause_r0 else Gen.CacheRead.getCause_r1 proposed

/-- C06 / C07: the model's cause is the code's, for both answers of HasExpired -/
theorem c07_gen_evict_cause (n : TNode) (now : Int) : evictCauseG (hasExpired n now) = causeCode (evictCause n now) := by
  unfold evictCauseG evictCause Gen.CacheWrite.cache_evictNode_c0 Gen.CacheWrite.cache_evictNode_a0
    Gen.CacheWrite.cache_evictNode_a1 Gen.CacheRead.getCause_c0 Gen.CacheRead.getCause_r0 Gen.CacheRead.getCause_r1
  cases hasExpired n now <;> rfl

/-- C06: getCause with a proposal: Expiration overrides, anything else is passed through — over the regenerated getCause -/
theorem c06_gen_getCause (n : TNode) (now : Int) (c : Cause) :
    (if Gen.CacheRead.getCause_c0 (hasExpired n now) then Gen.CacheRead.getCause_r0 else Gen.CacheRead.getCause_r1 (causeCode c))
      = causeCode (getCause n now c) := by
  unfold Gen.CacheRead.getCause_c0 Gen.CacheRead.getCause_r0 Gen.CacheRead.getCause_r1 getCause
  cases hasExpired n now <;> rfl

/-- C06: OnDeletion and the eviction statistics only for a node evictNode itself removed (`if deleted`), and `deleted` is
    "deleteNodeFromMap returned a node" — over the regenerated conditions -/
theorem c06_gen_evict_reports_only_removed (deletedNodeNotNil : Bool) :
    Gen.CacheWrite.cache_evictNode_c3 (Gen.CacheWrite.cache_evictNode_a2 deletedNodeNotNil) = deletedNodeNotNil := rfl

/-- C06 / C07: **truthful cause** — an automatic removal is reported as Expiration exactly when the deadline has passed at
    the clock value the removal uses, otherwise as Overflow; never as Invalidation or Replacement; with the mapped value -/
theorem c07_evict_cause_truthful (t : Tbl) (k : Nat) (same : Bool) (now : Int) (ev : Event)
    (h : ev ∈ (evictNode t k same now).2) :
    ∃ cur, lookup t k = some cur ∧ ev.val = cur.val ∧ ev.key = cur.key ∧
      (ev.cause = .expiration ↔ cur.exp ≤ now) ∧ (ev.cause = .overflow ↔ now < cur.exp) ∧
      ev.cause ≠ .invalidation ∧ ev.cause ≠ .replacement :=
  evict_cause_truthful t k same now ev h

/-- C06: at most one report, and only together with the removal; a stale node or an absent key reports nothing -/
theorem c06_evict_reports_iff_removed (t : Tbl) (k : Nat) (same : Bool) (now : Int) :
    ((evictNode t k same now).2 = [] ∧ (evictNode t k same now).1 = t) ∨
    (∃ ev, (evictNode t k same now).2 = [ev] ∧ (evictNode t k same now).1 = unlink t k ∧ same = true ∧ (lookup t k).isSome) :=
  evict_reports_iff_removed t k same now

/-- C01 / C07: evictNode is the spec's justified removal: when the spec accepts the (truthfully labelled) removal, the new
    table abstracts to the spec's map and the event is the spec's -/
theorem c07_evict_refines (c : Cfg) (s : Spec.State) (t : Tbl) (k : Nat) (same : Bool) (hs : s.m = absT t)
    (hwf : ∀ o, lookup t k = some o → o.key = k) (s' : Spec.State) (evs : List Event)
    (hacc : specEvict c s k same = some (s', evs)) :
    absT (evictNode t k same s.now).1 = s'.m ∧ (evictNode t k same s.now).2 = evs ∧ s'.now = s.now :=
  evict_refines c s t k same hs hwf s' evs hacc

/-- C09 / C08: an accepted removal unregisters the key's in-flight load in the spec (the code: singleflight.delete inside
    deleteNodeFromMap's computation), so a load that was running for the evicted entry installs nothing stale -/
theorem c09_evict_unregisters (c : Cfg) (s : Spec.State) (k : Nat) (e : Entry) (hp : s.phys k = some e) (s' : Spec.State)
    (evs : List Event) (hacc : specEvict c s k true = some (s', evs)) : s'.inflightOf k = none := by
  unfold specEvict at hacc
  rw [hp] at hacc
  simp only [↓reduceIte, Option.map_eq_some_iff, Prod.mk.injEq] at hacc
  obtain ⟨s1, hev, hs1, _⟩ := hacc
  have := evict_some c s _ e s1 hp hev
  rw [← hs1, this]
  unfold Spec.evictApply Spec.State.clearInflight Spec.State.inflightOf
  simp only
  have : List.find? (fun p => p.1 == k) (List.filter (fun p : Nat × Nat => p.1 != k) s.inflight) = none := by
    rw [List.find?_eq_none]
    intro p hpm
    have := (List.mem_filter.mp hpm).2
    simpa using this
  rw [this]; rfl

/-- C20: an accepted automatic removal counts exactly one eviction with the removed entry's weight (the code: RecordEviction
    under `if deleted`, `c06_gen_evict_reports_only_removed`); a stale node or an absent key counts nothing -/
theorem c20_eviction_counted_once (c : Cfg) (s : Spec.State) (k : Nat) (same : Bool) (s' : Spec.State) (evs : List Event)
    (hacc : specEvict c s k same = some (s', evs)) :
    (evs = [] ∧ s'.stats = s.stats) ∨
    (∃ e, s.phys k = some e ∧ evs.length = 1 ∧ s'.stats.evictions = s.stats.evictions + 1 ∧
      s'.stats.evictionWeight = s.stats.evictionWeight + e.weight) := by
  unfold specEvict at hacc
  cases hp : s.phys k with
  | none =>
    rw [hp] at hacc
    simp only [Option.some.injEq, Prod.mk.injEq] at hacc
    left; exact ⟨hacc.2.symm, by rw [← hacc.1]⟩
  | some e =>
    rw [hp] at hacc
    cases same with
    | false =>
      simp only [Bool.false_eq_true, ↓reduceIte, Option.some.injEq, Prod.mk.injEq] at hacc
      left; exact ⟨hacc.2.symm, by rw [← hacc.1]⟩
    | true =>
      simp only [↓reduceIte, Option.map_eq_some_iff, Prod.mk.injEq] at hacc
      obtain ⟨s1, hev, hs1, hevs⟩ := hacc
      have := evict_some c s _ e s1 hp hev
      right
      refine ⟨e, rfl, by rw [← hevs]; rfl, ?_, ?_⟩ <;> rw [← hs1, this] <;> rfl

/-- C13: the removal of an entry whose deadline has passed needs no further justification — once the wheel finds the node
    the spec accepts the Expiration report -/
theorem c13_expired_removal_accepted (c : Cfg) (s : Spec.State) (k : Nat) (e : Entry) (hp : s.phys k = some e)
    (hx : e.exp ≤ s.now) : (specEvict c s k true).isSome :=
  expired_evict_accepted c s k e hp hx

/-- C07: a live entry may go only under size pressure on a bounded cache, and never when it weighs nothing -/
theorem c07_live_removal_accepted_iff (c : Cfg) (s : Spec.State) (k : Nat) (e : Entry) (hp : s.phys k = some e)
    (hx : s.now < e.exp) :
    (specEvict c s k true).isSome ↔
      ∃ mx, s.maximum = some mx ∧ c.bounded = true ∧ e.weight ≠ 0 ∧ (s.totalWeight > mx ∨ e.weight > mx) :=
  live_evict_accepted_iff c s k e hp hx

/-- C01 / C06 / C07: **every history with automatic removals at arbitrary points** — as long as the spec accepts each
    removal (judged with its truthful cause in the state it happens in), Impl.Table and the spec return the same results,
    report the same atomic deletion events at every step, and end with the same map -/
theorem c07_every_history_with_removals (c : Cfg) (hk1 : KindOk c.expiry) (hk2 : KindOk c.refresh) (hr : ReadOk c)
    (ops : List XOp) (is : IState) (ss : Spec.State) (hm : ss.m = absT is.t) (hnow : ss.now = is.now) (hok : AllOk is.t)
    (hclk : XClockOk is.now ops) (q : Spec.State × List (Out × List Event)) (hq : xsrun c ss ops = some q) :
    (xirun c is ops).2 = q.2 ∧ q.1.m = absT (xirun c is ops).1.t :=
  xhistory_sim c hk1 hk2 hr ops is ss hm hnow hok hclk q hq


/-! ### the policy's guard is the spec's size pressure (glue between Proofs.PolicyJust and the table refinement)

Proofs.PolicyJust: every node Impl.Policy hands to the eviction callback leaves a policy state with
`maximum < weightedSize` (`Just.evict`), and `evictNodes_nonzero`: it weighs something.  IF the policy's running total is the
table's total weight and its maximum the cache's (the agreement the C05 theorems establish on the policy side — weightedSize =
Σ weights of linked nodes, linked ⇔ alive at quiescence — and the UNIT-policy / SEQ engines check on the code), then the
spec accepts the removal of that (live) node.  The agreement itself is a hypothesis here, not a theorem: DESIGN 13.10. -/
theorem c07_policy_guard_is_spec_pressure (p : Impl.Policy.Policy) (c : Cfg) (s : Spec.State) (k : Nat) (e : Entry) (mx : Nat)
    (hmax : s.maximum = some mx) (hpm : p.maximum.toNat = mx) (hws : p.weightedSize.toNat = s.totalWeight)
    (hb : c.bounded = true) (hp : s.phys k = some e) (hx : s.now < e.exp) (hw : e.weight ≠ 0)
    (hg : BitVec.ult p.maximum p.weightedSize = true) : (specEvict c s k true).isSome := by
  rw [live_evict_accepted_iff c s k e hp hx]
  refine ⟨mx, hmax, hb, hw, Or.inl ?_⟩
  have : p.maximum.toNat < p.weightedSize.toNat := by simpa [BitVec.ult] using hg
  omega

/-- and conversely: within the maximum (policy guard false, entry not oversized) the spec rejects any Overflow report -/
theorem c07_no_pressure_no_overflow (p : Impl.Policy.Policy) (c : Cfg) (s : Spec.State) (k : Nat) (e : Entry) (mx : Nat)
    (hmax : s.maximum = some mx) (hpm : p.maximum.toNat = mx) (hws : p.weightedSize.toNat = s.totalWeight)
    (hp : s.phys k = some e) (hx : s.now < e.exp) (hle : e.weight ≤ mx)
    (hg : BitVec.ult p.maximum p.weightedSize = false) : (specEvict c s k true).isSome = false := by
  cases h : (specEvict c s k true).isSome with
  | false => rfl
  | true =>
    rw [live_evict_accepted_iff c s k e hp hx] at h
    obtain ⟨mx', hm', _, _, hor⟩ := h
    rw [hmax] at hm'
    have hmm : mx = mx' := Option.some.inj hm'
    have : ¬ p.maximum.toNat < p.weightedSize.toNat := by simpa [BitVec.ult] using hg
    rcases hor with h1 | h2 <;> omega

/-! ### non-vacuity: a concrete history with a write, a clock jump past the deadline and the sweep's removal -/

def exCfg : Cfg := { expiry := .writing 10 }
def exOps : List XOp := [.base (.set 1 7), .base (.advance 11), .evict 1 true, .base (.get 1)]

example : (xsrun exCfg { now := 0 } exOps).isSome = true := by decide
example : ((xirun exCfg { now := 0, t := [] } exOps).2.map (·.2)) =
    [[], [], [{ key := 1, val := 7, cause := .expiration }], []] := by decide
example : KindOk exCfg.expiry ∧ KindOk exCfg.refresh := by
  refine ⟨?_, ?_⟩ <;> simp [exCfg, KindOk]

end OtterVerif.Props.C07Evict
