/-
  C03 — An entry is never observable after its expiration deadline.

  On the Spec (tied to the code by the SEQ correspondence): for EVERY state, key and configuration,
  an entry whose deadline has been reached (`s.live k = none`, whether or not it is still
  physically present) is returned by no operation, reported as present/previously present by none,
  yielded by no iteration, and no operation other than a write or an installed load makes it
  visible again.  Regenerated ties: every node layout with expiration compares `expiresAt <= now`,
  and the persistence filter skips exactly the entries with `expiresAt <= now`.
-/
import OtterVerif.Proofs.MapLemmas
import OtterVerif.Gen.NodePred
import OtterVerif.Gen.Deadline

namespace OtterVerif.Props.C03
open OtterVerif OtterVerif.Spec

/-- `k` is not observable in `s`: absent, or present with `exp ≤ now` -/
def Dead (s : State) (k : Nat) : Prop := s.live k = none

theorem dead_iff (s : State) (k : Nat) : Dead s k ↔ ∀ e, s.phys k = some e → e.exp ≤ s.now := by
  unfold Dead; rw [live_eq]; exact liveIn_none _ _ _

/-! ### No operation returns or reports a dead entry -/

theorem c03_getIfPresent (c : Cfg) (s : State) (k : Nat) (h : Dead s k) :
    (getIfPresent c s k).2 = .valOk 0 false := by
  unfold getIfPresent lookup; unfold Dead at h; simp [h]

theorem c03_getEntry (c : Cfg) (s : State) (k : Nat) (h : Dead s k) :
    (getEntry c s k).2 = .entry none := by
  unfold getEntry lookup; unfold Dead at h; simp [h]

theorem c03_getEntryQuietly (c : Cfg) (s : State) (k : Nat) (h : Dead s k) :
    getEntryQuietly c s k = .entry none := by
  unfold getEntryQuietly; unfold Dead at h; simp [h]

/-- Set does not report the dead value as "previously associated" -/
theorem c03_set (c : Cfg) (s : State) (k v : Nat) (h : Dead s k) :
    (Spec.set c s k v).2.1 = .valOk v true := by
  unfold Spec.set; unfold Dead at h; simp [h]

theorem c03_setIfAbsent (c : Cfg) (s : State) (k v : Nat) (h : Dead s k) :
    (setIfAbsent c s k v).2.1 = .valOk v true := by
  unfold setIfAbsent; unfold Dead at h; simp [h]

/-- Invalidate does not report the dead entry as invalidated -/
theorem c03_invalidate (s : State) (k : Nat) (h : Dead s k) :
    (invalidate s k).2.1 = .valOk 0 false := by
  unfold invalidate; unfold Dead at h; simp [h]

/-- a compute callback is shown "absent" for a dead key: the action taken is the absent-branch's -/
theorem c03_compute_sees_absent (c : Cfg) (s : State) (k : Nat) (f a : Act) (h : Dead s k) :
    compute c s k f a = compute c s k a a := by
  unfold compute; unfold Dead at h; simp [h]

/-- Cancel on a dead key returns "absent" -/
theorem c03_compute_cancel (c : Cfg) (s : State) (k : Nat) (h : Dead s k) :
    (computeStep c s k .cancel).2.1 = .valOk 0 false := by
  unfold computeStep; unfold Dead at h; simp [h]
  cases s.phys k <;> simp

/-- the counted lookup of Get/BulkGet/ComputeIf* is a miss -/
theorem c03_lookup_miss (c : Cfg) (s : State) (k : Nat) (h : Dead s k) :
    lookup c s k = (miss s, none) := by
  unfold lookup; unfold Dead at h; simp [h]

/-- iteration (All/Keys/Values/Hottest/Coldest, SaveCacheTo) yields live entries only -/
theorem c03_iteration (s : State) : ∀ p ∈ liveEntries s, p.2.exp > s.now := by
  intro p hp
  unfold liveEntries at hp
  have := (List.mem_mergeSort.mp hp)
  simp only [List.mem_filter, Entry.liveAt, decide_eq_true_eq] at this
  omega

/-! ### No resurrection: only a write or an installed load makes a key visible -/

theorem c03_setExpiresAfter_no_resurrection (c : Cfg) (s : State) (k k' : Nat) (d : Int) (h : Dead s k') :
    Dead (setExpiresAfter c s k d) k' := by
  unfold Dead at *
  unfold setExpiresAfter
  split
  · split
    · rename_i e he
      by_cases hk : k' = k
      · subst hk; rw [h] at he; cases he
      · rw [live_eq] at *; exact (liveIn_put_other _ _ _ _ _ hk).trans h
    · exact h
  · exact h

theorem c03_setRefreshableAfter_no_resurrection (c : Cfg) (s : State) (k k' : Nat) (d : Int) (h : Dead s k') :
    Dead (setRefreshableAfter c s k d) k' := by
  unfold Dead at *
  unfold setRefreshableAfter
  split
  · split
    · rename_i e he
      rw [live_eq] at *
      by_cases hk : k' = k
      · subst hk
        show liveIn (put s.m k' { e with ref := satAdd s.now d }) s.now k' = none
        rw [liveIn_put_self]
        have := (liveIn_none _ _ _).mp h e he
        simp [Entry.liveAt]; omega
      · exact (liveIn_put_other _ _ _ _ _ hk).trans h
    · exact h
  · exact h

/-- a read of any key leaves every dead key dead -/
theorem c03_read_no_resurrection (c : Cfg) (s : State) (k k' : Nat) (h : Dead s k') :
    Dead (getIfPresent c s k).1 k' := by
  unfold Dead at *
  have key : (lookup c s k).1.live k' = none := by
    unfold lookup
    cases hl : s.live k with
    | none => simpa [miss, live_eq] using h
    | some e =>
      by_cases hk : k' = k
      · subst hk; rw [h] at hl; cases hl
      · simp only [touch, hit]
        rw [live_eq] at *
        exact (liveIn_put_other _ _ _ _ _ hk).trans h
  unfold getIfPresent
  split <;> rename_i heq <;> rw [heq] at key <;> exact key

/-- the clock moving forward never revives anything -/
theorem c03_advance_no_resurrection (s : State) (k : Nat) (d : Int) (hd : 0 ≤ d) (h : Dead s k) :
    Dead (advance s d) k := by
  rw [dead_iff] at *
  intro e he
  have := h e (by simpa [advance, State.phys] using he)
  simp [advance]; omega

/-- an invalidation never makes anything visible -/
theorem c03_invalidate_no_resurrection (s : State) (k k' : Nat) (h : Dead s k') :
    Dead (invalidate s k).1 k' := by
  unfold Dead at *
  unfold invalidate remove
  cases hp : (s.clearInflight k).phys k with
  | none => simpa [live_eq, State.clearInflight] using h
  | some o =>
    simp only []
    rw [live_eq] at *
    by_cases hk : k' = k
    · subst hk; exact liveIn_erase_self _ _ _
    · exact (liveIn_erase_other _ _ _ _ hk).trans h

/-- an automatic removal never makes anything visible -/
theorem c03_evict_no_resurrection (c : Cfg) (s s' : State) (ev : Event) (k' : Nat) (h : Dead s k')
    (he : evict c s ev = some s') : Dead s' k' := by
  obtain ⟨e, _, _, _, rfl⟩ := evict_some c s s' ev he
  unfold Dead at *
  rw [live_eq] at *
  show liveIn (erase s.m ev.key) s.now k' = none
  by_cases hk : k' = ev.key
  · subst hk; exact liveIn_erase_self _ _ _
  · exact (liveIn_erase_other _ _ _ _ hk).trans h

/-! ### Regenerated ties -/

/-- every node layout with expiration decides "expired" by `expiresAt <= now` (signed) -/
theorem c03_hasExpired_layouts (e r now : BitVec 64) (a : Bool) :
    Gen.NodePred.HasExpired_BE e r a now = BitVec.sle e now ∧
    Gen.NodePred.HasExpired_BER e r a now = BitVec.sle e now ∧
    Gen.NodePred.HasExpired_BERW e r a now = BitVec.sle e now ∧
    Gen.NodePred.HasExpired_BEW e r a now = BitVec.sle e now ∧
    Gen.NodePred.HasExpired_BSE e r a now = BitVec.sle e now ∧
    Gen.NodePred.HasExpired_BSER e r a now = BitVec.sle e now := by
  refine ⟨rfl, rfl, rfl, rfl, rfl, rfl⟩

/-- layouts without expiration never expire -/
theorem c03_hasExpired_none (e r now : BitVec 64) (a : Bool) :
    Gen.NodePred.HasExpired_B e r a now = false ∧ Gen.NodePred.HasExpired_BR e r a now = false ∧
    Gen.NodePred.HasExpired_BRW e r a now = false ∧ Gen.NodePred.HasExpired_BS e r a now = false ∧
    Gen.NodePred.HasExpired_BSR e r a now = false ∧ Gen.NodePred.HasExpired_BW e r a now = false := by
  refine ⟨rfl, rfl, rfl, rfl, rfl, rfl⟩

/-- LoadCacheFrom skips exactly the entries that are dead at load time -/
theorem c03_load_filter (e now : Int) : Gen.Deadline.loadFilterSkips e now = decide (e ≤ now) := by
  unfold Gen.Deadline.loadFilterSkips; rfl

/-! ### Non-vacuity: a physically present, expired entry -/
def sDead : State := { now := 100, m := [(1, { val := 7, weight := 1, exp := 100, ref := maxI64 })] }
example : Dead sDead 1 := by unfold Dead; decide
example : sDead.phys 1 ≠ none := by decide
example : (Spec.set {} sDead 1 9).2.1 = .valOk 9 true := by decide

end OtterVerif.Props.C03
