/-
  C04 / C05 / C07 — the size policy and the table, composed at quiescence.

  Proofs.CacheAgree: when every write event has been replayed and a node is `alive` exactly while it is mapped (the local
  agreement `Agree`), the policy's deques hold exactly the mapped entries' nodes and its running total IS the table's total
  weight.  With the policy-side theorems (bound after evictNodes, eviction guards) this gives the statements C04 and C07 make
  about the cache's contents rather than about the policy's counters.
-/
import OtterVerif.Proofs.CacheAgree
import OtterVerif.Proofs.PolicyJust
import OtterVerif.Proofs.TableEvict
import OtterVerif.Proofs.PolicyFuel

namespace OtterVerif.Props.C04Table
open OtterVerif OtterVerif.Impl.Policy OtterVerif.Impl.Table OtterVerif.Proofs.CacheAgree
open OtterVerif.Proofs.TableRefine (absT)
open OtterVerif.Spec (Cfg Entry)

/-- C05: at quiescence the policy tracks exactly the mapped entries, each once -/
theorem c05_tracked_are_the_mapped {S : List Nat} {p : Policy} {t : Tbl} {live : List Nat} (h : Reach S p)
    (hq : Quiescent S p) (ha : Agree S p t live) : (p.window ++ (p.probation ++ p.prot)).Perm live :=
  linked_perm_live h hq ha

/-- C04 / C05: WeightedSize is the total weight of the entries present -/
theorem c04_weightedSize_is_table_weight {S : List Nat} {p : Policy} {t : Tbl} {live : List Nat} (h : Reach S p)
    (hq : Quiescent S p) (ha : Agree S p t live) (s : Spec.State) (hs : s.m = absT t) (hfit : s.totalWeight < 2 ^ 64) :
    p.weightedSize.toNat = s.totalWeight :=
  weightedSize_toNat h hq ha s hs hfit

/-- C04: **the size bound on the table** — in the quiescent state after an eviction pass (its removals applied to the table)
    the entries present weigh at most the maximum, or every entry present weighs nothing -/
theorem c04_table_bound_after_eviction {S : List Nat} {p : Policy} {t : Tbl} {live : List Nat} (h : Reach S p)
    (hq : Quiescent S (evictNodes p)) (ha : Agree S (evictNodes p) t live) (s : Spec.State) (hs : s.m = absT t)
    (hfit : s.totalWeight < 2 ^ 64) :
    s.totalWeight ≤ (evictNodes p).maximum.toNat ∨ (∀ e ∈ t, e.2.weight = 0) := by
  have hr : Reach S (evictNodes p) := Reach.evict h
  have hw := weightedSize_toNat hr hq ha s hs hfit
  rcases bound_evictNodes (reach_inv h) (evictNodes_never_runs_out (reach_inv h)) with hb | hz
  · left
    have : (evictNodes p).weightedSize.toNat ≤ (evictNodes p).maximum.toNat := by simpa [BitVec.ult] using hb
    omega
  · right
    have hperm := linked_perm_live hr hq ha
    have hzero : ∀ id ∈ live, ((evictNodes p).node id).weight = 0 := fun id hid => hz id (hperm.mem_iff.mpr hid)
    have hmap : (live.map (fun id => ((evictNodes p).node id).weight)) = live.map (fun _ => 0) :=
      List.map_congr_left hzero
    intro e he
    have hmem : e.2.weight ∈ t.map (fun e => e.2.weight) := List.mem_map.mpr ⟨e, he, rfl⟩
    rw [← ha.weights, hmap] at hmem
    obtain ⟨_, _, hx⟩ := List.mem_map.mp hmem
    exact hx.symm

/-- C07: **an Overflow removal is justified at the table** — the guard under which Impl.Policy hands a node to the eviction
    callback (`maximum < weightedSize`, Proofs.PolicyJust) is the spec's condition "the total weight of the entries present
    exceeds the maximum": the spec accepts the removal of a live, non-zero-weight entry in that state -/
theorem c07_overflow_justified_at_table {S : List Nat} {p : Policy} {t : Tbl} {live : List Nat} (h : Reach S p)
    (hq : Quiescent S p) (ha : Agree S p t live) (c : Cfg) (s : Spec.State) (hs : s.m = absT t) (hfit : s.totalWeight < 2 ^ 64)
    (mx : Nat) (hmax : s.maximum = some mx) (hpm : p.maximum.toNat = mx) (hb : c.bounded = true)
    (k : Nat) (e : Entry) (hp : s.phys k = some e) (hx : s.now < e.exp) (hw : e.weight ≠ 0)
    (hg : BitVec.ult p.maximum p.weightedSize = true) : (Proofs.TableEvict.specEvict c s k true).isSome := by
  rw [Proofs.TableEvict.live_evict_accepted_iff c s k e hp hx]
  refine ⟨mx, hmax, hb, hw, Or.inl ?_⟩
  have h1 := weightedSize_toNat h hq ha s hs hfit
  have : p.maximum.toNat < p.weightedSize.toNat := by simpa [BitVec.ult] using hg
  omega

/-- C07: a cache within its maximum loses nothing to size eviction — at the table: when the entries present weigh no more
    than the maximum, the policy's eviction pass removes nothing -/
theorem c07_within_maximum_nothing_evicted {S : List Nat} {p : Policy} {t : Tbl} {live : List Nat} (h : Reach S p)
    (hq : Quiescent S p) (ha : Agree S p t live) (s : Spec.State) (hs : s.m = absT t) (hfit : s.totalWeight < 2 ^ 64)
    (hle : s.totalWeight ≤ p.maximum.toNat) : (evictNodes p).evicted = p.evicted := by
  apply evictNodes_within_bound
  have h1 := weightedSize_toNat h hq ha s hs hfit
  have : ¬ p.maximum.toNat < p.weightedSize.toNat := by omega
  simpa [BitVec.ult] using this

/-! ### non-vacuity: the hypotheses are satisfiable by a reachable, quiescent, agreeing state -/
def q0 : Policy := { maximum := 10, windowMaximum := 1 }
def q1 : Policy := add (mkNode q0 1 1 3 .alive) 1
def t1 : Tbl := [(1, { key := 1, val := 7, weight := 3, exp := maxI64, ref := maxI64 })]

example : Reach [1] q1 := Reach.add 1 (Reach.mk 1 1 3 .alive (Reach.init q0 rfl rfl rfl rfl) (by simp)) (by simp)
example : Quiescent [1] q1 := by
  intro id hid hne
  simp only [List.mem_singleton] at hid
  subst hid
  exact absurd (by decide) hne
example : (q1.node 1).st = .alive ∧ (q1.node 1).weight = 3 ∧ q1.weightedSize = 3 := by decide

example : Agree [1] q1 t1 [1] where
  nodup := by simp
  alive := by
    intro id
    simp only [List.mem_singleton]
    constructor
    · intro h; subst h; exact ⟨rfl, by decide⟩
    · intro h; exact h.1
  weights := by decide

end OtterVerif.Props.C04Table
