/-
  C19 — Saving and reloading a cache reproduces its live contents and deadlines.

  For EVERY saved list, clock offset and limit: LoadCacheFrom attempts exactly the saved entries not expired at load
  time (in file order, within the weight limit); the deadline it restores for a saved deadline in the future is that
  deadline exactly, and for one already passed it is `now + 1` (due); nothing dead is loaded; everything is attempted
  when the saved weight is below the limit.  Regenerated tie: the filter in persistence.go is `expiresAt <= now`.
  The judge (`Spec.Check`, ops save/loadfrom) checks the real encoder/decoder and the real target cache against these.
-/
import OtterVerif.Spec.Core
import OtterVerif.Conc.DrainSkeleton
import OtterVerif.Conc.PersistSkeleton
import OtterVerif.Gen.Skeleton
import OtterVerif.Gen.Deadline
import OtterVerif.Gen.PersistSites
import OtterVerif.Pin.PersistSites

namespace OtterVerif.Props.C19
open OtterVerif OtterVerif.Spec

/-- a saved deadline that lies in the future is restored exactly -/
theorem c19_deadline_restored (now saved : Int) (h : now < saved) (hs : saved ≤ maxI64) :
    restoredDeadline now saved = saved := by
  unfold restoredDeadline satAdd maxI64 at *
  have : max 1 (saved - now) = saved - now := by omega
  rw [this]; split <;> omega

/-- a saved refresh deadline that has passed is loaded as due (one nanosecond from now) -/
theorem c19_deadline_due (now saved : Int) (h : saved ≤ now) (hn : now < maxI64) :
    restoredDeadline now saved = now + 1 := by
  unfold restoredDeadline satAdd maxI64 at *
  have : max 1 (saved - now) = 1 := by omega
  rw [this]; split <;> omega

/-- nothing that is dead at load time is loaded -/
theorem c19_nothing_dead_loaded (lim : Nat) (now : Int) (saved : List Saved) (size : Nat) :
    ∀ e ∈ loadableFrom true lim now size saved, now < e.2.2.2.1 := by
  induction saved generalizing size with
  | nil => intro e he; simp [loadableFrom] at he
  | cons x rest ih =>
    intro e he
    unfold loadableFrom at he
    split at he
    · simp at he
    · split at he
      · exact ih _ e he
      · rename_i hdead
        simp only [Bool.true_and, decide_eq_true_eq] at hdead
        cases he with
        | head => omega
        | tail _ h' => exact ih _ e h'

/-- only saved entries are loaded, in file order -/
theorem c19_loaded_sublist (w : Bool) (lim : Nat) (now : Int) (saved : List Saved) (size : Nat) :
    (loadableFrom w lim now size saved).Sublist saved := by
  induction saved generalizing size with
  | nil => simp [loadableFrom]
  | cons x rest ih =>
    unfold loadableFrom
    split
    · exact List.nil_sublist _
    · split
      · exact (ih _).cons _
      · exact (ih _).cons₂ _

def totalW (l : List Saved) : Nat := (l.map (·.2.2.1)).foldl (· + ·) 0

theorem foldl_add_shift (l : List Nat) (a : Nat) : l.foldl (· + ·) a = a + l.foldl (· + ·) 0 := by
  induction l generalizing a with
  | nil => simp
  | cons x xs ih => simp only [List.foldl_cons]; rw [ih (a + x), ih (0 + x)]; omega

/-- everything (not expired) is loaded when the saved contents fit below the limit -/
theorem c19_all_if_fits (lim : Nat) (now : Int) (saved : List Saved) (size : Nat)
    (hfit : size + totalW saved < lim + (if saved = [] then 1 else 0) ∨ size + totalW saved ≤ lim ∧ ∀ e ∈ saved, 0 < e.2.2.1)
    (hlive : ∀ e ∈ saved, now < e.2.2.2.1) :
    loadableFrom true lim now size saved = saved ∨ saved = [] := by
  induction saved generalizing size with
  | nil => right; rfl
  | cons x rest ih =>
    left
    have hx := hlive x (List.mem_cons_self)
    have htot : totalW (x :: rest) = x.2.2.1 + totalW rest := by
      unfold totalW; simp only [List.map_cons, List.foldl_cons]; rw [foldl_add_shift]; omega
    unfold loadableFrom
    have hsz : ¬ size ≥ lim := by
      rcases hfit with h | ⟨h, hpos⟩
      · simp at h; omega
      · have := hpos x (List.mem_cons_self); omega
    simp only [hsz, ↓reduceIte, Bool.true_and, decide_eq_true_eq]
    have : ¬ x.2.2.2.1 ≤ now := by omega
    simp only [this, ↓reduceIte]
    congr 1
    have hrest := ih (size + x.2.2.1) (by
      rcases hfit with h | ⟨h, hpos⟩
      · left
        simp only [reduceCtorEq, ↓reduceIte, Nat.add_zero] at h
        rw [htot] at h
        split <;> omega
      · right
        exact ⟨by rw [htot] at h; omega, fun e he => hpos e (List.mem_cons_of_mem _ he)⟩)
      (fun e he => hlive e (List.mem_cons_of_mem _ he))
    rcases hrest with h | h
    · exact h
    · subst h; simp [loadableFrom]

/-- regenerated tie: persistence.go skips an entry exactly when `expiresAt <= now` -/
theorem c19_filter_is_le (e now : Int) : Gen.Deadline.loadFilterSkips e now = decide (e ≤ now) := by
  unfold Gen.Deadline.loadFilterSkips; rfl

/-! ### Non-vacuity -/
example : loadableFrom true 10 100 0 [(1, 10, 1, 100, 500), (2, 20, 1, 101, 500)] = [(2, 20, 1, 101, 500)] := by decide
example : restoredDeadline 100 250 = 250 := by decide

/-! ### The order of the calls in persistence.go is the one the theorems assume (regenerated on every run) -/
theorem skeleton_LoadCacheFrom : Gen.Skeleton.LoadCacheFrom = Conc.PersistSkeleton.LoadCacheFrom := by decide
/-- SaveCacheTo walks the entries through Hottest = evictionOrder: the whole walk happens under the eviction lock -/
theorem skeleton_cache_evictionOrder : Gen.Skeleton.cache_evictionOrder = Conc.DrainSkeleton.cache_evictionOrder := by decide
theorem skeleton_SaveCacheTo : Gen.Skeleton.SaveCacheTo = Conc.PersistSkeleton.SaveCacheTo := by decide

/-! ### LoadCacheFrom's arithmetic, regenerated from persistence.go -/

private theorem smax_one_pos (x : BitVec 64) : 0 < (Bv.smax (1#64) x).toInt := by
  unfold Bv.smax
  by_cases h : BitVec.slt (1#64) x = true
  · simp only [h, ↓reduceIte]
    have := (BitVec.slt_eq_decide (x := 1#64) (y := x)).symm ▸ h
    have h1 : (1#64).toInt = 1 := by decide
    simp only [decide_eq_true_eq, h1] at this
    omega
  · simp only [h, Bool.false_eq_true, ↓reduceIte]; decide

/-- the duration handed to SetExpiresAfter / SetRefreshableAfter is at least one nanosecond for EVERY saved deadline and
    clock reading — those setters ignore durations ≤ 0, so a deadline that has passed is restored as due, never skipped -/
theorem c19_gen_restored_duration_positive (saved now : BitVec 64) :
    0 < (Gen.PersistSites.LoadCacheFrom_a8 saved now).toInt ∧ 0 < (Gen.PersistSites.LoadCacheFrom_a9 saved now).toInt :=
  ⟨smax_one_pos _, smax_one_pos _⟩

/-- it is `max 1 (saved - now)`, the expression `restoredDeadline` is built from (no wrap: both readings within ±2^62) -/
theorem c19_gen_restored_duration (saved now : BitVec 64) (hs : -2 ^ 62 ≤ saved.toInt ∧ saved.toInt < 2 ^ 62)
    (hn : -2 ^ 62 ≤ now.toInt ∧ now.toInt < 2 ^ 62) :
    (Gen.PersistSites.LoadCacheFrom_a8 saved now).toInt = max 1 (saved.toInt - now.toInt) ∧
    (Gen.PersistSites.LoadCacheFrom_a9 saved now).toInt = max 1 (saved.toInt - now.toInt) := by
  have hsub : (saved - now).toInt = saved.toInt - now.toInt := by
    rw [BitVec.toInt_sub]
    apply Int.bmod_eq_of_le <;> omega
  have key : (Bv.smax (1#64) (saved - now)).toInt = max 1 (saved.toInt - now.toInt) := by
    unfold Bv.smax
    have h1 : (1#64).toInt = 1 := by decide
    by_cases h : BitVec.slt (1#64) (saved - now) = true
    · simp only [h, ↓reduceIte]
      rw [BitVec.slt_eq_decide, h1, hsub] at h
      simp only [decide_eq_true_eq] at h
      rw [hsub]; omega
    · simp only [h, Bool.false_eq_true, ↓reduceIte]
      rw [BitVec.slt_eq_decide, h1, hsub] at h
      simp only [decide_eq_true_eq] at h
      rw [h1]; omega
  exact ⟨key, key⟩

/-- **F20 (open known finding)**: outside that range the statement is false of the code.  When the saved deadline lies 2^63 ns
    or more ahead of the loading cache's clock, the int64 subtraction wraps negative and the duration handed to
    SetExpiresAfter / SetRefreshableAfter is ONE nanosecond: the entry is restored as due right after the load, not at its saved
    deadline (C19 quantifies over all clock offsets).  Replayed on the implementation by corpus/seq/F20_* and the SEQ persist
    profile's wrapLoad scripts; listed in KNOWN_FINDINGS; `c19_gen_restored_duration` above is the `_partial` statement. -/
theorem c19_restored_duration_wraps (saved now : BitVec 64) (h : saved.toInt - now.toInt ≥ 2 ^ 63) :
    (Gen.PersistSites.LoadCacheFrom_a8 saved now).toInt = 1 ∧ (Gen.PersistSites.LoadCacheFrom_a9 saved now).toInt = 1 := by
  have hs := BitVec.toInt_lt (x := saved)
  have hn := BitVec.le_toInt (x := now)
  have hsub : (saved - now).toInt = saved.toInt - now.toInt - 2 ^ 64 := by
    rw [BitVec.toInt_sub]
    have hlt : saved.toInt - now.toInt < 2 ^ 64 := by omega
    unfold Int.bmod
    simp only [Nat.reducePow, Int.reducePow] at *
    split <;> omega
  have key : (Bv.smax (1#64) (saved - now)).toInt = 1 := by
    unfold Bv.smax
    have h1 : (1#64).toInt = 1 := by decide
    have hf : BitVec.slt (1#64) (saved - now) = false := by
      rw [BitVec.slt_eq_decide, h1, hsub]
      simp only [decide_eq_false_iff_not, Int.not_lt]
      omega
    simp only [hf, Bool.false_eq_true, ↓reduceIte]
    exact h1
  exact ⟨key, key⟩

/-- the witness of corpus/seq/F20_load_duration_wrap.script: saved deadline 2^62 + 1000 + 1 h, load clock -2^62 + 1808 -/
example : (Gen.PersistSites.LoadCacheFrom_a8 4611689618427388904#64 (BitVec.ofInt 64 (-4611686018427386096))).toInt = 1 := by decide

/-- an entry is skipped iff the cache expires entries and the saved deadline is at or before the load instant (`≤`: a deadline
    equal to the load instant is expired), and deadlines that mean "never" are not restored -/
theorem c19_gen_filter (w : Bool) (saved now : BitVec 64) :
    Gen.PersistSites.LoadCacheFrom_c4 w saved now = (w && decide (saved.toInt ≤ now.toInt)) ∧
    Gen.PersistSites.LoadCacheFrom_c7 w saved = (w && (saved != 9223372036854775807#64)) := by
  refine ⟨?_, rfl⟩
  unfold Gen.PersistSites.LoadCacheFrom_c4
  rw [BitVec.sle_eq_decide]


/-- the judge's account of LoadCacheFrom's warm-up reads (two while the loaded weight is within a quarter of the limit, one
    within half — Spec.Check, op `loadfrom`) uses the code's thresholds, and the limit is the smaller of the saved and the
    target's maximum; the loop runs while the loaded weight is below it -/
theorem c19_gen_thresholds (saved target size lim : BitVec 64) :
    Gen.PersistSites.LoadCacheFrom_a2 target saved = Bv.umin saved target ∧
    Gen.PersistSites.LoadCacheFrom_a3 lim = lim / 4#64 ∧
    Gen.PersistSites.LoadCacheFrom_a4 (Gen.PersistSites.LoadCacheFrom_a3 lim) = 2#64 * (lim / 4#64) ∧
    Gen.PersistSites.LoadCacheFrom_c1 lim size = BitVec.ult size lim ∧
    Gen.PersistSites.LoadCacheFrom_c5 (lim / 4#64) size = BitVec.ule size (lim / 4#64) ∧
    Gen.PersistSites.LoadCacheFrom_c6 (2#64 * (lim / 4#64)) size = BitVec.ule size (2#64 * (lim / 4#64)) :=
  ⟨rfl, rfl, rfl, rfl, rfl, rfl⟩


end OtterVerif.Props.C19
