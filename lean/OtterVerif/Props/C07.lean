/-
  C07 — Entries disappear only for a sanctioned, truthful reason.

  The SEQ oracle accepts an automatic removal reported by the cache only through `Spec.evict`;
  these theorems say what `evict` accepts, for EVERY state, configuration and event: Overflow only
  when the total weight exceeds the maximum at that moment (or the entry alone does) and never
  for zero-weight entries or unbounded caches; Expiration only when the deadline has passed.

  The second half is about the transcription of policy.go itself (Impl.Policy, tied by UNIT-policy): the converse of the
  bound.  Every node `evictFromMain` hands to the eviction callback is removed in an iteration whose guard
  `weightedSize > maximum` held in the very state it is removed from (`Just`); hence a policy within its maximum — the
  running total being the sum of the tracked weights in every reachable state — evicts nothing, and `add` evicts the new
  arrival on the spot only if it alone exceeds the maximum.
-/
import OtterVerif.Proofs.MapLemmas
import OtterVerif.Proofs.PolicyJust
import OtterVerif.Conc.PolicySkeleton
import OtterVerif.Gen.Skeleton

namespace OtterVerif.Props.C07
open OtterVerif OtterVerif.Spec

theorem c07_overflow_justified (c : Cfg) (s s' : State) (k v : Nat)
    (h : evict c s ⟨k, v, .overflow⟩ = some s') :
    c.bounded = true ∧ ∃ mx e, s.maximum = some mx ∧ s.phys k = some e ∧ e.val = v ∧
      s.now < e.exp ∧ e.weight ≠ 0 ∧ (s.totalWeight > mx ∨ e.weight > mx) := by
  obtain ⟨e, he, hv, hok, _⟩ := evict_some c s s' _ h
  unfold evictOk at hok
  simp only at hok
  split at hok
  · cases hok
  · rename_i mx hmx
    simp only [Bool.and_eq_true, Bool.or_eq_true, decide_eq_true_eq, bne_iff_ne, ne_eq, Entry.liveAt] at hok
    exact ⟨hok.1.1.1, mx, e, hmx, he, hv, hok.1.1.2, hok.1.2, hok.2⟩

theorem c07_expiration_justified (c : Cfg) (s s' : State) (k v : Nat)
    (h : evict c s ⟨k, v, .expiration⟩ = some s') :
    ∃ e, s.phys k = some e ∧ e.val = v ∧ e.exp ≤ s.now := by
  obtain ⟨e, he, hv, hok, _⟩ := evict_some c s s' _ h
  unfold evictOk at hok
  simp only [Entry.liveAt, Bool.not_eq_true', decide_eq_false_iff_not] at hok
  exact ⟨e, he, hv, by omega⟩

/-- automatic removals are only ever Overflow or Expiration -/
theorem c07_only_two_causes (c : Cfg) (s s' : State) (ev : Event) (h : evict c s ev = some s') :
    ev.cause = .overflow ∨ ev.cause = .expiration := by
  obtain ⟨e, _, _, hok, _⟩ := evict_some c s s' _ h
  unfold evictOk at hok
  cases hc : ev.cause <;> simp_all

/-- a cache without a size bound never reports Overflow -/
theorem c07_unbounded_never_overflow (c : Cfg) (s : State) (k v : Nat) (h : c.bounded = false) :
    evict c s ⟨k, v, .overflow⟩ = none := by
  cases he : evict c s ⟨k, v, .overflow⟩ with
  | none => rfl
  | some s' => have := (c07_overflow_justified c s s' k v he).1; simp_all

/-- zero-weight entries survive any size pressure -/
theorem c07_zero_weight_survives (c : Cfg) (s : State) (k v : Nat) (e : Entry)
    (hp : s.phys k = some e) (hw : e.weight = 0) : evict c s ⟨k, v, .overflow⟩ = none := by
  cases he : evict c s ⟨k, v, .overflow⟩ with
  | none => rfl
  | some s' =>
    obtain ⟨_, mx, e', _, hp', _, _, hw', _⟩ := c07_overflow_justified c s s' k v he
    rw [hp] at hp'; cases hp'; exact absurd hw hw'

/-- a cache within its maximum whose entries each fit loses nothing to size eviction -/
theorem c07_no_spurious (c : Cfg) (s : State) (k v : Nat) (mx : Nat) (hm : s.maximum = some mx)
    (htot : s.totalWeight ≤ mx) (hall : ∀ e, s.phys k = some e → e.weight ≤ mx) :
    evict c s ⟨k, v, .overflow⟩ = none := by
  cases he : evict c s ⟨k, v, .overflow⟩ with
  | none => rfl
  | some s' =>
    obtain ⟨_, mx', e', hm', hp', _, _, _, hor⟩ := c07_overflow_justified c s s' k v he
    rw [hm] at hm'; cases hm'
    have := hall e' hp'
    omega

/-- a live entry is never removed as expired -/
theorem c07_live_not_expired (c : Cfg) (s : State) (k v : Nat) (e : Entry)
    (hp : s.phys k = some e) (hl : s.now < e.exp) : evict c s ⟨k, v, .expiration⟩ = none := by
  cases he : evict c s ⟨k, v, .expiration⟩ with
  | none => rfl
  | some s' =>
    obtain ⟨e', hp', _, hd⟩ := c07_expiration_justified c s s' k v he
    rw [hp] at hp'; cases hp'; omega

/-- an accepted removal removes exactly the reported entry and nothing else -/
theorem c07_removes_only_reported (c : Cfg) (s s' : State) (ev : Event) (k' : Nat)
    (h : evict c s ev = some s') (hk : k' ≠ ev.key) : s'.phys k' = s.phys k' := by
  obtain ⟨e, _, _, _, rfl⟩ := evict_some c s s' ev h
  exact find_erase_other _ _ _ hk

/-! ### the transcription of policy.go: nothing is evicted that need not be -/

section policy
open OtterVerif.Impl OtterVerif.Impl.Policy

/-- every size eviction of `evictNodes` happens in a state whose running total exceeds the maximum: the result is reached
    from the state the window pass left by a chain of evictions each guarded by `maximum < weightedSize` -/
theorem c07_every_eviction_guarded (p : Policy) : Just (evictFromWindow p).1 (evictNodes p) := just_evictNodes p

/-- **a cache within its maximum loses nothing to size eviction** -/
theorem c07_within_maximum_nothing_evicted (p : Policy) (hb : p.weightedSize.toNat ≤ p.maximum.toNat) :
    (evictNodes p).evicted = p.evicted :=
  evictNodes_within_bound p (by simp [BitVec.ult]; exact hb)

/-- the same in terms of the entries: in every state reachable by any order of events, if the sum of the weights of the
    tracked entries (in the policy's own uint64 arithmetic) does not exceed the maximum, evictNodes removes nothing -/
theorem c07_sum_within_maximum_nothing_evicted {S : List Nat} {p : Policy} (h : Reach S p)
    (hb : (wsum p (all p)).toNat ≤ p.maximum.toNat) : (evictNodes p).evicted = p.evicted := by
  have hw : p.weightedSize = wsum p (all p) := reach_winv h
  exact c07_within_maximum_nothing_evicted p (by rw [hw]; exact hb)

/-- if evictNodes removed anything, the running total exceeded the maximum -/
theorem c07_eviction_implies_overflow (p : Policy) (hne : (evictNodes p).evicted ≠ p.evicted) :
    p.maximum.toNat < p.weightedSize.toNat := by
  have := evictNodes_evicts_only_above p hne
  simpa [BitVec.ult] using this

/-- a new arrival is handed to the eviction callback by `add` only if its weight alone exceeds the maximum -/
theorem c07_add_evicts_only_oversized (p : Policy) (id : Nat) (hw : (w64 (p.node id).weight).toNat ≤ p.maximum.toNat) :
    (add p id).evicted = p.evicted :=
  add_evicts_only_oversized p id (by simp [BitVec.ult]; exact hw)

/-- non-vacuity: a reachable policy holding weight 5 of 10, on which evictNodes is the identity on the evicted list -/
example : (evictNodes (add (mkNode ({ maximum := 10, windowMaximum := 1 } : Policy) 1 5 2 .alive) 1)).evicted = [] := by decide

/-! the eviction loops have the shape the transcription follows (skeletons regenerated from policy.go on every run) -/
theorem skeleton_policy_evictFromMain : Gen.Skeleton.policy_evictFromMain = Conc.PolicySkeleton.policy_evictFromMain := by decide
theorem skeleton_policy_evictFromWindow : Gen.Skeleton.policy_evictFromWindow = Conc.PolicySkeleton.policy_evictFromWindow := by decide
theorem skeleton_policy_evictNodes : Gen.Skeleton.policy_evictNodes = Conc.PolicySkeleton.policy_evictNodes := by decide

end policy

/-! ### Non-vacuity -/
def eA : Entry := { val := 7, weight := 1, exp := maxI64, ref := maxI64 }
def eB : Entry := { val := 8, weight := 1, exp := maxI64, ref := maxI64 }
def sFull : State := { now := 5, maximum := some 1, m := [(1, eA), (2, eB)] }
example : (evict { bound := .size 1 } sFull ⟨1, 7, .overflow⟩).isSome = true := by decide
example : (evict { bound := .size 1 } sFull ⟨1, 7, .expiration⟩) = none := by decide

end OtterVerif.Props.C07
