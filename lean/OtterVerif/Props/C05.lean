/-
  Props.C05 — "No entry is present but unknown to the eviction policy, and no removed entry is still tracked by it … for
  all orders in which write events reach the maintenance thread relative to each other and to evictions."

  The theorems are about Impl.Policy (the transcription of policy.go that UNIT-policy runs in lock-step with the real
  policy, out-of-order events included).  `Reach S p` (Proofs.PolicyLink) is the set of policy states reachable by ANY
  sequence of: node creation and removal by the table, the add/update/delete write events in ANY order, reads,
  evictNodes, climb, SetMaximum.  The single ordering assumption is that each node is introduced at most once (the table
  emits exactly one add or update event per node; the generated trace of UNIT-policy/CONC-policy obeys it by construction).
  No bound on the number of events, nodes, weights or maxima.
-/
import OtterVerif.Proofs.PolicyWeight

namespace OtterVerif.Props.C05
open OtterVerif.Impl.Policy

/-- no removed entry is still tracked: a node linked in any policy deque is never dead, and it has been introduced -/
theorem c05_linked_not_dead {S : List Nat} {p : Policy} (h : Reach S p) (id : Nat) (hl : Linked p id) :
    (p.node id).st ≠ .dead ∧ id ∈ S :=
  let r := (reach_inv h).a id ((linked_iff_all p id).mp hl)
  ⟨r.2, r.1⟩

/-- no entry is present but unknown: once its introducing event has been processed, a node that is still alive (still
    mapped by the table) is linked in a deque — whatever happened in between (evictions, reordered events of other nodes) -/
theorem c05_alive_is_linked {S : List Nat} {p : Policy} (h : Reach S p) (id : Nat) (hs : id ∈ S)
    (ha : (p.node id).st = .alive) : Linked p id :=
  (linked_iff_all p id).mpr ((reach_inv h).b id hs ha)

/-- the orderings enumerate each entry once: no node is linked twice (within a deque or across deques) -/
theorem c05_linked_once {S : List Nat} {p : Policy} (h : Reach S p) :
    (p.window ++ (p.probation ++ p.prot)).Nodup :=
  (reach_inv h).c

/-- at quiescence (every removed node's delete event has been processed, so no introduced node is merely retired) the
    deques hold exactly the introduced nodes that are alive -/
theorem c05_quiescent_exact {S : List Nat} {p : Policy} (h : Reach S p)
    (hq : ∀ id, id ∈ S → (p.node id).st ≠ .alive → (p.node id).st = .dead) (id : Nat) :
    Linked p id ↔ (id ∈ S ∧ (p.node id).st = .alive) := by
  constructor
  · intro hl
    have ⟨hnd, hs⟩ := c05_linked_not_dead h id hl
    refine ⟨hs, ?_⟩
    cases hst : (p.node id).st with
    | alive => rfl
    | retired => exact absurd (hq id hs (by rw [hst]; exact fun e => NState.noConfusion e)) (by rw [hst]; exact fun e => NState.noConfusion e)
    | dead => exact absurd hst hnd
  · intro ⟨hs, ha⟩
    exact c05_alive_is_linked h id hs ha

/-- the delete event always leaves the node dead and unlinked, also when it overtakes the node's add event -/
theorem c05_delete_final {S : List Nat} {p : Policy} (h : Reach S p) (id : Nat) :
    ((delete p id).node id).st = .dead ∧ ¬ Linked (delete p id) id := by
  refine ⟨makeDead_dead p id, fun hl => ?_⟩
  have := c05_linked_not_dead (Reach.delete id h) id hl
  exact this.1 (makeDead_dead p id)

/-- WeightedSize equals the sum of the weights of the entries the policy tracks — as uint64 arithmetic, exactly as in Go —
    in every reachable state: no order of add/update/delete events and evictions can leave weight uncounted or counted twice -/
theorem c05_weightedSize_is_sum {S : List Nat} {p : Policy} (h : Reach S p) :
    p.weightedSize = wsum p (p.window ++ (p.probation ++ p.prot)) :=
  reach_winv h

/-- with c05_quiescent_exact: at quiescence the counter is the sum over exactly the alive introduced nodes; in particular
    a zero counter with non-zero weights tracked, or an underflowed counter, is unreachable -/
theorem c05_empty_is_zero {S : List Nat} {p : Policy} (h : Reach S p)
    (he : p.window = [] ∧ p.probation = [] ∧ p.prot = []) : p.weightedSize = 0 := by
  have := reach_winv h
  unfold WInv all at this
  rw [this, he.1, he.2.1, he.2.2]; rfl

/-! ### Non-vacuity: a concrete reachable state with an out-of-order history -/

def q0 : Policy := { maximum := 10, windowMaximum := 1 }

/-- add 1; (delete 3 overtakes add 3); update 2 replaces 1; add 3 arrives late -/
theorem c05_trace_reachable : Reach [3, 2, 1]
    (add (update (mkNode (retire (delete (mkNode (add (mkNode q0 1 5 2 .alive) 1) 3 7 1 .alive) 3) 1) 2 5 3 .alive) 2 1) 3) :=
  Reach.add 3
    (Reach.update 2 1
      (Reach.mk 2 5 3 .alive
        (Reach.retire 1
          (Reach.delete 3
            (Reach.mk 3 7 1 .alive
              (Reach.add 1 (Reach.mk 1 5 2 .alive (Reach.init q0 rfl rfl rfl rfl) (by simp)) (by simp))
              (by simp))))
        (by simp))
      (by simp))
    (by simp)

end OtterVerif.Props.C05
