/-
  C20 — Statistics count exactly what happened (Spec level; the adder is `Props.C20Conc` over `Conc.Adder`).

  For EVERY state: each counting lookup adds exactly one to hits+misses and is a hit exactly when it found an
  unexpired entry; writes, invalidations, deadline setters and quiet reads change no lookup counter; each
  loader invocation adds exactly one to successes+failures (not-found is a success); each accepted automatic
  removal adds one eviction and the entry's weight; no counter ever decreases.
-/
import OtterVerif.Proofs.MapLemmas

namespace OtterVerif.Props.C20
open OtterVerif OtterVerif.Spec

def lookups (s : State) : Nat := s.stats.hits + s.stats.misses

theorem c20_lookup_counts_one (c : Cfg) (s : State) (k : Nat) :
    lookups (lookup c s k).1 = lookups s + 1 ∧
    ((lookup c s k).1.stats.hits = s.stats.hits + 1 ↔ (s.live k).isSome = true) := by
  unfold lookup lookups
  cases h : s.live k with
  | none => simp [miss]; omega
  | some e => simp [touch, hit]; omega

theorem c20_getIfPresent_counts_one (c : Cfg) (s : State) (k : Nat) :
    lookups (getIfPresent c s k).1 = lookups s + 1 := by
  have := (c20_lookup_counts_one c s k).1
  unfold getIfPresent
  split <;> rename_i heq <;> rw [heq] at this <;> exact this

theorem remove_stats (s : State) (k : Nat) (c : Cause) : (remove s k c).1.stats = s.stats := by
  unfold remove; cases s.phys k <;> rfl

theorem computeStep_stats (c : Cfg) (s : State) (k : Nat) (act : Act) : (computeStep c s k act).1.stats = s.stats := by
  unfold computeStep
  cases act with
  | write v => rfl
  | invalidate => exact remove_stats _ _ _
  | cancel =>
    simp only
    cases s.live k with
    | some o => rfl
    | none =>
      simp only
      cases s.phys k with
      | none => rfl
      | some o => exact remove_stats _ _ _
  | bad => rfl
  | panic => rfl

theorem c20_compute_counts (c : Cfg) (s : State) (k : Nat) (f a : Act) :
    (compute c s k f a).2.1 ≠ .panic →
    lookups (compute c s k f a).1 = lookups s + 1 := by
  intro hnp
  unfold compute at *
  unfold lookups
  cases hl : s.live k with
  | none =>
    simp only [hl] at hnp ⊢
    cases a with
    | panic => simp at hnp
    | bad => simp at hnp
    | write v => simp only; rw [computeStep_stats]; simp [miss]; omega
    | invalidate => simp only; rw [computeStep_stats]; simp [miss]; omega
    | cancel => simp only; rw [computeStep_stats]; simp [miss]; omega
  | some e =>
    simp only [hl] at hnp ⊢
    cases f with
    | panic => simp at hnp
    | bad => simp at hnp
    | write v => simp only; rw [computeStep_stats]; simp [hit]; omega
    | invalidate => simp only; rw [computeStep_stats]; simp [hit]; omega
    | cancel => simp only; rw [computeStep_stats]; simp [hit]; omega

/-- writes, invalidations and deadline setters are not lookups -/
theorem c20_writes_count_nothing (c : Cfg) (s : State) (k v : Nat) (d : Int) :
    (Spec.set c s k v).1.stats = s.stats ∧ (invalidate s k).1.stats = s.stats ∧
    (setExpiresAfter c s k d).stats = s.stats ∧ (setRefreshableAfter c s k d).stats = s.stats ∧
    (invalidateAll s).1.stats = s.stats := by
  refine ⟨rfl, ?_, ?_, ?_, rfl⟩
  · unfold invalidate remove; cases (s.clearInflight k).phys k <;> rfl
  · unfold setExpiresAfter; split <;> (try split) <;> rfl
  · unfold setRefreshableAfter; split <;> (try split) <;> rfl

theorem c20_setIfAbsent_counts_nothing (c : Cfg) (s : State) (k v : Nat) :
    (setIfAbsent c s k v).1.stats = s.stats := by
  unfold setIfAbsent; cases s.live k <;> rfl

theorem c20_load_counts_one (s : State) (o : LoadOutcome) :
    (recordLoad s o).stats.loadOk + (recordLoad s o).stats.loadFail = s.stats.loadOk + s.stats.loadFail + 1 ∧
    ((recordLoad s o).stats.loadOk = s.stats.loadOk + 1 ↔ (∃ v, o = .ok v) ∨ (∃ v, o = .notFound v)) := by
  unfold recordLoad; cases o <;> simp <;> omega

theorem c20_eviction_counted (c : Cfg) (s s' : State) (ev : Event) (h : evict c s ev = some s') :
    s'.stats.evictions = s.stats.evictions + 1 ∧
    ∃ e, s.phys ev.key = some e ∧ s'.stats.evictionWeight = s.stats.evictionWeight + e.weight := by
  obtain ⟨e, he, _, _, rfl⟩ := evict_some c s s' ev h
  exact ⟨rfl, e, he, rfl⟩

/-- explicit removals are not evictions -/
theorem c20_invalidate_not_eviction (s : State) (k : Nat) :
    (invalidate s k).1.stats.evictions = s.stats.evictions := by
  unfold invalidate remove; cases (s.clearInflight k).phys k <;> rfl

/-- counters never decrease -/
def le (a b : Stats) : Prop :=
  a.hits ≤ b.hits ∧ a.misses ≤ b.misses ∧ a.loadOk ≤ b.loadOk ∧ a.loadFail ≤ b.loadFail ∧
  a.evictions ≤ b.evictions ∧ a.evictionWeight ≤ b.evictionWeight

theorem c20_monotone_lookup (c : Cfg) (s : State) (k : Nat) : le s.stats (lookup c s k).1.stats := by
  unfold lookup le
  cases s.live k <;> simp [miss, touch, hit]

theorem c20_monotone_load (s : State) (o : LoadOutcome) : le s.stats (recordLoad s o).stats := by
  unfold recordLoad le; cases o <;> simp

theorem c20_monotone_evict (c : Cfg) (s s' : State) (ev : Event) (h : evict c s ev = some s') : le s.stats s'.stats := by
  obtain ⟨e, _, _, _, rfl⟩ := evict_some c s s' ev h
  unfold le evictApply State.clearInflight; simp

/-! ### Non-vacuity -/
def e1 : Entry := { val := 7, weight := 3, exp := 500, ref := maxI64 }
def s1 : State := { now := 100, m := [(1, e1)] }
example : (lookup {} s1 1).1.stats.hits = 1 ∧ (lookup {} s1 2).1.stats.misses = 1 := by decide

end OtterVerif.Props.C20
