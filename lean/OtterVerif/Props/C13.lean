/-
  C13 — Expired entries are swept and reported within one timer tick.

  Model: Impl.Wheel (transcription of internal/expiration/variable.go), tied to the code by UNIT-wheel (exact bucket
  contents in link order after every Add/Delete/DeleteExpired; constants reported by the code and compared) and judged on
  every sweep by the C13 oracle (no scheduled node overdue by a full tick, nothing expired early).

  Theorems (all deadlines, all clock values, all jumps), stated for one wheel level with tick size S and B buckets —
  the five levels of the code are the instances (2^30,64) (2^36,64) (2^42,32) (2^47,4) (2^49,1):
    * placement window: a deadline at distance < S·B lies at most B ticks ahead; at distance ≥ S at least one tick ahead;
    * visit lemma: a sweep from t to T visits the bucket of every tick in [tick t, tick T];
    * a bucket that a sweep does not visit holds only ticks after T (so the window invariant survives the sweep);
    * a deadline whose tick is behind T's tick is behind T (what is expired was due), and conversely a node expired by the
      comparison `deadline < T` is never early;
    * an already due deadline (behind the wheel's time: the write raced with a later sweep) is scheduled for the current
      tick, whose bucket is the first one the next sweep visits (the race clause; F8 before the repair);
    * the int64 → wheel-time map is order preserving (negative clock readings; F14 before the repair).
  Lifted through the nested bucket loops of DeleteExpired (Proofs.WheelSweep): for every wheel reachable by Add / Delete /
  DeleteExpired with a monotone clock (any deadlines, any jumps), every scheduled timer event is correctly placed for the
  wheel's time — the right level, the right bucket, level 0 holding the current and later ticks, higher levels only later
  ticks; DeleteExpired(T) re-establishes that for T.  Hence after a sweep at T no scheduled event lies in a tick before T's:
  an entry whose deadline and whose Add both lie more than one tick before T has been handed to expireNode.
-/
import OtterVerif.Impl.Wheel
import OtterVerif.Proofs.WheelSweep
import OtterVerif.Proofs.WheelGen

namespace OtterVerif.Props.C13
open OtterVerif.Impl.Wheel

/-! ### one level of the wheel, generic in tick size `S` and bucket count `B` -/

/-- a deadline closer than `S*B` is at most `B` ticks ahead of the wheel's time -/
theorem c13_window_upper (S B t d : Nat) (hS : 0 < S) (h : t ≤ d) (hlt : d - t < S * B) : d / S ≤ t / S + B := by
  have : d < t + S * B := by omega
  calc d / S ≤ (t + S * B) / S := Nat.div_le_div_right (by omega)
    _ = t / S + B := by rw [Nat.add_mul_div_left _ _ hS]

/-- a deadline at least `S` away is at least one tick ahead (levels ≥ 1 never hold the current tick) -/
theorem c13_window_lower_strict (S t d : Nat) (hS : 0 < S) (h : t + S ≤ d) : t / S < d / S := by
  have : (t + S) / S ≤ d / S := Nat.div_le_div_right h
  have e : (t + S) / S = t / S + 1 := by
    rw [Nat.add_div_right _ hS]
  omega

theorem c13_window_lower (S t d : Nat) (h : t ≤ d) : t / S ≤ d / S := Nat.div_le_div_right h

/-- slot `x` is visited by a sweep of this level from time `t` to time `T` (deleteExpiredFromBucket) -/
def Visited (S B t T x : Nat) : Prop := ∃ k, k < min (T / S - t / S + 1) B ∧ x = (t / S % B + k) % B

/-- visit lemma: the bucket of every tick between the previous and the current tick is visited -/
theorem c13_visit (S B t T e : Nat) (hB : 0 < B) (h1 : t / S ≤ e / S) (h2 : e / S ≤ T / S) : Visited S B t T (e / S % B) := by
  unfold Visited
  by_cases hall : B ≤ T / S - t / S + 1
  · -- all B buckets are visited: pick the offset of e's slot from the start slot
    refine ⟨(e / S % B + B - t / S % B) % B, ?_, ?_⟩
    · have := Nat.mod_lt (e / S % B + B - t / S % B) hB
      omega
    · have ha := Nat.mod_lt (e / S) hB
      have hb := Nat.mod_lt (t / S) hB
      rw [Nat.add_mod_mod]
      have : t / S % B + (e / S % B + B - t / S % B) = e / S % B + B := by omega
      rw [this, Nat.add_mod_right, Nat.mod_mod]
  · refine ⟨e / S - t / S, by omega, ?_⟩
    rw [Nat.mod_add_mod]
    congr 1
    omega

/-- a bucket the sweep does not visit holds, within the window, only ticks after `T` -/
theorem c13_unvisited_is_future (S B t T e : Nat) (hB : 0 < B) (h1 : t / S ≤ e / S)
    (hnv : ¬ Visited S B t T (e / S % B)) : T / S < e / S := by
  apply Nat.lt_of_not_le
  intro h2
  exact hnv (c13_visit S B t T e hB h1 h2)

/-- the first bucket a sweep visits is the one of the wheel's current tick -/
theorem c13_current_tick_first (S B t T : Nat) (hB : 0 < B) (hadv : t / S < T / S) : Visited S B t T (t / S % B) := by
  refine ⟨0, by omega, ?_⟩
  simp [Nat.mod_mod]

/-- what is behind by a tick is behind; what the wheel expires (`deadline < T`) is never early -/
theorem c13_tick_behind (S d T : Nat) (h : d / S < T / S) : d < T := by
  apply Nat.lt_of_not_le
  intro hle
  have := Nat.div_le_div_right (c := S) hle
  omega

/-- more than one tick overdue means the tick is strictly behind -/
theorem c13_overdue_tick (S d T : Nat) (hS : 0 < S) (h : d + S ≤ T) : d / S < T / S :=
  c13_window_lower_strict S d T hS h

/-! ### the code's levels and `findBucket` -/

theorem spans_are_ticks_times_buckets :
    span 1 = 2 ^ shift 0 * buckets 0 ∧ span 2 = 2 ^ shift 1 * buckets 1 ∧
    span 3 = 2 ^ shift 2 * buckets 2 ∧ span 4 = 2 ^ shift 3 * buckets 3 := by decide

/-- the race clause: a deadline already behind the wheel's time is scheduled in the bucket of the current tick at level 0 -/
theorem c13_due_goes_to_current_tick (t d : Nat) (h : d < t) : findBucket t d = (0, (t >>> shift 0) % buckets 0) := by
  unfold findBucket
  simp only [h, ↓reduceIte]
  have : (t + two64 - t) % two64 = 0 := by
    have : t + two64 - t = two64 := by omega
    rw [this]; exact Nat.mod_self _
  rw [this]
  have : (0 : Nat) < span 1 := by decide
  simp [this]

/-- level 0 takes every deadline closer than 64 ticks, in the bucket of its own tick -/
theorem c13_level0 (t d : Nat) (h : t ≤ d) (hd : d < two64) (hc : d - t < span 1) :
    findBucket t d = (0, (d >>> shift 0) % buckets 0) := by
  unfold findBucket
  have : ¬ d < t := by omega
  simp only [this, ↓reduceIte]
  have : (d + two64 - t) % two64 = d - t := by
    have : d + two64 - t = two64 + (d - t) := by omega
    rw [this, Nat.add_mod_left]
    apply Nat.mod_eq_of_lt
    unfold two64 at *; omega
  rw [this]
  simp [hc]

/-- int64 clock readings map to the wheel's time line in order (negative readings before positive ones) -/
theorem c13_wheelTime_mono (a b : Int) (ha : -9223372036854775808 ≤ a) (hb : b ≤ 9223372036854775807) (h : a ≤ b) :
    wheelTime a ≤ wheelTime b := by
  unfold wheelTime
  omega

theorem c13_wheelTime_lt (a b : Int) (ha : -9223372036854775808 ≤ a) (hb : b ≤ 9223372036854775807) (h : a < b) :
    wheelTime a < wheelTime b := by
  unfold wheelTime
  omega

/-! ### The sweep, for every reachable wheel -/

/-- the placement invariant holds in every reachable wheel -/
theorem c13_wheel_invariant {w : Wheel} (h : WReach w) : InvAt w.time w := (wreach_inv h).2

/-- after DeleteExpired(T) every event still scheduled lies in T's tick or a later one (on the 2^30 ns time line): nothing that
    is overdue by a full tick survives a sweep -/
theorem c13_nothing_overdue_after_sweep {w : Wheel} (h : WReach w) (T : Nat) (hle : w.time ≤ T) (hT : T < two64)
    (l s : Nat) (x : Ent) (hx : x ∈ (deleteExpired w T).1.bucket l s) : T >>> 30 ≤ x.e >>> 30 := by
  have hinv := (deleteExpired_inv w T hT hle (wreach_inv h).2).2
  have := good_not_overdue T l s x (hinv.2 l s x hx)
  have s0 : shift 0 = 30 := by decide
  rw [s0] at this; exact this

/-- in the terms of C13: an event whose deadline lies more than one tick before T and that was scheduled (its Add, i.e. the
    write's maintenance) more than one tick before T is not in the wheel after the sweep at T -/
theorem c13_overdue_is_gone {w : Wheel} (h : WReach w) (T : Nat) (hle : w.time ≤ T) (hT : T < two64)
    (l s : Nat) (x : Ent) (hover : x.e + 2 ^ 30 ≤ T) : x ∉ (deleteExpired w T).1.bucket l s := by
  intro hx
  have h1 := c13_nothing_overdue_after_sweep h T hle hT l s x hx
  have h2 : x.e >>> 30 < T >>> 30 := by
    rw [Nat.shiftRight_eq_div_pow, Nat.shiftRight_eq_div_pow]
    have hp : 0 < 2 ^ 30 := Nat.pow_pos (by omega)
    have h3 : (x.e + 2 ^ 30) / 2 ^ 30 ≤ T / 2 ^ 30 := Nat.div_le_div_right hover
    rw [Nat.add_div_right _ hp] at h3
    omega
  omega

/-- the time from which an event counts as scheduled is its deadline, or the wheel's time at its Add if that is later -/
theorem c13_effective_time {w : Wheel} (h : WReach w) (l s : Nat) (x : Ent) (hx : x ∈ w.bucket l s) :
    x.d ≤ x.e ∧ x.e < two64 :=
  ⟨((wreach_inv h).2.2 l s x hx).de, ((wreach_inv h).2.2 l s x hx).bd⟩

/-! ### The model's arithmetic is the code's (regenerated from internal/expiration/variable.go on every run)

The tables `buckets`, `spans`, `shift` with their initialisers, `wheelTime`/`clockTime` and every pure right-hand side and
condition of findBucket / DeleteExpired / deleteExpiredFromBucket are translated into `Gen.Wheel` over `BitVec 64`; the
theorems below relate them, for all 64-bit values, to the natural-number model the sweep theorem is about.  A change to a
constant, a shift, a mask, a comparison or an operand in those functions breaks one of these. -/

/-- the three tables built at start-up are the model's levels: (2^30,64) (2^36,64) (2^42,32) (2^47,4) (2^49,1) -/
theorem c13_gen_tables :
    Gen.Wheel.buckets.map BitVec.toNat = nBuckets ∧ Gen.Wheel.shift.map BitVec.toNat = shifts ∧
    Gen.Wheel.spans.map BitVec.toNat = spans :=
  ⟨Proofs.WheelGen.buckets_eq, Proofs.WheelGen.shift_eq, Proofs.WheelGen.spans_eq⟩

/-- findBucket as the code computes it (clamp of a due deadline, wrapping subtraction, comparison against spans[i+1], shift,
    mask) picks the model's level and slot, for every wheel time and every deadline -/
theorem c13_gen_findBucket (time d : BitVec 64) :
    Proofs.WheelGen.findBucketG time d = findBucket time.toNat d.toNat :=
  Proofs.WheelGen.findBucketG_eq time d

/-- the code's map from clock readings to the wheel's time line is the model's, and clockTime undoes it -/
theorem c13_gen_wheelTime (t : Int) : (Gen.Wheel.wheelTime (BitVec.ofInt 64 t)).toNat = wheelTime t :=
  Proofs.WheelGen.wheelTime_eq t

theorem c13_gen_clockTime (t : BitVec 64) : Gen.Wheel.clockTime (Gen.Wheel.wheelTime t) = t :=
  Proofs.WheelGen.clockTime_wheelTime t

/-- DeleteExpired: five levels; per level the tick numbers are `time >>> shift i`, their wrapping difference is the
    model's `delta`, and the loop stops at the first level whose tick did not advance -/
theorem c13_gen_levels (pt ct : BitVec 64) (i : Nat) (hi : i < 5) :
    Gen.Wheel.de_loop (BitVec.ofNat 64 i) = true ∧
    (Gen.Wheel.de_previousTicks (BitVec.ofNat 64 i) pt).toNat = pt.toNat >>> shift i ∧
    (Gen.Wheel.de_currentTicks ct (BitVec.ofNat 64 i)).toNat = ct.toNat >>> shift i ∧
    (∀ a b : BitVec 64, (Gen.Wheel.de_delta a b).toNat = (a.toNat + two64 - b.toNat) % two64) ∧
    (∀ dl : BitVec 64, Gen.Wheel.de_stop dl = (dl.toNat == 0)) := by
  refine ⟨?_, Proofs.WheelGen.de_ticks_eq pt i hi, Proofs.WheelGen.de_currentTicks_eq ct i hi,
    Proofs.WheelGen.de_delta_eq, Proofs.WheelGen.de_stop_eq⟩
  rw [Proofs.WheelGen.de_loop_eq i (by omega)]
  simpa using hi

theorem c13_gen_levels_end : Gen.Wheel.de_loop (BitVec.ofNat 64 5) = false := by
  rw [Proofs.WheelGen.de_loop_eq 5 (by decide)]; decide

/-- deleteExpiredFromBucket: start slot, number of visited buckets and visited slot are the model's
    `prevTicks % b`, `min (delta+1) b`, `(start+k) % b` -/
theorem c13_gen_bucket_walk (pt j delta : BitVec 64) (i : Nat) (hi : i < 5) (hd : delta.toNat + 1 < two64) :
    (Gen.Wheel.db_start (Gen.Wheel.db_mask (BitVec.ofNat 64 i)) pt).toNat = pt.toNat % buckets i ∧
    (Gen.Wheel.db_steps delta (BitVec.ofNat 64 i)).toNat = min (delta.toNat + 1) (buckets i) ∧
    (Gen.Wheel.db_slot j (Gen.Wheel.db_mask (BitVec.ofNat 64 i))).toNat = j.toNat % buckets i :=
  ⟨Proofs.WheelGen.db_start_eq pt i hi, Proofs.WheelGen.db_steps_eq delta i hi hd, Proofs.WheelGen.db_slot_eq j i hi⟩

/-- a node of a visited bucket is handed to expireNode iff its deadline lies strictly before the clock reading the wheel
    was moved to (signed comparison on the clock's own line), and expireNode is told that very reading -/
theorem c13_gen_expired (e now : BitVec 64) :
    Gen.Wheel.db_expired e (Gen.Wheel.de_currentTime now) = BitVec.slt e now ∧
    Gen.Wheel.db_reportedNow (Gen.Wheel.de_currentTime now) = now :=
  ⟨Proofs.WheelGen.db_expired_signed e now, Proofs.WheelGen.db_reportedNow_eq now⟩

/-! ### Non-vacuity -/
example : Proofs.WheelGen.findBucketG (Gen.Wheel.wheelTime 5#64) (Gen.Wheel.wheelTime 4000000000#64) = (0, 3) := by decide
example : Visited (2 ^ 30) 64 0 (5 * 2 ^ 30) (3 % 64) := by
  have := c13_visit (2 ^ 30) 64 0 (5 * 2 ^ 30) (3 * 2 ^ 30) (by decide) (by decide) (by decide)
  simpa using this
example : findBucket 1000 5 = (0, 0) := by decide

end OtterVerif.Props.C13
