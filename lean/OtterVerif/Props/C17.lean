/-
  C17 — The lossy read buffer may drop reads but never corrupts them.

  Model: Impl.Ring (atomic-step transcription of ring.go, executed sequentially), tied by UNIT-ring (head, tail, length
  and drained elements after every call), by skeleton equality of ring.add / ring.drainTo / Striped.Add / expandOrRetry /
  DrainTo, and by CONC-ring (1-16 real recorders racing the draining consumer on the striped buffer, stripe creation and
  table expansion under contention; the delivery log is judged: nothing delivered that was not recorded, nothing twice,
  at most 16 per stripe, everything recorded is delivered once quiescent).
  Theorems (every ring state): capacity is never exceeded; refusal (Full) exactly at 16 buffered entries; the 16 indices
  a ring can hold at once occupy 16 different slots (a reserved slot is never one that still holds an undelivered entry);
  recording changes only the tail and one slot, never the head.  Results of cache operations do not depend on the buffer:
  the Spec has no read buffer at all and the SEQ correspondence (C01) is exact with saturated buffers.
  All interleavings (Conc.Ring: one ring, unboundedly many producers, the single consumer, every schedule of reserve / publish /
  cStart / cTake / cStop): what the consumer has handed over is exactly the sequence of the elements recorded at the indices
  below its current index — each once, in recording order, nothing invented; never more than 16 entries; with nothing pending one
  run of the consumer delivers everything recorded.
  PARTIAL: the striped table (stripe creation, expansion) above the rings is covered by skeletons + CONC-ring only.
-/
import OtterVerif.Impl.Ring
import OtterVerif.Conc.RingSkeleton
import OtterVerif.Gen.Skeleton
import OtterVerif.Conc.Ring
import OtterVerif.Conc.Striped
import OtterVerif.Proofs.LossyGen
import OtterVerif.Pin.LossySites

namespace OtterVerif.Props.C17
open OtterVerif.Impl.Ring

/-- the ring never holds more than its fixed capacity -/
theorem c17_capacity (r : Ring) (x : Nat) (hh : r.head ≤ r.tail) (h : r.tail - r.head ≤ bufferSize) :
    (add r x).1.tail - (add r x).1.head ≤ bufferSize := by
  unfold add bufferSize at *
  split <;> simp <;> omega

/-- an entry is refused as Full exactly when 16 entries are buffered -/
theorem c17_full_iff (r : Ring) (x : Nat) : (add r x).2 = .full ↔ r.tail - r.head ≥ bufferSize := by
  unfold add
  split <;> simp_all

/-- recording never moves the head and moves the tail by at most one -/
theorem c17_add_frame (r : Ring) (x : Nat) :
    (add r x).1.head = r.head ∧ ((add r x).1.tail = r.tail ∨ (add r x).1.tail = r.tail + 1) := by
  unfold add; split <;> simp

/-- the indices a ring can hold at once occupy different slots: a newly reserved slot never still holds an undelivered entry -/
theorem c17_slots_distinct (h i j : Nat) (hi : h ≤ i) (hj : h ≤ j) (hi' : i < h + 16) (hj' : j < h + 16) (hne : i ≠ j) :
    i % 16 ≠ j % 16 := by omega

/-- a refused entry changes nothing -/
theorem c17_refused_unchanged (r : Ring) (x : Nat) (h : (add r x).2 = .full) : (add r x).1 = r := by
  unfold add at *; split <;> simp_all

/-- a fresh ring holds exactly its first element -/
theorem c17_newRing (x : Nat) : (drainTo (newRing x)).2 = [x] := by
  unfold drainTo newRing
  simp [drainTo.go]

/-! ### All interleavings (Conc.Ring) -/

/-- the buffer never holds more than its fixed capacity, under every interleaving of producers and the consumer -/
theorem c17_conc_capacity {s : Conc.Ring.St} (h : Conc.Ring.Reach s) : s.tail - s.head ≤ 16 :=
  (Conc.Ring.reach_inv h).o3

/-- never hands the policy an entry that was not recorded, never hands a recorded entry more than once: the delivered sequence
    is exactly the elements recorded at indices 0 .. hcur-1 (hcur ≤ tail = number of successful recordings), in that order -/
theorem c17_conc_delivered_exact {s : Conc.Ring.St} (h : Conc.Ring.Reach s) :
    s.delivered = (List.range (Conc.Ring.hcur s)).map s.val ∧ Conc.Ring.hcur s ≤ s.tail :=
  ⟨(Conc.Ring.reach_inv h).dlv, (Conc.Ring.reach_inv h).o2⟩

/-- … in particular the number of deliveries never exceeds the number of successful recordings -/
theorem c17_conc_no_invention {s : Conc.Ring.St} (h : Conc.Ring.Reach s) : s.delivered.length ≤ s.tail := by
  have := c17_conc_delivered_exact h
  rw [this.1, List.length_map, List.length_range]; exact this.2

/-- a producer never overwrites an entry that was not handed over yet: a freshly reserved index finds its slot empty -/
theorem c17_conc_reserved_slot_empty {s : Conc.Ring.St} (h : Conc.Ring.Reach s) (hg : s.tail - s.head < 16) :
    s.slot (s.tail % 16) = none := by
  have hi := Conc.Ring.reach_inv h
  exact hi.out (s.tail % 16) (Nat.mod_lt _ (by decide)) (fun i a b => by have := hi.o1; omega)

/-- delivers every successfully recorded entry once the cache is quiescent and maintenance runs: with no publication pending
    and the consumer idle, a run of the consumer ends with head = tail and everything recorded handed over, once, in order -/
theorem c17_conc_quiescent_drain (s : Conc.Ring.St) (hr : Conc.Ring.Reach s) (hq : ∀ i, s.res i = false) (hc : s.cons = none) :
    ∃ s', Conc.Ring.Steps s s' ∧ s'.head = s.tail ∧ s'.cons = none ∧ s'.delivered = (List.range s.tail).map s.val := by
  obtain ⟨s', a, b, _, d, e⟩ := Conc.Ring.quiescent_drain s hr hq hc
  exact ⟨s', a, b, d, e⟩

/-- non-vacuity: two producers interleaved with the consumer -/
theorem c17_conc_example : ∃ s, Conc.Ring.Reach s ∧ s.delivered = [7] ∧ s.tail = 2 ∧ s.res 1 = true := by
  refine ⟨_, Conc.Ring.Reach.step (Conc.Ring.Reach.step (Conc.Ring.Reach.step (Conc.Ring.Reach.step (Conc.Ring.Reach.step
    Conc.Ring.Reach.init (Conc.Ring.Step.reserve _ 7 (by decide))) (Conc.Ring.Step.reserve _ 9 (by decide)))
    (Conc.Ring.Step.publish _ 0 (by simp [Conc.Ring.upd]))) (Conc.Ring.Step.cStart _ rfl (by decide)))
    (Conc.Ring.Step.cTake _ 0 2 7 rfl (by decide) (by simp [Conc.Ring.upd])), ?_, ?_, ?_⟩
  · rfl
  · rfl
  · simp [Conc.Ring.upd]

/-! ### The stripe table above the rings, for every interleaving of stripe creation and table expansion (Conc.Striped) -/

/-- no ring is orphaned by an expansion or a racing creation: every ring created so far is referenced by the current table,
    at exactly one index (the consumer's pass over the table visits every ring, once) -/
theorem c17_conc_ring_in_table_once {s : Conc.Striped.St} (h : Conc.Striped.Reach s) {v : Nat} (hc : s.cur = some v) {r : Nat}
    (hr : r < s.rings) : ∃ j, j < s.len v ∧ s.slot v j = some r ∧ ∀ j', s.slot v j' = some r → j' = j :=
  Conc.Striped.ring_in_current_once h hc hr

/-- a recorder working with a stale table pointer still records into a ring of the current table -/
theorem c17_conc_stale_table_ring_is_live {s : Conc.Striped.St} (h : Conc.Striped.Reach s) {v : Nat} (hc : s.cur = some v)
    {v' j r : Nat} (hs : s.slot v' j = some r) : ∃ j', j' < s.len v ∧ s.slot v j' = some r :=
  Conc.Striped.stale_ring_is_live h hc hs

/-- non-vacuity: first ring, expansion to two stripes, a second ring in the new stripe: both rings in the current table -/
theorem c17_conc_striped_example : ∃ s, Conc.Striped.Reach s ∧ s.cur = some 1 ∧ s.rings = 2 ∧ s.slot 1 0 = some 0 ∧ s.slot 1 1 = some 1 := by
  have r0 := Conc.Striped.Reach.init
  have r1 := Conc.Striped.Reach.step r0 (Conc.Striped.Step.lockInit _ rfl rfl)
  have r2 := Conc.Striped.Reach.step r1 (Conc.Striped.Step.unlock _ rfl)
  have r3 := Conc.Striped.Reach.step r2 (Conc.Striped.Step.lockExpand _ 0 rfl rfl)
  have r4 := Conc.Striped.Reach.step r3 (Conc.Striped.Step.expandCopy _ 0 0 1 rfl (by decide))
  have r5 := Conc.Striped.Reach.step r4 (Conc.Striped.Step.expandPublish _ 0 1 1 rfl rfl)
  have r6 := Conc.Striped.Reach.step r5 (Conc.Striped.Step.unlock _ rfl)
  have r7 := Conc.Striped.Reach.step r6 (Conc.Striped.Step.lockCreate _ 1 1 rfl rfl (by decide))
  have r8 := Conc.Striped.Reach.step r7 (Conc.Striped.Step.createStore _ 1 1 rfl rfl)
  exact ⟨_, r8, rfl, rfl, rfl, rfl⟩

theorem skeleton_ring_add : Gen.Skeleton.ring_add = Conc.RingSkeleton.ring_add := by decide

theorem skeleton_ring_drainTo : Gen.Skeleton.ring_drainTo = Conc.RingSkeleton.ring_drainTo := by decide

theorem skeleton_Striped_Add : Gen.Skeleton.Striped_Add = Conc.RingSkeleton.Striped_Add := by decide

theorem skeleton_Striped_expandOrRetry : Gen.Skeleton.Striped_expandOrRetry = Conc.RingSkeleton.Striped_expandOrRetry := by decide

theorem skeleton_Striped_DrainTo : Gen.Skeleton.Striped_DrainTo = Conc.RingSkeleton.Striped_DrainTo := by decide

/-! ### Non-vacuity -/
example : (add (newRing 7) 8).2 = .success ∧ (drainTo (add (newRing 7) 8).1).2 = [7, 8] := by decide

/-! ### The ring and the table of rings, over the regenerated computations of internal/lossy -/

/-- a ring refuses iff sixteen entries wait; producers publish at tail mod 16, the consumer reads head mod 16 -/
theorem c17_gen_ring (head tail : BitVec 64) (h : head.toNat ≤ tail.toNat) :
    Gen.LossySites.ring_add_c0 (Gen.LossySites.ring_add_a2 head tail) = decide (tail.toNat - head.toNat ≥ Impl.Ring.bufferSize) ∧
    (Gen.LossySites.ring_add_x1 tail).toNat = tail.toNat % 16 ∧ (Gen.LossySites.ring_drainTo_a4 head).toNat = head.toNat % 16 ∧
    Gen.LossySites.ring_add_x0 tail = tail + 1#64 ∧ Gen.LossySites.ring_drainTo_u0 head = head + 1#64 ∧
    Gen.LossySites.ring_drainTo_c1 head tail = (head != tail) :=
  ⟨Proofs.LossyGen.ring_full head tail h, (Proofs.LossyGen.ring_slots head tail).1, (Proofs.LossyGen.ring_slots head tail).2.1,
   (Proofs.LossyGen.ring_slots head tail).2.2.1, (Proofs.LossyGen.ring_slots head tail).2.2.2, (Proofs.LossyGen.ring_drain_guards head tail).2⟩

/-- the buffer's capacity is fixed: the table of rings is doubled only while shorter than its maximum, so with powers of two
    it never exceeds the maximum; a stripe index always lies inside the table -/
theorem c17_gen_table_bounded (len maxLen : BitVec 64) (stale : Bool) (a b : Nat) (hlen : len.toNat = 2 ^ a) (hmax : maxLen.toNat = 2 ^ b)
    (hb : b ≤ 31) (ha : a ≤ 31) (h : Gen.LossySites.Striped_expandOrRetry_c9 len maxLen stale = false) (idx : BitVec 32) :
    (Gen.LossySites.Striped_expandOrRetry_a15 len).toNat = 2 * len.toNat ∧
    (Gen.LossySites.Striped_expandOrRetry_a15 len).toNat ≤ maxLen.toNat ∧
    (Gen.LossySites.Striped_Add_x0 len idx).toNat < len.toNat :=
  ⟨(Proofs.LossyGen.grow_within_max len maxLen stale a b hlen hmax hb ha h).1,
   (Proofs.LossyGen.grow_within_max len maxLen stale a b hlen hmax hb ha h).2,
   (Proofs.LossyGen.stripe_in_range len idx a ha hlen).2.1⟩

/-- growing the table carries EVERY ring over (the copy loop starts at stripe 0, runs while below the old length, advances by
    one), and DrainTo walks every stripe the same way: an entry recorded in any ring is delivered -/
theorem c17_gen_every_stripe (len j : BitVec 64) (hl : len.toNat < 2 ^ 62) (hj : j.toNat < 2 ^ 62) :
    Gen.LossySites.Striped_expandOrRetry_a17 = 0#64 ∧
    Gen.LossySites.Striped_expandOrRetry_c13 len j = decide (j.toNat < len.toNat) ∧
    Gen.LossySites.Striped_expandOrRetry_u1 j = j + 1#64 ∧
    Gen.LossySites.Striped_DrainTo_a1 = 0#64 ∧ Gen.LossySites.Striped_DrainTo_c1 len j = decide (j.toNat < len.toNat) ∧
    Gen.LossySites.Striped_DrainTo_u0 j = j + 1#64 :=
  Proofs.LossyGen.walk_all_stripes len j hl hj


end OtterVerif.Props.C17
