/-
  C17 — The lossy read buffer may drop reads but never corrupts them.

  Model: Impl.Ring (atomic-step transcription of ring.go, executed sequentially), tied by UNIT-ring (head, tail, length
  and drained elements after every call), by skeleton equality of ring.add / ring.drainTo / Striped.Add / expandOrRetry /
  DrainTo, and by CONC-ring (1-16 real recorders racing the draining consumer on the striped buffer, stripe creation and
  table expansion under contention; the delivery log is judged: nothing delivered that was not recorded, nothing twice,
  at most 16 per stripe, everything recorded is delivered once quiescent).
  Theorems (every ring state): capacity is never exceeded; refusal (Full) exactly at 16 buffered entries; the 16 indices
  a ring can hold at once occupy 16 different slots (a reserved slot is never one that still holds an undelivered entry);
  recording changes only the tail and one slot, never the head.  Results of cache operations do not depend on the buffer:
  the Spec has no read buffer at all and the SEQ correspondence (C01) is exact with saturated buffers.
  PARTIAL: the concurrent no-invention / at-most-once invariant over all interleavings is not mechanised (CONC-ring + skeletons).
-/
import OtterVerif.Impl.Ring
import OtterVerif.Conc.RingSkeleton
import OtterVerif.Gen.Skeleton

namespace OtterVerif.Props.C17
open OtterVerif.Impl.Ring

/-- the ring never holds more than its fixed capacity -/
theorem c17_capacity (r : Ring) (x : Nat) (hh : r.head ≤ r.tail) (h : r.tail - r.head ≤ bufferSize) :
    (add r x).1.tail - (add r x).1.head ≤ bufferSize := by
  unfold add bufferSize at *
  split <;> simp <;> omega

/-- an entry is refused as Full exactly when 16 entries are buffered -/
theorem c17_full_iff (r : Ring) (x : Nat) : (add r x).2 = .full ↔ r.tail - r.head ≥ bufferSize := by
  unfold add
  split <;> simp_all

/-- recording never moves the head and moves the tail by at most one -/
theorem c17_add_frame (r : Ring) (x : Nat) :
    (add r x).1.head = r.head ∧ ((add r x).1.tail = r.tail ∨ (add r x).1.tail = r.tail + 1) := by
  unfold add; split <;> simp

/-- the indices a ring can hold at once occupy different slots: a newly reserved slot never still holds an undelivered entry -/
theorem c17_slots_distinct (h i j : Nat) (hi : h ≤ i) (hj : h ≤ j) (hi' : i < h + 16) (hj' : j < h + 16) (hne : i ≠ j) :
    i % 16 ≠ j % 16 := by omega

/-- a refused entry changes nothing -/
theorem c17_refused_unchanged (r : Ring) (x : Nat) (h : (add r x).2 = .full) : (add r x).1 = r := by
  unfold add at *; split <;> simp_all

/-- a fresh ring holds exactly its first element -/
theorem c17_newRing (x : Nat) : (drainTo (newRing x)).2 = [x] := by
  unfold drainTo newRing
  simp [drainTo.go]

theorem skeleton_ring_add : Gen.Skeleton.ring_add = Conc.RingSkeleton.ring_add := by decide

theorem skeleton_ring_drainTo : Gen.Skeleton.ring_drainTo = Conc.RingSkeleton.ring_drainTo := by decide

theorem skeleton_Striped_Add : Gen.Skeleton.Striped_Add = Conc.RingSkeleton.Striped_Add := by decide

theorem skeleton_Striped_expandOrRetry : Gen.Skeleton.Striped_expandOrRetry = Conc.RingSkeleton.Striped_expandOrRetry := by decide

theorem skeleton_Striped_DrainTo : Gen.Skeleton.Striped_DrainTo = Conc.RingSkeleton.Striped_DrainTo := by decide

/-! ### Non-vacuity -/
example : (add (newRing 7) 8).2 = .success ∧ (drainTo (add (newRing 7) 8).1).2 = [7, 8] := by decide

end OtterVerif.Props.C17
