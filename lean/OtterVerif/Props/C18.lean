/-
  C18 — Frequency estimates never under-count and admission follows them.

  Model: Impl.Sketch (transcription of sketch.go; mixers and masks regenerated from the source; exact
  differential on table digests after every call, UNIT-sketch).  Theorems, for EVERY table, hash and counter value:
  an estimate never exceeds 15; before initialisation every estimate is zero and recording is a no-op; `increment`
  (unrolled code) and `frequency` (loop code) address the same four counters; the admission decision is exactly
  "candidate strictly more popular, or (candidate ≥ 6 and the 1/128 random draw)".
  Nibble-level theorems (saturating increment, halving) are in Proofs.Nibble.
-/
import OtterVerif.Impl.Sketch
import OtterVerif.Proofs.Nibble

namespace OtterVerif.Props.C18
open OtterVerif OtterVerif.Impl.Sketch

theorem readCount_le_15 (s : Sketch) (slot index : BitVec 64) : (readCount s slot index).toNat ≤ 15 := by
  unfold readCount
  rw [BitVec.toNat_and]
  exact Nat.and_le_right

theorem umin_le_right {w : Nat} (a b : BitVec w) : (Bv.umin a b).toNat ≤ b.toNat := by
  unfold Bv.umin; split
  · exact Nat.le_refl _
  · rename_i h; simp [BitVec.ult] at h; omega

/-- an estimate never exceeds 15 -/
theorem c18_le_15 (s : Sketch) (h : BitVec 64) : (frequencyH s h).toNat ≤ 15 := by
  unfold frequencyH
  split
  · simp
  · have : List.range 4 = [0, 1, 2, 3] := by decide
    rw [this, List.foldl_cons, List.foldl_cons, List.foldl_cons, List.foldl_cons, List.foldl_nil]
    exact Nat.le_trans (umin_le_right _ _) (readCount_le_15 _ _ _)

/-- before frequency tracking is enabled every estimate is zero and recording changes nothing -/
theorem c18_uninitialised (s : Sketch) (h : BitVec 64) (hi : s.initialized = false) :
    frequencyH s h = 0 ∧ incrementH s h = s := by
  unfold frequencyH incrementH; simp [hi]

/-- `increment` and `frequency` address the same four counters -/
theorem c18_same_counters (s : Sketch) (h : BitVec 64) :
    counterPosUnrolled s h = (List.range 4).map (counterPos s h) := by
  have : List.range 4 = [0, 1, 2, 3] := by decide
  rw [this]
  unfold counterPosUnrolled counterPos
  simp

/-- admission follows the estimates -/
theorem c18_admit (c v : BitVec 64) (r : BitVec 32) :
    admitDecision c v r = true ↔ (v.toNat < c.toNat ∨ (6 ≤ c.toNat ∧ r &&& 127 = 0)) := by
  unfold admitDecision
  simp only [BitVec.ult, BitVec.ule]
  constructor
  · intro h
    split at h
    · left; rename_i hc; simpa using hc
    · split at h
      · right; rename_i hc; exact ⟨by simpa using hc, by simpa using h⟩
      · cases h
  · intro h
    rcases h with h | ⟨h6, hr⟩
    · simp [h]
    · split
      · rfl
      · simp [h6]; exact hr

/-- a candidate that is not strictly more popular and below the threshold is never admitted -/
theorem c18_cold_never_admitted (c v : BitVec 64) (r : BitVec 32) (h1 : c.toNat ≤ v.toNat) (h2 : c.toNat < 6) :
    admitDecision c v r = false := by
  cases h : admitDecision c v r with
  | false => rfl
  | true => have := (c18_admit c v r).mp h; omega

/-- saturating increment at nibble level: see Proofs.Nibble (`nib_incr_self`, `nib_incr_other`, `nib_halve`) -/
theorem c18_incr_nibble (w j : Nat) (hj : j < 16) (hw : w < 2 ^ 64) (hc : Nibble.nib w j < 15) :
    Nibble.nib (w + 16 ^ j) j = Nibble.nib w j + 1 ∧ ∀ j', j' ≠ j → Nibble.nib (w + 16 ^ j) j' = Nibble.nib w j' :=
  ⟨Nibble.nib_incr_self w j hc, fun j' hj' => Nibble.nib_incr_other w j j' hj' hc⟩

/-! ### Non-vacuity -/
example : admitDecision 7 7 128 = true ∧ admitDecision 5 7 128 = false ∧ admitDecision 3 2 1 = true := by decide

end OtterVerif.Props.C18
