/-
  C18 — Frequency estimates never under-count and admission follows them.

  Model: Impl.Sketch (transcription of sketch.go; mixers and masks regenerated from the source; exact
  differential on table digests after every call, UNIT-sketch).  Theorems, for EVERY table, hash and counter value:
  an estimate never exceeds 15; before initialisation every estimate is zero and recording is a no-op; `increment`
  (unrolled code) and `frequency` (loop code) address the same four counters; the admission decision is exactly
  "candidate strictly more popular, or (candidate ≥ 6 and the 1/128 random draw)".
  Lifted to the table model (Proofs.SketchCount, bit-level bridges proven, no bound on anything): within one sampling
  period (no aging step) the estimate of a key is at least min(15, number of times it was recorded), whatever else was
  recorded and in whatever order, for every table ensureCapacity can build (every requested maximum: RoundUpPowerOf2 is
  shown to produce a multiple of 8 whenever it is at least 8, so every counter position lies inside the table); `increment`
  is exactly that recording step, followed by the aging step when the sample is full; the aging step halves every
  counter and hence every estimate.
-/
import OtterVerif.Impl.Sketch
import OtterVerif.Conc.PolicySkeleton
import OtterVerif.Gen.Skeleton
import OtterVerif.Proofs.Nibble
import OtterVerif.Proofs.SketchCount
import OtterVerif.Proofs.SketchGen
import OtterVerif.Pin.SketchSites

namespace OtterVerif.Props.C18
open OtterVerif OtterVerif.Impl.Sketch

theorem readCount_le_15 (s : Sketch) (slot index : BitVec 64) : (readCount s slot index).toNat ≤ 15 := by
  unfold readCount
  rw [BitVec.toNat_and]
  exact Nat.and_le_right

theorem umin_le_right {w : Nat} (a b : BitVec w) : (Bv.umin a b).toNat ≤ b.toNat := by
  unfold Bv.umin; split
  · exact Nat.le_refl _
  · rename_i h; simp [BitVec.ult] at h; omega

/-- an estimate never exceeds 15 -/
theorem c18_le_15 (s : Sketch) (h : BitVec 64) : (frequencyH s h).toNat ≤ 15 := by
  unfold frequencyH
  split
  · simp
  · have : List.range 4 = [0, 1, 2, 3] := by decide
    rw [this, List.foldl_cons, List.foldl_cons, List.foldl_cons, List.foldl_cons, List.foldl_nil]
    exact Nat.le_trans (umin_le_right _ _) (readCount_le_15 _ _ _)

/-- before frequency tracking is enabled every estimate is zero and recording changes nothing -/
theorem c18_uninitialised (s : Sketch) (h : BitVec 64) (hi : s.initialized = false) :
    frequencyH s h = 0 ∧ incrementH s h = s := by
  constructor
  · unfold frequencyH; simp [hi]
  · unfold incrementH
    rw [incrementNR_uninit s h hi]
    simp [hi]

/-- `increment` and `frequency` address the same four counters -/
theorem c18_same_counters (s : Sketch) (h : BitVec 64) :
    counterPosUnrolled s h = (List.range 4).map (counterPos s h) := by
  have : List.range 4 = [0, 1, 2, 3] := by decide
  rw [this]
  unfold counterPosUnrolled counterPos
  simp

/-- admission follows the estimates -/
theorem c18_admit (c v : BitVec 64) (r : BitVec 32) :
    admitDecision c v r = true ↔ (v.toNat < c.toNat ∨ (6 ≤ c.toNat ∧ r &&& 127 = 0)) := by
  unfold admitDecision
  simp only [BitVec.ult, BitVec.ule]
  constructor
  · intro h
    split at h
    · left; rename_i hc; simpa using hc
    · split at h
      · right; rename_i hc; exact ⟨by simpa using hc, by simpa using h⟩
      · cases h
  · intro h
    rcases h with h | ⟨h6, hr⟩
    · simp [h]
    · split
      · rfl
      · simp [h6]; exact hr

/-- a candidate that is not strictly more popular and below the threshold is never admitted -/
theorem c18_cold_never_admitted (c v : BitVec 64) (r : BitVec 32) (h1 : c.toNat ≤ v.toNat) (h2 : c.toNat < 6) :
    admitDecision c v r = false := by
  cases h : admitDecision c v r with
  | false => rfl
  | true => have := (c18_admit c v r).mp h; omega

/-- saturating increment at nibble level: see Proofs.Nibble (`nib_incr_self`, `nib_incr_other`, `nib_halve`) -/
theorem c18_incr_nibble (w j : Nat) (hj : j < 16) (hw : w < 2 ^ 64) (hc : Nibble.nib w j < 15) :
    Nibble.nib (w + 16 ^ j) j = Nibble.nib w j + 1 ∧ ∀ j', j' ≠ j → Nibble.nib (w + 16 ^ j) j' = Nibble.nib w j' :=
  ⟨Nibble.nib_incr_self w j hc, fun j' hj' => Nibble.nib_incr_other w j j' hj' hc⟩

/-! ### Never under-counts; aging halves -/

/-- `increment` = record (incrementNR), then age exactly when the sample became full -/
theorem c18_increment_shape (s : Sketch) (h : BitVec 64) :
    incrementH s h = incrementNR s h ∨ incrementH s h = reset (incrementNR s h) :=
  incrementH_eq s h

/-- within one sampling period the estimate of a key is at least the number of times it was recorded (capped at 15),
    regardless of what other keys were recorded and in which order — for every well-laid-out table -/
theorem c18_never_undercounts (s : Sketch) (hl : Layout s) (hi : s.initialized = true) (hs : List (BitVec 64)) (h : BitVec 64) :
    min 15 (occ h hs) ≤ (frequencyH (hs.foldl incrementNR s) h).toNat := by
  have h0 : LB s h 0 := fun p _ => by simp
  have := record_lb hs s h 0 (wf_of_layout s hl) hi h0
  rw [Nat.zero_add] at this
  exact frequencyH_lb _ h _ this.2.2 this.1

/-- … in particular for every table that ensureCapacity builds, for every requested maximum (powers of two or not) -/
theorem c18_never_undercounts_any_capacity (s : Sketch) (m : BitVec 64) (hch : (ensureCapacity s m).2 = true)
    (hs : List (BitVec 64)) (h : BitVec 64) :
    min 15 (occ h hs) ≤ (frequencyH (hs.foldl incrementNR (ensureCapacity s m).1) h).toNat := by
  obtain ⟨n, ss, _, _, he⟩ := ensureCapacity_shape s m hch
  exact c18_never_undercounts _ (ensureCapacity_layout s m hch) (by rw [he]) hs h

theorem min4_half (A a b c d : Nat) (hA : 15 ≤ A) (ha : a ≤ 15) :
    min (min (min (min A (a/2)) (b/2)) (c/2)) (d/2) = (min (min (min (min A a) b) c) d) / 2 := by omega
theorem allOnes_ge : 15 ≤ (BitVec.allOnes 64).toNat := by decide

/-- the aging step halves every counter … -/
theorem c18_aging_halves_counters (s : Sketch) (slot idx : BitVec 64) (hj : idx.toNat < 16) :
    cnt (reset s) slot idx = cnt s slot idx / 2 :=
  reset_cnt s slot idx hj

/-- … and therefore every estimate -/
theorem c18_aging_halves_estimates (s : Sketch) (h : BitVec 64) :
    (frequencyH (reset s) h).toNat = (frequencyH s h).toNat / 2 := by
  have hr : List.range 4 = [0, 1, 2, 3] := by decide
  have hpos : counterPosUnrolled s h = (List.range 4).map (counterPos s h) := c18_same_counters s h
  have hidx : ∀ i, i ∈ [0, 1, 2, 3] → (counterPos s h i).2.toNat < 16 := by
    intro i him
    exact pos_idx s h _ (by rw [hpos, hr]; exact List.mem_map_of_mem him)
  have hcp : ∀ i, counterPos (reset s) h i = counterPos s h i := fun i => rfl
  unfold frequencyH
  have hinit : (reset s).initialized = s.initialized := rfl
  rw [hinit]
  cases hi : s.initialized with
  | false => simp
  | true =>
    simp only [Bool.not_true, Bool.false_eq_true, ↓reduceIte]
    rw [hr, List.foldl_cons, List.foldl_cons, List.foldl_cons, List.foldl_cons, List.foldl_nil,
      List.foldl_cons, List.foldl_cons, List.foldl_cons, List.foldl_cons, List.foldl_nil]
    simp only [umin_toNat, hcp]
    rw [readCount_eq_cnt _ _ _ (hidx 0 (by simp)), readCount_eq_cnt _ _ _ (hidx 1 (by simp)),
      readCount_eq_cnt _ _ _ (hidx 2 (by simp)), readCount_eq_cnt _ _ _ (hidx 3 (by simp)),
      readCount_eq_cnt s _ _ (hidx 0 (by simp)), readCount_eq_cnt s _ _ (hidx 1 (by simp)),
      readCount_eq_cnt s _ _ (hidx 2 (by simp)), readCount_eq_cnt s _ _ (hidx 3 (by simp)),
      reset_cnt _ _ _ (hidx 0 (by simp)), reset_cnt _ _ _ (hidx 1 (by simp)), reset_cnt _ _ _ (hidx 2 (by simp)),
      reset_cnt _ _ _ (hidx 3 (by simp))]
    exact min4_half _ _ _ _ _ allOnes_ge (cnt_le_15 s (counterPos s h 0).1 (counterPos s h 0).2)

/-! ### Non-vacuity -/
example : admitDecision 7 7 128 = true ∧ admitDecision 5 7 128 = false ∧ admitDecision 3 2 1 = true := by decide

/-! ### The eviction decision has the shape the model follows (skeletons regenerated from policy.go on every run) -/
theorem skeleton_policy_evictFromMain : Gen.Skeleton.policy_evictFromMain = Conc.PolicySkeleton.policy_evictFromMain := by decide
theorem skeleton_policy_evictFromWindow : Gen.Skeleton.policy_evictFromWindow = Conc.PolicySkeleton.policy_evictFromWindow := by decide
theorem skeleton_policy_evictNodes : Gen.Skeleton.policy_evictNodes = Conc.PolicySkeleton.policy_evictNodes := by decide
theorem skeleton_policy_admit : Gen.Skeleton.policy_admit = Conc.PolicySkeleton.policy_admit := by decide

/-! ### The sketch model's arithmetic is the code's (Gen.SketchSites, regenerated from sketch.go on every run) -/

open OtterVerif.Gen.SketchSites in
/-- the four counters a recording bumps and the four an estimate reads are computed as in the code: block from the spread
    hash and the block mask, byte i of the re-hashed value, its low bit for the word, bits 1-4 for the nibble -/
theorem c18_gen_positions (s : Impl.Sketch.Sketch) (bh : BitVec 64) :
    (Impl.Sketch.counterPosUnrolled s bh =
      let ch := sketch_increment_a1 bh
      let block := sketch_increment_a2 bh s.blockMask
      let h0 := sketch_increment_a3 ch
      let h1 := sketch_increment_a4 ch
      let h2 := sketch_increment_a5 ch
      let h3 := sketch_increment_a6 ch
      [(sketch_increment_a11 block h0, sketch_increment_a7 h0), (sketch_increment_a12 block h1, sketch_increment_a8 h1),
       (sketch_increment_a13 block h2, sketch_increment_a9 h2), (sketch_increment_a14 block h3, sketch_increment_a10 h3)]) ∧
    (∀ i, i < 4 → Impl.Sketch.counterPos s bh i =
      let ch := sketch_frequency_a2 bh
      let block := sketch_frequency_a3 bh s.blockMask
      let h := sketch_frequency_a5 ch (BitVec.ofNat 64 i)
      (sketch_frequency_a8 block (BitVec.ofNat 64 i) (sketch_frequency_a7 h), sketch_frequency_a6 h)) :=
  ⟨Proofs.SketchGen.increment_positions s bh, fun i hi => Proofs.SketchGen.frequency_position s bh i hi⟩

open OtterVerif.Gen.SketchSites in
/-- saturating 4-bit increment, minimum of four reads starting from all ones, nibble-wise halving on reset, aging exactly
    when the sample is full -/
theorem c18_gen_counters (s : Impl.Sketch.Sketch) (i j slot index f w count size sample : BitVec 64) :
    (Impl.Sketch.incrementAt s i j =
      let offset := sketch_incrementAt_a0 j
      let mask := sketch_incrementAt_a1 offset
      let w := s.table.getD i.toNat 0
      if sketch_incrementAt_c0 mask w then
        ({ s with table := s.table.setIfInBounds i.toNat (sketch_incrementAt_u0 offset w) }, sketch_incrementAt_r0)
      else (s, sketch_incrementAt_r1)) ∧
    Impl.Sketch.readCount s slot index = sketch_frequency_a9 index (s.table.getD slot.toNat 0) ∧
    sketch_frequency_a10 (Impl.Sketch.readCount s slot index) f = Bv.umin f (Impl.Sketch.readCount s slot index) ∧
    sketch_frequency_a0 = BitVec.allOnes 64 ∧
    sketch_reset_a2 w = (w >>> 1) &&& Gen.SketchMix.resetMask ∧
    sketch_reset_u1 count w = count + Bv.onesCount64 (w &&& Gen.SketchMix.oneMask) ∧
    sketch_reset_a3 count size = (size - (count >>> 2)) >>> 1 ∧
    sketch_increment_c2 sample size = (size == sample) :=
  ⟨Proofs.SketchGen.incrementAt_gen s i j, (Proofs.SketchGen.frequency_read s slot index f).1,
   (Proofs.SketchGen.frequency_read s slot index f).2.1, (Proofs.SketchGen.frequency_read s slot index f).2.2.1,
   (Proofs.SketchGen.reset_gen w count size).1, (Proofs.SketchGen.reset_gen w count size).2.1,
   (Proofs.SketchGen.reset_gen w count size).2.2, (Proofs.SketchGen.increment_gen size sample false false).1⟩

open OtterVerif.Gen.SketchSites in
/-- ensureCapacity: a request that fits the table is a no-op (`≤`, so a request for exactly the present length keeps the
    counters); otherwise a zeroed table of the next power of two (at least 8) and a sample of ten times the maximum -/
theorem c18_gen_ensureCapacity (s : Impl.Sketch.Sketch) (maximumSize : BitVec 64) :
    Impl.Sketch.ensureCapacity s maximumSize =
      if sketch_ensureCapacity_c0 (BitVec.ofNat 64 s.table.size) maximumSize then (s, false)
      else
        let newSize := sketch_ensureCapacity_a0 maximumSize
        let newSize := if sketch_ensureCapacity_c2 newSize then sketch_ensureCapacity_a1 else newSize
        let sampleSize := if sketch_ensureCapacity_c3 maximumSize then sketch_ensureCapacity_a4 maximumSize else sketch_ensureCapacity_a3
        ({ table := Array.replicate newSize.toNat 0, sampleSize := sampleSize,
           blockMask := sketch_ensureCapacity_a5 newSize, size := sketch_ensureCapacity_a6, initialized := true }, true) :=
  Proofs.SketchGen.ensureCapacity_gen s maximumSize


end OtterVerif.Props.C18
