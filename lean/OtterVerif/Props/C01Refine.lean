/-
  C01 / C03 / C06 / C12 — the per-key decision code of cache_impl.go refines the map with deadlines.

  Impl.Table is a transcription of getNode, newNode, calcExpiresAtAfterWrite, calcRefreshableAt, calcExpiresAtAfterRead /
  setExpiresAfterRead, getCause, atomicSet, atomicDelete, set, Invalidate and GetIfPresent, with the user's calculators as
  parameters that see the entry's current duration the way the Go calculators do.  Proofs.TableRefine shows, for every
  configuration the spec can express (no policy / creating / writing / accessing / per-key tables, for expiry and refresh),
  every table, key, value and clock reading within ±2^62:
      Set, SetIfAbsent, Invalidate, GetIfPresent and Compute's critical section of Impl.Table produce the spec's new map, the spec's result and the
      spec's atomic deletion events.
  Below: those theorems, and the ties between the model's tests and the regenerated ones of cache_impl.go (Gen.CacheRead,
  Gen.Deadline).  The proof of the read rule is what exposed finding F19 (|d - current| > 0 overflowing for MinInt64).
-/
import OtterVerif.Proofs.TableRefine
import OtterVerif.Proofs.TableTrace
import OtterVerif.Gen.CacheRead
import OtterVerif.Gen.Deadline
import OtterVerif.Gen.Xmath
import OtterVerif.Gen.CalcSites

namespace OtterVerif.Props.C01Refine
open OtterVerif OtterVerif.Impl.Table OtterVerif.Proofs.TableRefine
open OtterVerif.Spec (Cause Event Out Entry Cfg Kind)

/-! ### refinement, operation by operation -/

theorem c01_set_refines (c : Cfg) (s : Spec.State) (t : Tbl) (k v : Nat) (hs : s.m = absT t)
    (hnow : -4611686018427387904 < s.now ∧ s.now < 4611686018427387904)
    (hwf : ∀ o, lookup t k = some o → NodeOk k o) (hk1 : KindOk c.expiry) (hk2 : KindOk c.refresh) :
    absT (Impl.Table.set (cfgOf c) t k v false s.now).1 = (Spec.set c s k v).1.m ∧
    (Impl.Table.set (cfgOf c) t k v false s.now).2.1 = (Spec.set c s k v).2.1 ∧
    (Impl.Table.set (cfgOf c) t k v false s.now).2.2 = (Spec.set c s k v).2.2 :=
  set_refines c s t k v hs hnow hwf hk1 hk2

theorem c01_setIfAbsent_refines (c : Cfg) (s : Spec.State) (t : Tbl) (k v : Nat) (hs : s.m = absT t)
    (hnow : -4611686018427387904 < s.now ∧ s.now < 4611686018427387904)
    (hwf : ∀ o, lookup t k = some o → NodeOk k o) (hk1 : KindOk c.expiry) (hk2 : KindOk c.refresh) (hr : ReadOk c) :
    absT (Impl.Table.set (cfgOf c) t k v true s.now).1 = (Spec.setIfAbsent c s k v).1.m ∧
    (Impl.Table.set (cfgOf c) t k v true s.now).2.1 = (Spec.setIfAbsent c s k v).2.1 ∧
    (Impl.Table.set (cfgOf c) t k v true s.now).2.2 = (Spec.setIfAbsent c s k v).2.2 :=
  setIfAbsent_refines c s t k v hs hnow hwf hk1 hk2 hr

theorem c01_invalidate_refines (s : Spec.State) (t : Tbl) (k : Nat) (hs : s.m = absT t)
    (hwf : ∀ o, lookup t k = some o → o.key = k) :
    absT (invalidate t k s.now).1 = (Spec.invalidate s k).1.m ∧
    (invalidate t k s.now).2.1 = (Spec.invalidate s k).2.1 ∧
    (invalidate t k s.now).2.2 = (Spec.invalidate s k).2.2 :=
  invalidate_refines s t k hs hwf

theorem c01_getIfPresent_refines (c : Cfg) (s : Spec.State) (t : Tbl) (k : Nat) (hs : s.m = absT t)
    (hnow : -4611686018427387904 < s.now ∧ s.now < 4611686018427387904)
    (hwf : ∀ o, lookup t k = some o → NodeOk k o) (hr : ReadOk c) :
    absT (getIfPresent (cfgOf c) t k s.now).1 = (Spec.getIfPresent c s k).1.m ∧
    (getIfPresent (cfgOf c) t k s.now).2 = (Spec.getIfPresent c s k).2 :=
  getIfPresent_refines c s t k hs hnow hwf hr

/-- Compute's critical section for every answer of the remapping function (write / invalidate / cancel / panic / invalid op):
    a cancelled Compute leaves a visible entry alone and removes an expired one (reported as Expiration) -/
theorem c01_compute_refines (c : Cfg) (s : Spec.State) (t : Tbl) (k : Nat) (act : Spec.Act) (hs : s.m = absT t)
    (hnow : -4611686018427387904 < s.now ∧ s.now < 4611686018427387904)
    (hwf : ∀ o, lookup t k = some o → NodeOk k o) (hk1 : KindOk c.expiry) (hk2 : KindOk c.refresh) :
    absT (computeStep (cfgOf c) t k act s.now).1 = (Spec.computeStep c s k act).1.m ∧
    (computeStep (cfgOf c) t k act s.now).2.1 = (Spec.computeStep c s k act).2.1 ∧
    (computeStep (cfgOf c) t k act s.now).2.2 = (Spec.computeStep c s k act).2.2 :=
  computeStep_refines c s t k act hs hnow hwf hk1 hk2

/-- **C01 for every history**: any sequence of Set / SetIfAbsent / Invalidate / GetIfPresent / Compute steps (with any answers
    of the remapping function) and clock advances, run from the empty cache on the transcription of the code, returns at every
    step the result and the atomic deletion events of the map-with-deadlines spec.  The only hypothesis about the history: the
    clock stays within ±2^62 ns of its reference point (`ClockOk`); the induction carries the table's well-formedness -/
theorem c01_every_history (c : Cfg) (hk1 : KindOk c.expiry) (hk2 : KindOk c.refresh) (hr : ReadOk c)
    (ops : List Proofs.TableTrace.Op) (now0 : Int) (hclk : Proofs.TableTrace.ClockOk now0 ops) :
    (Proofs.TableTrace.irun c { now := now0, t := [] } ops).2 = (Proofs.TableTrace.srun c { now := now0 } ops).2 :=
  Proofs.TableTrace.history_from_empty c hk1 hk2 hr ops now0 hclk

/-- ... and the states stay related: the table abstracts to the spec's map after every prefix -/
theorem c01_history_states (c : Cfg) (hk1 : KindOk c.expiry) (hk2 : KindOk c.refresh) (hr : ReadOk c)
    (ops : List Proofs.TableTrace.Op) (is : Proofs.TableTrace.IState) (ss : Spec.State)
    (hm : ss.m = absT is.t) (hn : ss.now = is.now) (hok : Proofs.TableTrace.AllOk is.t) (hclk : Proofs.TableTrace.ClockOk is.now ops) :
    (Proofs.TableTrace.srun c ss ops).1.m = absT (Proofs.TableTrace.irun c is ops).1.t :=
  (Proofs.TableTrace.history_sim c hk1 hk2 hr ops is ss hm hn hok hclk).2

/-- non-vacuity: a concrete history with an expiring write, a clock jump past the deadline and a rewrite -/
example : Proofs.TableTrace.ClockOk 5 [.set 1 10, .advance 1000, .get 1, .setIfAbsent 1 11, .compute 1 .cancel, .invalidate 1] := by
  unfold Proofs.TableTrace.ClockOk Proofs.TableTrace.InRange; simp [Proofs.TableTrace.ClockOk, Proofs.TableTrace.InRange]

/-- C03 on the transcription itself: GetIfPresent reports a value only from a node whose deadline lies strictly after the clock
    reading of the call, and the node it leaves in the table still has a deadline in the future -/
theorem c03_get_only_unexpired (cfg : TCfg) (t : Tbl) (k v : Nat) (now : Int)
    (h : (getIfPresent cfg t k now).2 = .valOk v true) :
    ∃ n, lookup t k = some n ∧ now < n.exp ∧ n.val = v := by
  unfold getIfPresent at h
  cases hl : lookup t k with
  | none => rw [hl] at h; simp at h
  | some n =>
    rw [hl] at h
    by_cases hx : hasExpired n now = true
    · simp [hx] at h
    · simp only [hx, Bool.false_eq_true, ↓reduceIte] at h
      refine ⟨n, rfl, ?_, ?_⟩
      · unfold hasExpired at hx; simp at hx; exact hx
      · cases h; rfl

/-- C03: a lookup finds a node iff the spec's entry is live; C06: the cause is Expiration iff the deadline has passed -/
theorem c03_visibility_and_cause (n : TNode) (now : Int) (c : Cause) :
    (!hasExpired n now) = (absN n).liveAt now ∧ getCause n now c = Spec.causeOf (absN n) now c :=
  ⟨visible_iff_live n now, cause_eq n now c⟩

/-- C12: the deadlines a write gives the new node, through newNode's inheritance, the calculators' "keep" answers and the
    `currentDuration != d` shortcut with its int64 wrap, are exactly the spec's -/
theorem c12_write_deadlines (c : Cfg) (k v : Nat) (prev : Option TNode) (now : Int)
    (hnow : -4611686018427387904 < now ∧ now < 4611686018427387904)
    (hprev : ∀ o, prev = some o → now < o.exp ∧ o.exp ≤ maxI64) (hk : KindOk c.expiry) :
    (calcExpiresAtAfterWrite (cfgOf c) (newNode (cfgOf c) k v prev) prev now).exp
      = Spec.expAfterWrite c now k (prev.map absN) :=
  exp_refines c k v prev now hnow hprev hk

/-- C12: the deadline a read stores is the spec's (ExpireAfterRead) -/
theorem c12_read_deadline (c : Cfg) (k : Nat) (o : TNode) (now : Int)
    (hnow : -4611686018427387904 < now ∧ now < 4611686018427387904)
    (hkey : o.key = k) (hvis : now < o.exp) (hmax : o.exp ≤ maxI64) (hr : ReadOk c) :
    absN (calcExpiresAtAfterRead (cfgOf c) o now) = { absN o with exp := Spec.expAfterRead c now k (absN o) } :=
  read_refines c k o now hnow hkey hvis hmax hr

/-- C12: SetExpiresAfter — only a visible entry, only a positive duration, the deadline is `now + d` saturated -/
theorem c12_setExpiresAfter_refines (c : Cfg) (s : Spec.State) (t : Tbl) (k : Nat) (d : Int) (hs : s.m = absT t)
    (hnow : -4611686018427387904 < s.now ∧ s.now < 4611686018427387904)
    (hwf : ∀ o, lookup t k = some o → NodeOk k o) :
    MapEq (absT (setExpiresAfter (cfgOf c) t k d s.now)) (Spec.setExpiresAfter c s k d).m :=
  setExpiresAfter_refines c s t k d hs hnow hwf

/-- C12: SetRefreshableAfter — the entry physically present (expired or not), only a positive duration -/
theorem c12_setRefreshableAfter_refines (c : Cfg) (s : Spec.State) (t : Tbl) (k : Nat) (d : Int) (hs : s.m = absT t)
    (hnow : -4611686018427387904 < s.now ∧ s.now < 4611686018427387904)
    (hwf : ∀ o, lookup t k = some o → NodeOk k o) :
    MapEq (absT (setRefreshableAfter (cfgOf c) t k d s.now)) (Spec.setRefreshableAfter c s k d).m :=
  setRefreshableAfter_refines c s t k d hs hnow hwf

/-- the tests of the two explicit setters as the code has them -/
theorem c12_gen_explicit_setters (w a b : Bool) (d cur : BitVec 64) :
    Gen.CacheRead.cache_SetExpiresAfter_c0 w d = (!w || BitVec.sle d 0#64) ∧
    Gen.CacheRead.cache_SetExpiresAfter_c1 a b = (b || a) ∧
    Gen.CacheRead.cache_SetRefreshableAfter_c0 w d = (!w || BitVec.sle d 0#64) ∧
    Gen.CacheRead.cache_SetRefreshableAfter_c1 a = a ∧
    Gen.CacheRead.cache_SetRefreshableAfter_c2 cur d = (BitVec.slt 0#64 d && (cur != d)) :=
  ⟨rfl, rfl, rfl, rfl, rfl⟩

/-- C20: GetIfPresent and Compute count exactly one lookup each, a hit iff the code's test "a node was found and it has not
    expired" holds (getNode's two miss branches, doCompute's recordStats test) — a Compute whose function panics counts nothing -/
theorem c20_lookup_counts (c : Cfg) (s : Spec.State) (t : Tbl) (k : Nat) (onFound onAbsent : Spec.Act) (hs : s.m = absT t)
    (hf : onFound ≠ .panic ∧ onFound ≠ .bad) (ha : onAbsent ≠ .panic ∧ onAbsent ≠ .bad) :
    ((Spec.getIfPresent c s k).1.stats.hits = s.stats.hits + (if lookupIsHit t k s.now then 1 else 0) ∧
     (Spec.getIfPresent c s k).1.stats.misses = s.stats.misses + (if lookupIsHit t k s.now then 0 else 1)) ∧
    ((Spec.compute c s k onFound onAbsent).1.stats.hits = s.stats.hits + (if lookupIsHit t k s.now then 1 else 0) ∧
     (Spec.compute c s k onFound onAbsent).1.stats.misses = s.stats.misses + (if lookupIsHit t k s.now then 0 else 1)) :=
  ⟨getIfPresent_stats c s t k hs, compute_stats c s t k onFound onAbsent hs hf ha⟩

/-! ### the model's tests are the code's (regenerated from cache_impl.go) -/

/-- the model's deadlineAfter is the code's (Gen.Deadline, int64 semantics with explicit wrap) on int64 arguments -/
theorem c12_gen_deadlineAfter (now d : Int) (hn : minI64 ≤ now ∧ now ≤ maxI64) (hd : 0 ≤ d ∧ d ≤ maxI64) :
    Gen.Deadline.h_deadlineAfter now d = deadlineAfter now d := by
  unfold Gen.Deadline.h_deadlineAfter deadlineAfter
  rw [wrapS64, wrapS64]
  unfold minI64 maxI64 at *
  by_cases h : now > 9223372036854775807 - d
  · have : now > (9223372036854775807 - d + 9223372036854775808) % 18446744073709551616 - 9223372036854775808 := by omega
    simp [h, this]
  · have : ¬ now > (9223372036854775807 - d + 9223372036854775808) % 18446744073709551616 - 9223372036854775808 := by omega
    simp only [this, decide_false, Bool.false_eq_true, ↓reduceIte, h]
    omega

/-- the guards around the calculators, as the code has them: a positive duration that differs from the current one is
    stored; a read stores whenever its (positive) duration differs from the current one; a write is a creation iff there is
    no visible predecessor; a node inherits deadlines only from a predecessor and only for configured policies -/
theorem c12_gen_guards (cur d : BitVec 64) (a b : Bool) :
    Gen.CacheRead.cache_calcExpiresAtAfterWrite_c2 cur d = (BitVec.slt 0#64 d && (cur != d)) ∧
    Gen.CacheRead.cache_calcRefreshableAt_c5 cur d = (BitVec.slt 0#64 d && (cur != d)) ∧
    Gen.CacheRead.cache_setExpiresAfterRead_c0 d = BitVec.sle d 0#64 ∧
    Gen.CacheRead.cache_setExpiresAfterRead_c1 cur d = (d != cur) ∧
    Gen.CacheRead.cache_setExpiresAfterRead_a1 cur d = cur - d ∧
    Gen.CacheRead.cache_calcExpiresAtAfterWrite_c1 a b = (b || a) ∧
    Gen.CacheRead.cache_newNode_c0 a b = (a && b) ∧ Gen.CacheRead.cache_newNode_c1 a b = (a && b) ∧
    Gen.CacheRead.cache_newNode_a1 = 9223372036854775807#64 ∧ Gen.CacheRead.cache_newNode_a3 = 9223372036854775807#64 :=
  ⟨rfl, rfl, rfl, rfl, rfl, rfl, rfl, rfl, rfl, rfl⟩

/-- what `cfgOf` assumes about the library's built-in calculators is what expiry_calculator.go / refresh_calculator.go say
    (regenerated): "creating" keeps the deadline on update and read by answering with the entry's current duration, "writing"
    keeps it on read only, "accessing" never; the refresh calculators keep it after a reload failure, "creating" also after an
    update and a reload; and the current duration is `ExpiresAtNano - SnapshotAtNano` / `RefreshableAtNano - SnapshotAtNano` in
    int64 arithmetic -/
theorem c12_gen_builtin_calculators (f cur e r snap : BitVec 64) :
    (Gen.CalcSites.varExpiryCreating_ExpireAfterCreate_r0 f = f ∧ Gen.CalcSites.varExpiryCreating_ExpireAfterUpdate_r0 cur = cur ∧
     Gen.CalcSites.varExpiryCreating_ExpireAfterRead_r0 cur = cur) ∧
    (Gen.CalcSites.varExpiryWriting_ExpireAfterCreate_r0 f = f ∧ Gen.CalcSites.varExpiryWriting_ExpireAfterUpdate_r0 f = f ∧
     Gen.CalcSites.varExpiryWriting_ExpireAfterRead_r0 cur = cur) ∧
    (Gen.CalcSites.varExpiryAccessing_ExpireAfterCreate_r0 f = f ∧ Gen.CalcSites.varExpiryAccessing_ExpireAfterUpdate_r0 f = f ∧
     Gen.CalcSites.varExpiryAccessing_ExpireAfterRead_r0 f = f) ∧
    (Gen.CalcSites.varRefreshCreating_RefreshAfterCreate_r0 f = f ∧ Gen.CalcSites.varRefreshCreating_RefreshAfterUpdate_r0 cur = cur ∧
     Gen.CalcSites.varRefreshCreating_RefreshAfterReload_r0 cur = cur ∧ Gen.CalcSites.varRefreshCreating_RefreshAfterReloadFailure_r0 cur = cur) ∧
    (Gen.CalcSites.varRefreshWriting_RefreshAfterCreate_r0 f = f ∧ Gen.CalcSites.varRefreshWriting_RefreshAfterUpdate_r0 f = f ∧
     Gen.CalcSites.varRefreshWriting_RefreshAfterReload_r0 f = f ∧ Gen.CalcSites.varRefreshWriting_RefreshAfterReloadFailure_r0 cur = cur) ∧
    (Gen.CalcSites.Entry_ExpiresAfter_r0 e snap = e - snap ∧ Gen.CalcSites.Entry_RefreshableAfter_r0 r snap = r - snap) :=
  ⟨⟨rfl, rfl, rfl⟩, ⟨rfl, rfl, rfl⟩, ⟨rfl, rfl, rfl⟩, ⟨rfl, rfl, rfl, rfl⟩, ⟨rfl, rfl, rfl, rfl⟩, ⟨rfl, rfl⟩⟩

/-- the model's `durationTo` (int64 subtraction, `wrapS 64`) is that subtraction -/
theorem c12_gen_duration_wraps (e n : Int) :
    (BitVec.ofInt 64 e - BitVec.ofInt 64 n).toInt = durationTo e n := by
  unfold durationTo
  rw [BitVec.toInt_sub, BitVec.toInt_ofInt, BitVec.toInt_ofInt, wrapS64]
  simp only [Int.bmod]
  omega

/-- F19 (repaired in /repo 0d976a3): the earlier test `xmath.Abs(int64(d - current)) > 0` is false for a difference of
    MinInt64 although the two durations differ — the witness of the defect, over the regenerated xmath.Abs -/
theorem c12_abs_of_minInt64_is_not_positive :
    BitVec.slt 0#64 (Gen.Xmath.Abs 0x8000000000000000#64) = false ∧ (0x8000000000000000#64 != 0#64) = true := by decide

/-! non-vacuity: a table with one visible entry satisfies the hypotheses -/
example : NodeOk 3 { key := 3, val := 1, weight := 1, exp := 100, ref := maxI64 } := by
  unfold NodeOk maxI64; decide

end OtterVerif.Props.C01Refine
