/-
  C06 / C01 — InvalidateAll inside the refinement, and the single history theorem that covers every operation of Impl.Table
  modelled so far (Set / SetIfAbsent / Invalidate / GetIfPresent / Compute / clock advances / automatic removals /
  InvalidateAll): same results, same atomic deletion events, same final map as the spec, and written = present + reported.
-/
import OtterVerif.Proofs.TableAll
import OtterVerif.Gen.CacheWrite

namespace OtterVerif.Props.C06All
open OtterVerif OtterVerif.Impl.Table OtterVerif.Proofs.TableRefine OtterVerif.Proofs.TableTrace OtterVerif.Proofs.TableEvict
open OtterVerif.Proofs.TableConserve OtterVerif.Proofs.TableAll
open OtterVerif.Spec (Cause Event Out Entry Cfg Kind)

/-- C06: the loop InvalidateAll runs (deleteNode for every collected key) leaves nothing mapped and reports every value once -/
theorem c06_invalidateAll_loop (t : Tbl) (now : Int) (h : NodupKeys t) :
    deleteAll t (t.map (·.1)) now = invalidateAll t now ∧ (invalidateAll t now).1 = [] ∧
    (invalidateAll t now).2.length = t.length := by
  refine ⟨deleteAll_eq t now h, rfl, ?_⟩
  unfold invalidateAll; simp

/-- C06 / C01: InvalidateAll refines the spec's: the same reports (Invalidation, or Expiration for an entry whose deadline has
    passed), the empty map -/
theorem c06_invalidateAll_refines (s : Spec.State) (t : Tbl) (hs : s.m = absT t) (hok : AllOk t) (hnd : NodupKeys t) :
    absT (invalidateAll t s.now).1 = (Spec.invalidateAll s).1.m ∧ (invalidateAll t s.now).2 = (Spec.invalidateAll s).2 :=
  invalidateAll_refines s t hs hok hnd

/-- C06: the loop takes the collected nodes from the end (`nodes[len(nodes)-1]`) while any are left and the write buffer is
    below half of its maximum — over the regenerated conditions; per key there is one node, so the order between keys is free -/
theorem c06_gen_invalidateAll_loop (size len thr : BitVec 64) :
    Gen.CacheWrite.cache_InvalidateAll_c2 size len thr = (BitVec.slt 0#64 len && BitVec.ult size thr) ∧
    Gen.CacheWrite.cache_InvalidateAll_x0 len = len - 1#64 := ⟨rfl, rfl⟩

/-- C01 / C06: **every history of the operations modelled so far** -/
theorem c01_every_history_all_ops (c : Cfg) (hk1 : KindOk c.expiry) (hk2 : KindOk c.refresh) (hr : ReadOk c) (ops : List YOp)
    (now0 : Int) (hclk : YClockOk now0 ops) (q : Spec.State × List (Out × List Event))
    (hq : ysrun c { now := now0 } ops = some q) :
    (yirun c { now := now0, t := [] } ops).2 = q.2 ∧ q.1.m = absT (yirun c { now := now0, t := [] } ops).1.t ∧
    yTotalInstalls ops (yirun c { now := now0, t := [] } ops).2
      = (yirun c { now := now0, t := [] } ops).1.t.length + totalEvents (yirun c { now := now0, t := [] } ops).2 := by
  have h := yhistory_sim c hk1 hk2 hr ops { now := now0, t := [] } { now := now0 } rfl rfl (by intro k o h; cases h)
    (by unfold NodupKeys; exact List.nodup_nil) hclk q hq
  refine ⟨h.1, h.2.1, ?_⟩
  have := h.2.2
  simp only [List.length_nil, Nat.zero_add] at this
  omega

/-! ### non-vacuity -/
def exOps : List YOp :=
  [.x (.base (.set 1 7)), .x (.base (.set 2 8)), .x (.base (.advance 11)), .x (.base (.set 3 9)), .invalidateAll, .x (.base (.get 1))]
example : (ysrun { expiry := .writing 10 } { now := 0 } exOps).isSome = true := by decide
example : ((yirun { expiry := .writing 10 } { now := 0, t := [] } exOps).2.map (fun r => r.2.map (·.cause))) =
    [[], [], [], [], [.invalidation, .expiration, .expiration], []] := by decide

end OtterVerif.Props.C06All
