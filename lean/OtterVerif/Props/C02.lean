/-
  C02 — Concurrent key-value operations are linearizable.

  Each public operation has one atomic point on its key: a lock-free Get (a read) or one Compute on the key's bucket
  (an atomic read-modify-write, inside which the compute callback runs once and OnAtomicDeletion reports what is removed).
  Specification of one atomic point = Spec's per-key step (read-modify-write on the abstraction, `Props.C01`); the
  conditions the judge enforces on a recorded history are exactly "the order of the atomic points is a sequential run of
  those steps and every operation's point lies in its interval".
  Tie: skeleton equality of hashmap.Get / Compute / resize / copyBucket* (`Props.C15`) and of the cache functions that run
  inside the computation; CONC-lin on the real cache: 2-8 goroutines × Set / SetIfAbsent / GetIfPresent / GetEntry / Compute
  (write, invalidate, cancel) / ComputeIfAbsent / ComputeIfPresent / Invalidate on 1-5 keys, unbounded and evicting
  (maximum 1-4), table forced through growth and shrink by side keys; writes stamped INSIDE their critical section (expiry
  calculator / atomic deletion handler / compute callback), automatic removals entered at the atomic handler's stamp;
  `Lin.checkKey` decides each key's history exactly (unique values make the write order observable).
  Theorems: the per-key semantics of the atomic steps (every write's result and effect is a function of the state at its
  point; writes to other keys commute).
  `Conc.Bucket` (interleaving model of one bucket chain at the level of the individual atomic loads and stores of Map.Get and
  Map.Compute, any number of readers, unbounded chain): a lock-free Get returns what its key was mapped to at some instant
  of its search (for EVERY schedule), every write takes effect at exactly one of its stores and on its own key only, a key
  is never mapped by two slots, a replaced table is frozen.  The model is tied to map.go by the skeleton equalities of
  Map.Get / Map.Compute (order of the meta and pointer stores and loads) and by CONC-lin / CONC-resize on the real table.
  PARTIAL: the composition (cache operation = atomic point on the table + events) over ALL schedules is not mechanised —
  it is established for the recorded schedules, plus these per-layer theorems.
-/
import OtterVerif.Props.C01
import OtterVerif.Lin.Check
import OtterVerif.Conc.Bucket

namespace OtterVerif.Props.C02
open OtterVerif OtterVerif.Spec

/-- an atomic write step on key k does not change what any other key maps to (operations on different keys commute) -/
theorem c02_set_other_key (c : Cfg) (s : State) (k v k' : Nat) (h : k' ≠ k) :
    (Spec.set c s k v).1.phys k' = s.phys k' := by
  unfold Spec.set write State.phys State.clearInflight
  exact find_put_other _ _ _ _ h

theorem c02_invalidate_other_key (s : State) (k k' : Nat) (h : k' ≠ k) :
    (invalidate s k).1.phys k' = s.phys k' := by
  unfold invalidate remove
  cases hp : (s.clearInflight k).phys k with
  | none => rfl
  | some o => simp only [State.phys, State.clearInflight]; exact find_erase_other _ _ _ h

/-- two writes to different keys commute on the abstraction -/
theorem c02_sets_commute (c : Cfg) (s : State) (k1 v1 k2 v2 k' : Nat) (h : k1 ≠ k2) :
    ((Spec.set c (Spec.set c s k1 v1).1 k2 v2).1.phys k').map (·.val) =
    ((Spec.set c (Spec.set c s k2 v2).1 k1 v1).1.phys k').map (·.val) := by
  by_cases h1 : k' = k1
  · subst h1
    rw [c02_set_other_key c _ k2 v2 k' h, C01.c01_set_installs, C01.c01_set_installs]
  · by_cases h2 : k' = k2
    · subst h2
      rw [C01.c01_set_installs, c02_set_other_key c _ k1 v1 k' (Ne.symm h), C01.c01_set_installs]
    · rw [c02_set_other_key c _ k2 v2 k' h2, c02_set_other_key c _ k1 v1 k' h1,
          c02_set_other_key c _ k1 v1 k' h1, c02_set_other_key c _ k2 v2 k' h2]

/-- the compute step sees exactly the abstraction's value and its effect is decided by the callback's answer for it -/
theorem c02_compute_atomic (c : Cfg) (s : State) (k : Nat) (f a : Act) :
    compute c s k f a = compute c s k (match s.live k with | some _ => f | none => a) (match s.live k with | some _ => f | none => a) := by
  unfold compute; cases s.live k <;> rfl


/-! ### Lock-free readers against the locked writer, for every schedule (Conc.Bucket) -/
section bucket
open Conc.Bucket
variable (w : Nat) (h2 : Nat → Nat)

/-- **A lock-free Get is linearizable**: under every interleaving of any number of readers with the writer's single stores
    (insertion = meta byte then pointer, deletion = meta byte then nil, in-place replacement, bucket append, table
    replacement), a reader that returned v for key k was, in some reachable state of its own search, looking at a chain
    that mapped k to exactly v. -/
theorem c02_get_linearizable (hw : 0 < w) {s : St} (h : Reach w h2 s) {r k : Nat} {v : Option Node}
    (hd : s.m.rd r = .done k v) :
    ∃ s0, Reach w h2 s0 ∧ Run w h2 s0 s ∧ (s0.m.rd r).key = some k ∧ Abs h2 s0.m k v :=
  read_linearizable_run w h2 hw h hd

/-- a key is mapped by at most one slot, to one node -/
theorem c02_one_mapping_per_key (hw : 0 < w) {s : St} (h : Reach w h2 s) {k s1 s2 : Nat} {n1 n2 : Node}
    (h1 : Valid h2 s.m s1 k n1) (h2' : Valid h2 s.m s2 k n2) : s1 = s2 ∧ n1 = n2 :=
  abs_unique w h2 hw h h1 h2'

/-- every store of the writer changes the mapping of at most one key -/
theorem c02_store_touches_one_key (hw : 0 < w) {s : St} (h : Reach w h2 s) {m' : Mem} (hs : WStep w h2 s.m m') :
    ∃ k0, ∀ k, k ≠ k0 → ∀ v, Abs h2 m' k v ↔ Abs h2 s.m k v :=
  wstep_frame w h2 (reach_inv w h2 hw h).1 hs

/-- an insertion has ONE atomic point, its pointer store: the meta byte written before it changes nothing -/
theorem c02_insert_atomic_point (hw : 0 < w) {s : St} (h : Reach w h2 s) :
    (∀ k sl n, s.m.wr = .idle → s.m.mt sl = none → ∀ k' v,
        Abs h2 { s.m with mt := upd s.m.mt sl (some (h2 k)), wr := .ins sl n } k' v ↔ Abs h2 s.m k' v) ∧
    (∀ sl n, s.m.wr = .ins sl n →
        Abs h2 s.m n.key none ∧ Abs h2 { s.m with ptr := upd s.m.ptr sl (some n), wr := .idle } n.key (some n)) :=
  ⟨fun _ _ _ hwr hm k' v => insBegin_silent w h2 (reach_inv w h2 hw h).1 hwr hm k' v,
   fun _ _ hwr => insEnd_effect w h2 (reach_inv w h2 hw h).1 hwr⟩

/-- a deletion has ONE atomic point, its meta store: the nil pointer written after it changes nothing -/
theorem c02_delete_atomic_point (hw : 0 < w) {s : St} (h : Reach w h2 s) :
    (∀ sl n, s.m.ptr sl = some n → s.m.mt sl = some (h2 n.key) →
        Abs h2 s.m n.key (some n) ∧ Abs h2 { s.m with mt := upd s.m.mt sl none, wr := .del sl } n.key none) ∧
    (∀ sl, s.m.wr = .del sl → ∀ k' v,
        Abs h2 { s.m with ptr := upd s.m.ptr sl none, wr := .idle } k' v ↔ Abs h2 s.m k' v) :=
  ⟨fun _ _ hp hm => delBegin_effect w h2 (reach_inv w h2 hw h).1 hp hm,
   fun _ hwr k' v => delEnd_silent w h2 (reach_inv w h2 hw h).1 hwr k' v⟩

/-- a table that has been replaced is never written again: a reader still walking it sees the contents at the replacement -/
theorem c02_replaced_table_frozen (hw : 0 < w) {s : St} (h : Reach w h2 s) (hl : s.m.live = false) {m' : Mem}
    (hs : WStep w h2 s.m m') : m'.mt = s.m.mt ∧ m'.ptr = s.m.ptr ∧ m'.len = s.m.len :=
  frozen w h2 (reach_inv w h2 hw h).1 hl hs

/-- non-vacuity, and the case the proof is about: key 7 is present, a reader loads the meta word, the key is deleted, the
    reader finds nil and returns "absent" — a reachable run (2 slots per bucket, constant h2) -/
theorem c02_bucket_example : ∃ s, Reach 2 (fun _ => 0) s ∧ s.m.rd 0 = .done 7 none := by
  have r0 := Reach.init (w := 2) (h2 := fun _ => 0)
  have r1 := Reach.step r0 (Step.wr (WStep.insBegin 7 0 ⟨7, 1⟩ rfl rfl rfl (by intro s n hv; cases hv.2.1) (by decide) rfl))
  have r2 := Reach.step r1 (Step.wr (WStep.insEnd 0 ⟨7, 1⟩ rfl))
  have r3 := Reach.step r2 (Step.start 0 7 rfl rfl)
  have r4 := Reach.step r3 (Step.rd (RStep.snap 0 7 0 rfl))
  have r5 := Reach.step r4 (Step.wr (WStep.delBegin 0 ⟨7, 1⟩ rfl rfl rfl rfl))
  have r6 := Reach.step r5 (Step.wr (WStep.delEnd 0 rfl))
  have r7 := Reach.step r6 (Step.rd (RStep.miss 0 7 0 0 [] rfl (by intro n hp; cases hp)))
  have r8 := Reach.step r7 (Step.rd (RStep.fin 0 7 0 rfl (by decide)))
  exact ⟨_, r8, rfl⟩

end bucket

/-! ### Non-vacuity -/
example : (Spec.set {} {} 1 5).1.phys 2 = none := by decide

end OtterVerif.Props.C02
