/-
  C02 — Concurrent key-value operations are linearizable.

  Each public operation has one atomic point on its key: a lock-free Get (a read) or one Compute on the key's bucket
  (an atomic read-modify-write, inside which the compute callback runs once and OnAtomicDeletion reports what is removed).
  Specification of one atomic point = Spec's per-key step (read-modify-write on the abstraction, `Props.C01`); the
  conditions the judge enforces on a recorded history are exactly "the order of the atomic points is a sequential run of
  those steps and every operation's point lies in its interval".
  Tie: skeleton equality of hashmap.Get / Compute / resize / copyBucket* (`Props.C15`) and of the cache functions that run
  inside the computation; CONC-lin on the real cache: 2-8 goroutines × Set / SetIfAbsent / GetIfPresent / GetEntry / Compute
  (write, invalidate, cancel) / ComputeIfAbsent / ComputeIfPresent / Invalidate on 1-5 keys, unbounded and evicting
  (maximum 1-4), table forced through growth and shrink by side keys; writes stamped INSIDE their critical section (expiry
  calculator / atomic deletion handler / compute callback), automatic removals entered at the atomic handler's stamp;
  `Lin.checkKey` decides each key's history exactly (unique values make the write order observable).
  Theorems: the per-key semantics of the atomic steps (every write's result and effect is a function of the state at its
  point; writes to other keys commute).  PARTIAL: linearizability of the real code over ALL schedules is not mechanised —
  it is established for the recorded schedules only, plus the structural obligations.
-/
import OtterVerif.Props.C01
import OtterVerif.Lin.Check

namespace OtterVerif.Props.C02
open OtterVerif OtterVerif.Spec

/-- an atomic write step on key k does not change what any other key maps to (operations on different keys commute) -/
theorem c02_set_other_key (c : Cfg) (s : State) (k v k' : Nat) (h : k' ≠ k) :
    (Spec.set c s k v).1.phys k' = s.phys k' := by
  unfold Spec.set write State.phys State.clearInflight
  exact find_put_other _ _ _ _ h

theorem c02_invalidate_other_key (s : State) (k k' : Nat) (h : k' ≠ k) :
    (invalidate s k).1.phys k' = s.phys k' := by
  unfold invalidate remove
  cases hp : (s.clearInflight k).phys k with
  | none => rfl
  | some o => simp only [State.phys, State.clearInflight]; exact find_erase_other _ _ _ h

/-- two writes to different keys commute on the abstraction -/
theorem c02_sets_commute (c : Cfg) (s : State) (k1 v1 k2 v2 k' : Nat) (h : k1 ≠ k2) :
    ((Spec.set c (Spec.set c s k1 v1).1 k2 v2).1.phys k').map (·.val) =
    ((Spec.set c (Spec.set c s k2 v2).1 k1 v1).1.phys k').map (·.val) := by
  by_cases h1 : k' = k1
  · subst h1
    rw [c02_set_other_key c _ k2 v2 k' h, C01.c01_set_installs, C01.c01_set_installs]
  · by_cases h2 : k' = k2
    · subst h2
      rw [C01.c01_set_installs, c02_set_other_key c _ k1 v1 k' (Ne.symm h), C01.c01_set_installs]
    · rw [c02_set_other_key c _ k2 v2 k' h2, c02_set_other_key c _ k1 v1 k' h1,
          c02_set_other_key c _ k1 v1 k' h1, c02_set_other_key c _ k2 v2 k' h2]

/-- the compute step sees exactly the abstraction's value and its effect is decided by the callback's answer for it -/
theorem c02_compute_atomic (c : Cfg) (s : State) (k : Nat) (f a : Act) :
    compute c s k f a = compute c s k (match s.live k with | some _ => f | none => a) (match s.live k with | some _ => f | none => a) := by
  unfold compute; cases s.live k <;> rfl

/-! ### Non-vacuity -/
example : (Spec.set {} {} 1 5).1.phys 2 = none := by decide

end OtterVerif.Props.C02
