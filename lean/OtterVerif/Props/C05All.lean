/-
  C05 / C04 / C13 — size policy, timer wheel and table in one joint state (Proofs.CacheAll): after a new entry has been handed
  to both policies and the eviction pass has run — its callback unlinking every victim from the table and from the wheel —
  a node is mapped exactly while it is alive and introduced, the size policy is reachable and quiescent, and every mapped node
  is scheduled in the timer wheel with its deadline.
-/
import OtterVerif.Proofs.CacheAll
import OtterVerif.Proofs.PolicyFuel

namespace OtterVerif.Props.C05All
open OtterVerif OtterVerif.Impl.Policy OtterVerif.Proofs.CacheJoint OtterVerif.Proofs.CacheAll

/-- C05: both agreements hold together after an insertion with eviction (policy ↔ table and wheel ↔ table) -/
theorem c05_both_policies_agree_after_insert (s : CState) (h : CInv s) (id key wt d : Nat) (hs : id ∉ s.S)
    (hd : d < Impl.Wheel.two64) : CInv (cinsert s id key wt d) :=
  cinsert_inv s h id key wt d hs hd

/-- C13 / C05: the victims of a size eviction are unscheduled from the timer wheel, every surviving mapped node stays scheduled -/
theorem c13_survivors_stay_scheduled {w : Impl.Wheel.Wheel} {live : List (Nat × Nat)} (h : Impl.Wheel.WJ w live) (E : List Nat) :
    Impl.Wheel.WJ (E.foldl Impl.Wheel.delete w) (live.filter (fun q => !E.contains q.1)) :=
  wj_remove_many h E

/-- the empty cache satisfies the joint invariant -/
theorem c05_empty_cache (p0 : Policy) (h0 : p0.window = [] ∧ p0.probation = [] ∧ p0.prot = [] ∧ p0.weightedSize = 0) :
    CInv { S := [], p := p0, w := {}, live := [] } :=
  ⟨⟨Reach.init p0 h0.1 h0.2.1 h0.2.2.1 h0.2.2.2, (fun _ hx => by cases hx), List.nodup_nil,
     (fun id => ⟨(fun hx => by cases hx), (fun hx => by cases hx.1)⟩)⟩, Impl.Wheel.wj_init⟩

/-- C05 / C13: **after every history of insertions (with eviction), removals and expirations from the empty cache**: a node is
    mapped exactly while it is introduced and alive, the size policy is reachable and quiescent, and every mapped node is
    scheduled in the timer wheel with its deadline -/
theorem c05_both_agreements_every_history (p0 : Policy)
    (h0 : p0.window = [] ∧ p0.probation = [] ∧ p0.prot = [] ∧ p0.weightedSize = 0) (s : CState)
    (r : CRun { S := [], p := p0, w := {}, live := [] } s) : CInv s :=
  crun_inv r (c05_empty_cache p0 h0)

/-- C13 on the combined state: after a maintenance sweep at T that follows any history, every node still mapped (in the table AND
    tracked by the size policy) is scheduled with its deadline in a bucket correct for T: neither its deadline nor its scheduling
    lies a full tick behind T -/
theorem c13_combined_after_sweep (s : CState) (h : CInv s) (T : Nat) (hle : s.w.time ≤ T) (hT : T < Impl.Wheel.two64)
    (q : Nat × Nat)
    (hq : q ∈ (csweepWith s (Impl.Wheel.deleteExpired s.w T).2 (Impl.Wheel.deleteExpired s.w T).1).live) :
    ∃ x : Impl.Wheel.Ent, x.id = q.1 ∧ x.d = q.2 ∧ x.d ≤ x.e ∧ T >>> Impl.Wheel.shift 0 ≤ x.e >>> Impl.Wheel.shift 0 :=
  Impl.Wheel.c13_mapped_not_overdue h.whl T hle hT q hq

/-- C04 on the combined state: whenever the policy component is the result of an eviction pass over a reachable state (every
    insert / replace / remove / read step ends with one), the mapped weight is within the maximum or only weightless entries
    are mapped -/
theorem c04_combined_bound (s' : CState) (h : CInv s') (S : List Nat) (q : Policy) (hr : Reach S q) (he : s'.p = evictNodes q)
    (hS : s'.S = S) :
    s'.p.weightedSize.toNat ≤ s'.p.maximum.toNat ∨ (∀ x ∈ s'.live, (s'.p.node x.1).weight = 0) := by
  rw [he]
  rcases bound_evictNodes (reach_inv hr) (evictNodes_never_runs_out (reach_inv hr)) with hb | hz
  · left; simpa [BitVec.ult] using hb
  · right
    intro x hx
    have hm : x.1 ∈ s'.live.map (·.1) := List.mem_map.mpr ⟨x, hx, rfl⟩
    have := (h.pol.alive x.1).mp hm
    have hreach : Reach S (evictNodes q) := Reach.evict hr
    rw [he, hS] at this
    exact hz x.1 ((reach_inv hreach).b x.1 this.1 this.2)

/-- the bound after an insertion (with eviction) and after a removal, on the combined state -/
theorem c04_bound_after_insert_and_remove (s : CState) (h : CInv s) :
    (∀ id key wt d, id ∉ s.S → d < Impl.Wheel.two64 →
      (cinsert s id key wt d).p.weightedSize.toNat ≤ (cinsert s id key wt d).p.maximum.toNat ∨
      (∀ x ∈ (cinsert s id key wt d).live, ((cinsert s id key wt d).p.node x.1).weight = 0)) ∧
    (∀ old, old ∈ s.live.map (·.1) →
      (cremove s old).p.weightedSize.toNat ≤ (cremove s old).p.maximum.toNat ∨
      (∀ x ∈ (cremove s old).live, ((cremove s old).p.node x.1).weight = 0)) := by
  constructor
  · intro id key wt d hs hd
    exact c04_combined_bound _ (cinsert_inv s h id key wt d hs hd) (id :: s.S) _
      (Reach.add id (Reach.mk id key wt .alive h.pol.reach hs) hs) rfl rfl
  · intro old ho
    exact c04_combined_bound _ (cremove_inv s h old ho) s.S _
      (Reach.delete old (Reach.retire old h.pol.reach)) rfl rfl

end OtterVerif.Props.C05All
