/-
  C06 (concurrent part) — every departure is reported exactly once, for every interleaving.

  Conc.Events: writers, invalidations, evictions and task executions in any order.  The model's steps are tied to
  cache_impl.go by twelve skeleton equalities (who calls notifyDeletion / notifyAtomicDeletion / getTask, with which
  arguments, under which branch), regenerated from /repo on every run, and by CONC-events on the real cache.
-/
import OtterVerif.Conc.Events
import OtterVerif.Conc.EventsSkeleton
import OtterVerif.Gen.Skeleton

namespace OtterVerif.Props.C06Conc
open OtterVerif

/-! ### Concurrent departures: every interleaving (Conc.Events) -/

/-- OnDeletion reports a node at most once, whatever the schedule -/
theorem c06_conc_deletion_at_most_once {s : Conc.Events.St} (h : Conc.Events.Reach s) (n : Nat) : s.delLog.count n ≤ 1 :=
  Conc.Events.del_once h n

/-- OnAtomicDeletion reports a node at most once, whatever the schedule -/
theorem c06_conc_atomic_at_most_once {s : Conc.Events.St} (h : Conc.Events.Reach s) (n : Nat) : s.atomicLog.count n ≤ 1 :=
  Conc.Events.atomic_once h n

/-- what OnDeletion reports has left the table and was reported atomically at that moment -/
theorem c06_conc_deletion_after_atomic {s : Conc.Events.St} (h : Conc.Events.Reach s) (n : Nat) (hn : n ∈ s.delLog) :
    n ∈ s.atomicLog ∧ s.cell (s.keyOf n) ≠ some n :=
  Conc.Events.del_after_atomic h n hn

/-- nothing invented, nothing present reported -/
theorem c06_conc_reported_is_gone {s : Conc.Events.St} (h : Conc.Events.Reach s) (n : Nat) (hn : n ∈ s.atomicLog) :
    n < s.next ∧ s.cell (s.keyOf n) ≠ some n :=
  Conc.Events.atomic_real h n hn

/-- a departure not yet reported by OnDeletion is carried by exactly one pending task -/
theorem c06_conc_unreported_has_one_task {s : Conc.Events.St} (h : Conc.Events.Reach s) (n : Nat) (hn : n < s.next)
    (hc : s.cell (s.keyOf n) ≠ some n) (hd : n ∉ s.delLog) : Conc.Events.pend n s.queue = 1 :=
  Conc.Events.pending_exact h n hn hc hd

/-- **exactly once at quiescence**: with no task pending every node ever installed is either still installed (and
    unreported) or has been reported exactly once by OnDeletion and exactly once by OnAtomicDeletion -/
theorem c06_conc_exactly_once_at_quiescence {s : Conc.Events.St} (h : Conc.Events.Reach s) (hq : s.queue = []) (n : Nat)
    (hn : n < s.next) :
    (s.cell (s.keyOf n) = some n ∧ s.delLog.count n = 0 ∧ s.atomicLog.count n = 0) ∨
    (s.cell (s.keyOf n) ≠ some n ∧ s.delLog.count n = 1 ∧ s.atomicLog.count n = 1) :=
  Conc.Events.quiescent_exact h hq n hn

/-- for one key, the atomic handler sees the departures in the order the values were installed (node identities are handed out
    in installation order): among the reports of one key, identities increase -/
theorem c06_conc_atomic_order_per_key {s : Conc.Events.St} (h : Conc.Events.Reach s) :
    s.atomicLog.Pairwise (fun a b => s.keyOf a = s.keyOf b → a < b) :=
  Conc.Events.atomic_in_installation_order h

/-- non-vacuity: key 3 is written twice, the replaced node is evicted too late (no step exists for that), the second one is
    invalidated; after both tasks ran: nodes 0 and 1 each reported once -/
theorem c06_conc_example : ∃ s, Conc.Events.Reach s ∧ s.queue = [] ∧ s.delLog = [0, 1] ∧ s.atomicLog = [0, 1] := by
  have r0 := Conc.Events.Reach.init
  have r1 := Conc.Events.Reach.step r0 (Conc.Events.Step.setNew _ 3 rfl)
  have r2 := Conc.Events.Reach.step r1 (Conc.Events.Step.setOld _ 3 0 rfl)
  have r3 := Conc.Events.Reach.step r2 (Conc.Events.Step.invalidate _ 3 1 rfl)
  have r4 := Conc.Events.Reach.step r3 (Conc.Events.Step.run _ [] [.update 1 0, .delete 1] (.add 0) rfl)
  have r5 := Conc.Events.Reach.step r4 (Conc.Events.Step.run _ [] [.delete 1] (.update 1 0) rfl)
  have r6 := Conc.Events.Reach.step r5 (Conc.Events.Step.run _ [] [] (.delete 1) rfl)
  exact ⟨_, r6, rfl, rfl, rfl⟩

/-! ### The model's steps are the code's: skeleton equalities (regenerated from /repo on every run) -/
theorem skeleton_cache_atomicSet : Gen.Skeleton.cache_atomicSet = Conc.EventsSkeleton.cache_atomicSet := by decide
theorem skeleton_cache_atomicDelete : Gen.Skeleton.cache_atomicDelete = Conc.EventsSkeleton.cache_atomicDelete := by decide
theorem skeleton_cache_deleteNodeFromMap : Gen.Skeleton.cache_deleteNodeFromMap = Conc.EventsSkeleton.cache_deleteNodeFromMap := by decide
theorem skeleton_cache_afterWrite : Gen.Skeleton.cache_afterWrite = Conc.EventsSkeleton.cache_afterWrite := by decide
theorem skeleton_cache_afterDelete : Gen.Skeleton.cache_afterDelete = Conc.EventsSkeleton.cache_afterDelete := by decide
theorem skeleton_cache_deleteNode : Gen.Skeleton.cache_deleteNode = Conc.EventsSkeleton.cache_deleteNode := by decide
theorem skeleton_cache_evictNode : Gen.Skeleton.cache_evictNode = Conc.EventsSkeleton.cache_evictNode := by decide
theorem skeleton_cache_runTask : Gen.Skeleton.cache_runTask = Conc.EventsSkeleton.cache_runTask := by decide
theorem skeleton_cache_notifyDeletion : Gen.Skeleton.cache_notifyDeletion = Conc.EventsSkeleton.cache_notifyDeletion := by decide
theorem skeleton_cache_notifyAtomicDeletion : Gen.Skeleton.cache_notifyAtomicDeletion = Conc.EventsSkeleton.cache_notifyAtomicDeletion := by decide
theorem skeleton_cache_makeRetired : Gen.Skeleton.cache_makeRetired = Conc.EventsSkeleton.cache_makeRetired := by decide
theorem skeleton_cache_set : Gen.Skeleton.cache_set = Conc.EventsSkeleton.cache_set := by decide
theorem skeleton_cache_Invalidate : Gen.Skeleton.cache_Invalidate = Conc.EventsSkeleton.cache_Invalidate := by decide
theorem skeleton_cache_doCompute : Gen.Skeleton.cache_doCompute = Conc.EventsSkeleton.cache_doCompute := by decide
theorem skeleton_cache_makeDead : Gen.Skeleton.cache_makeDead = Conc.EventsSkeleton.cache_makeDead := by decide


end OtterVerif.Props.C06Conc
