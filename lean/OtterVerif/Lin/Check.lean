/-
  Lin.Check — linearizability judge for per-key histories of atomic read / read-modify-write operations with
  UNIQUE written values (executable; core Lean only).

  An operation on one key is a pair (seen, wrote): `seen` is what the operation observed as the key's state
  (`some v` = value v, `none` = absent) and `wrote` is `none` for a pure read or `some st` for an atomic write that
  replaced the observed state by `st`.  Every write also carries `lin`, a stamp taken INSIDE its critical section (the
  compute callback, the expiry calculator or the atomic deletion handler run under the bucket lock); all stamps come from
  one atomic counter.  The history is linearizable with those points iff
    * every write's point lies inside its [call, return] interval,
    * in the order of their points, each write saw exactly the state its predecessor left (no lost update, no two values
      at once, nothing invented),
    * every read returned a state that the key had at some instant of the read's interval.
-/
namespace OtterVerif.Lin

structure Op where
  call : Nat
  ret : Nat
  seen : Option Nat
  wrote : Option (Option Nat)      -- none = read; some (some v) = wrote v; some none = removed
  lin : Nat := 0                   -- writes only: stamp inside the critical section
  tag : String := ""
  deriving Repr, Inhabited

def Op.isWrite (o : Op) : Bool := o.wrote.isSome

/-- periods of the key's state: (from, to, state) in the order of the writes' points; the last period is open-ended -/
def periods (writes : List Op) : List (Nat × Option Nat × Option Nat) :=
  let rec go (ws : List Op) (start : Nat) (st : Option Nat) : List (Nat × Option Nat × Option Nat) :=
    match ws with
    | [] => [(start, none, st)]
    | w :: rest => (start, some w.lin, st) :: go rest w.lin (w.wrote.getD none)
  go writes 0 none

def showSt : Option Nat → String
  | some v => toString v
  | none => "absent"

/-- check one key's history; returns an explanation of the first problem found -/
def checkKey (ops : List Op) : Except String Unit := do
  let writes := (ops.filter (·.isWrite)).mergeSort (fun a b => a.lin ≤ b.lin)
  let reads := ops.filter (fun o => !o.isWrite)
  let vals := writes.filterMap (fun o => match o.wrote with | some (some v) => some v | _ => none)
  if vals.eraseDups.length != vals.length then throw "harness error: a value was written twice"
  -- points inside intervals, each write sees what its predecessor left
  let mut st : Option Nat := none
  let mut prevTag := "the initial state"
  for w in writes do
    if w.lin < w.call || w.lin > w.ret then
      throw s!"{w.tag}: took effect at {w.lin}, outside its own interval [{w.call}, {w.ret}]"
    if w.seen != st then
      throw s!"{w.tag} saw {showSt w.seen} but the state left by {prevTag} was {showSt st}: another write took effect in between, or a value was lost or invented"
    st := w.wrote.getD none
    prevTag := w.tag
  -- reads of a value: choose the points p_i ∈ [lin_i, ret_i] (the new pointer is published after the stamp was taken, before
  -- the operation returns) greedily as early as possible; a read of W_i's value must return after p_i and must have been
  -- called before p_{i+1}
  let readsOf (stv : Option Nat) := reads.filter (fun r => r.seen == stv && r.seen.isSome)
  let mut p : Nat := 0
  let mut prevState : Option (Option Nat) := none
  for w in writes do
    let before := match prevState with | some stv => readsOf stv | none => []
    let lo := before.foldl (fun m r => max m r.call) (max w.lin p)
    let after := readsOf (w.wrote.getD none)
    let hi := after.foldl (fun m r => min m r.ret) w.ret
    if lo > hi then
      let culprit := (after.filter (fun r => r.ret < lo)).map (·.tag) ++ (before.filter (fun r => r.call > hi)).map (·.tag)
      throw s!"no instant for {w.tag} (published between {w.lin} and {w.ret}) is compatible with the reads {culprit}: a read returned a value outside the period in which the key held it"
    p := lo
    prevState := some (w.wrote.getD none)
  -- reads of a value that was never written
  for r in reads do
    match r.seen with
    | some v => if !(vals.contains v) then throw s!"{r.tag} returned value {v}, which no operation wrote"
    | none => pure ()
  -- reads of 'absent': some absent period (initially, or between a removal and the next creation) overlaps the read
  let ps := periods writes
  let nexts : List (Option Op) := (writes.map some).drop 0
  for r in reads.filter (·.seen.isNone) do
    let ok := (List.range ps.length).any (fun i =>
      match ps[i]? with
      | some (from_, _, state) =>
        let latestEnd : Option Nat := (nexts[i]?.bind id).map (·.ret)
        state.isNone && from_ ≤ r.ret && (match latestEnd with | some t => r.call ≤ t | none => true)
      | none => false)
    if !ok then
      throw s!"{r.tag} (interval [{r.call}, {r.ret}]) returned absent although the key held a value during that whole interval"

end OtterVerif.Lin
