/-
  Conc.Events — interleaving model of how an entry leaves the cache and how that is reported (cache_impl.go: atomicSet,
  atomicDelete, deleteNodeFromMap, afterWrite, afterDelete, evictNode, runTask).

  Every departure is decided inside the table's critical section for the key (hashmap.Compute): the caller that finds the
  node still installed removes it, reports it to OnAtomicDeletion there and then, and becomes responsible for exactly one
  OnDeletion — either by enqueueing a task (update / delete; the maintenance reports when it runs the task) or, for an
  eviction or expiration decided by the maintenance itself, directly.  A caller that finds the node no longer installed
  (deleteNodeFromMap's pointer comparison fails) reports nothing.

  Atomic steps (any number of concurrent callers; one step = one critical section or one task execution):
    set k           a new node n replaces whatever key k holds (old): atomic event for old, task add(n) or update(n, old)
    invalidate k    key k holds o: removed, atomic event, task delete(o)
    evict n         the maintenance found n due (size / expiry) and n is still installed: removed, atomic event, OnDeletion
                    (nothing happens when n is no longer installed: there is no step for that)
    run             any pending task is executed (the write buffer is FIFO, a full buffer lets the writer hand its task over
                    directly: the model allows every order): update(n, old) and delete(n) report old / n to OnDeletion
-/
namespace OtterVerif.Conc.Events

inductive Task
  | add (n : Nat)
  | update (n old : Nat)
  | delete (n : Nat)
deriving DecidableEq, Repr

/-- the node whose departure the task reports -/
def Task.removed : Task → Option Nat
  | .add _ => none
  | .update _ o => some o
  | .delete n => some n

structure St where
  cell : Nat → Option Nat := fun _ => none     -- key ↦ installed node
  keyOf : Nat → Nat := fun _ => 0               -- node ↦ its key
  next : Nat := 0                               -- nodes created so far
  queue : List Task := []
  atomicLog : List Nat := []                    -- OnAtomicDeletion, in order
  delLog : List Nat := []                       -- OnDeletion, in order

def upd {α : Type} (f : Nat → α) (i : Nat) (v : α) : Nat → α := fun j => if j = i then v else f j
@[simp] theorem upd_self {α : Type} (f : Nat → α) (i : Nat) (v : α) : upd f i v i = v := by simp [upd]
theorem upd_other {α : Type} (f : Nat → α) (i j : Nat) (v : α) (h : j ≠ i) : upd f i v j = f j := by simp [upd, h]

inductive Step : St → St → Prop
  | setNew (s : St) (k : Nat) : s.cell k = none →
      Step s { s with cell := upd s.cell k (some s.next), keyOf := upd s.keyOf s.next k, next := s.next + 1,
                      queue := s.queue ++ [.add s.next] }
  | setOld (s : St) (k o : Nat) : s.cell k = some o →
      Step s { s with cell := upd s.cell k (some s.next), keyOf := upd s.keyOf s.next k, next := s.next + 1,
                      queue := s.queue ++ [.update s.next o], atomicLog := s.atomicLog ++ [o] }
  | invalidate (s : St) (k o : Nat) : s.cell k = some o →
      Step s { s with cell := upd s.cell k none, queue := s.queue ++ [.delete o], atomicLog := s.atomicLog ++ [o] }
  | evict (s : St) (n : Nat) : s.cell (s.keyOf n) = some n →
      Step s { s with cell := upd s.cell (s.keyOf n) none, atomicLog := s.atomicLog ++ [n], delLog := s.delLog ++ [n] }
  | run (s : St) (q1 q2 : List Task) (t : Task) : s.queue = q1 ++ t :: q2 →
      Step s { s with queue := q1 ++ q2, delLog := s.delLog ++ t.removed.toList }

inductive Reach : St → Prop
  | init : Reach {}
  | step {s s' : St} : Reach s → Step s s' → Reach s'

/-- 1 when node n is the installed node of its key -/
def inT (cell : Nat → Option Nat) (keyOf : Nat → Nat) (n : Nat) : Nat := if cell (keyOf n) = some n then 1 else 0
/-- pending tasks that will report n -/
def pend (n : Nat) (q : List Task) : Nat := q.countP (fun t => t.removed == some n)
def intro (next n : Nat) : Nat := if n < next then 1 else 0

structure InvC (cell : Nat → Option Nat) (keyOf : Nat → Nat) (next : Nat) (queue : List Task) (atomicLog delLog : List Nat) :
    Prop where
  wf : ∀ k n, cell k = some n → n < next ∧ keyOf n = k
  /-- a created node is installed, or waiting in one task, or reported — exactly one of the three -/
  sum : ∀ n, inT cell keyOf n + pend n queue + delLog.count n = intro next n
  /-- the atomic report is made exactly when the node leaves the table -/
  atm : ∀ n, atomicLog.count n + inT cell keyOf n = intro next n

def Inv (s : St) : Prop := InvC s.cell s.keyOf s.next s.queue s.atomicLog s.delLog

theorem pend_append (n : Nat) (q : List Task) (t : Task) :
    pend n (q ++ [t]) = pend n q + (if t.removed = some n then 1 else 0) := by
  unfold pend
  rw [List.countP_append, List.countP_cons, List.countP_nil]
  by_cases h : t.removed = some n
  · simp [h]
  · simp [h]

theorem pend_remove (n : Nat) (q1 q2 : List Task) (t : Task) :
    pend n (q1 ++ t :: q2) = pend n (q1 ++ q2) + (if t.removed = some n then 1 else 0) := by
  unfold pend
  rw [List.countP_append, List.countP_cons, List.countP_append]
  by_cases h : t.removed = some n
  · simp [h]; omega
  · simp [h]

theorem count_snoc (l : List Nat) (a n : Nat) : (l ++ [a]).count n = l.count n + (if a = n then 1 else 0) := by
  rw [List.count_append, List.count_cons, List.count_nil]
  by_cases h : a = n
  · simp [h]
  · simp [h]

theorem count_toList (l : List Nat) (o : Option Nat) (n : Nat) :
    (l ++ o.toList).count n = l.count n + (if o = some n then 1 else 0) := by
  cases o with
  | none => simp
  | some a =>
    show (l ++ [a]).count n = _
    rw [count_snoc]
    by_cases h : a = n
    · simp [h]
    · simp [h]

/-- what a fresh installation does to `inT` -/
theorem inT_set {cell : Nat → Option Nat} {keyOf : Nat → Nat} {next : Nat}
    (wf : ∀ k n, cell k = some n → n < next ∧ keyOf n = k) (k m : Nat) :
    inT (upd cell k (some next)) (upd keyOf next k) m =
      if m = next then 1 else if cell k = some m then 0 else inT cell keyOf m := by
  unfold inT
  by_cases hm : m = next
  · subst hm; simp
  · rw [if_neg hm, upd_other _ _ _ _ hm]
    by_cases hk : keyOf m = k
    · rw [hk, upd_self]
      have : some next ≠ some m := by intro h; cases h; exact hm rfl
      rw [if_neg this]
      by_cases hc : cell k = some m
      · rw [if_pos hc]
      · rw [if_neg hc, if_neg hc]
    · rw [upd_other _ _ _ _ hk]
      by_cases hc : cell k = some m
      · exact absurd (wf k m hc).2 hk
      · rw [if_neg hc]

/-- what a removal does to `inT` -/
theorem inT_clear {cell : Nat → Option Nat} {keyOf : Nat → Nat} {next : Nat}
    (wf : ∀ k n, cell k = some n → n < next ∧ keyOf n = k) (k o m : Nat) (ho : cell k = some o) :
    inT (upd cell k none) keyOf m = if m = o then 0 else inT cell keyOf m := by
  unfold inT
  by_cases hk : keyOf m = k
  · rw [hk, upd_self]
    by_cases hm : m = o
    · simp [hm]
    · rw [if_neg hm, ho]
      have : some o ≠ some m := by intro h; cases h; exact hm rfl
      simp [this]
  · rw [upd_other _ _ _ _ hk]
    by_cases hm : m = o
    · subst hm; exact absurd (wf k m ho).2 hk
    · rw [if_neg hm]

theorem inT_of_cell {cell : Nat → Option Nat} {keyOf : Nat → Nat} {next : Nat}
    (wf : ∀ k n, cell k = some n → n < next ∧ keyOf n = k) {k o : Nat} (ho : cell k = some o) : inT cell keyOf o = 1 := by
  unfold inT; rw [(wf k o ho).2, ho]; simp

theorem intro_succ_self (next : Nat) : intro (next + 1) next = 1 := by unfold intro; simp
theorem intro_self (next : Nat) : intro next next = 0 := by unfold intro; simp
theorem intro_succ_of_ne {next m : Nat} (h : m ≠ next) : intro (next + 1) m = intro next m := by
  unfold intro
  by_cases hl : m < next
  · rw [if_pos hl, if_pos (by omega)]
  · rw [if_neg hl, if_neg (by omega)]

theorem step_inv {s s' : St} (hi : Inv s) (h : Step s s') : Inv s' := by
  obtain ⟨wf, sum, atm⟩ := hi
  cases h with
  | setNew k hc =>
    refine ⟨?_, ?_, ?_⟩
    · intro k' n hn
      have hn' : upd s.cell k (some s.next) k' = some n := hn
      show n < s.next + 1 ∧ upd s.keyOf s.next k n = k'
      by_cases hk : k' = k
      · subst hk; rw [upd_self] at hn'; cases hn'; exact ⟨Nat.lt_succ_self _, by rw [upd_self]⟩
      · rw [upd_other _ _ _ _ hk] at hn'
        have := wf k' n hn'
        exact ⟨Nat.lt_succ_of_lt this.1, by rw [upd_other _ _ _ _ (Nat.ne_of_lt this.1)]; exact this.2⟩
    · intro m
      show inT (upd s.cell k (some s.next)) (upd s.keyOf s.next k) m + pend m (s.queue ++ [.add s.next]) + s.delLog.count m
            = intro (s.next + 1) m
      rw [inT_set wf, pend_append, hc]
      have := sum m
      by_cases hm : m = s.next
      · rw [hm] at this ⊢
        rw [intro_succ_self]; rw [intro_self] at this
        simp [Task.removed]; omega
      · rw [intro_succ_of_ne hm]
        simp [hm, Task.removed]; omega
    · intro m
      show s.atomicLog.count m + inT (upd s.cell k (some s.next)) (upd s.keyOf s.next k) m = intro (s.next + 1) m
      rw [inT_set wf, hc]
      have := atm m
      by_cases hm : m = s.next
      · rw [hm] at this ⊢
        rw [intro_succ_self]; rw [intro_self] at this
        simp; omega
      · rw [intro_succ_of_ne hm]
        simp [hm]; omega
  | setOld k o hc =>
    have ho := wf k o hc
    have hio := inT_of_cell wf hc
    refine ⟨?_, ?_, ?_⟩
    · intro k' n hn
      have hn' : upd s.cell k (some s.next) k' = some n := hn
      show n < s.next + 1 ∧ upd s.keyOf s.next k n = k'
      by_cases hk : k' = k
      · subst hk; rw [upd_self] at hn'; cases hn'; exact ⟨Nat.lt_succ_self _, by rw [upd_self]⟩
      · rw [upd_other _ _ _ _ hk] at hn'
        have := wf k' n hn'
        exact ⟨Nat.lt_succ_of_lt this.1, by rw [upd_other _ _ _ _ (Nat.ne_of_lt this.1)]; exact this.2⟩
    · intro m
      show inT (upd s.cell k (some s.next)) (upd s.keyOf s.next k) m + pend m (s.queue ++ [.update s.next o])
            + s.delLog.count m = intro (s.next + 1) m
      rw [inT_set wf, pend_append, hc]
      have := sum m
      by_cases hm : m = s.next
      · rw [hm] at this ⊢
        rw [intro_succ_self]; rw [intro_self] at this
        have : o ≠ s.next := Nat.ne_of_lt ho.1
        simp [Task.removed, this]; omega
      · rw [intro_succ_of_ne hm]
        by_cases hmo : m = o
        · rw [hmo] at this ⊢
          have hne : o ≠ s.next := Nat.ne_of_lt ho.1
          simp [hne, Task.removed]; omega
        · have h2 : o ≠ m := fun h => hmo h.symm
          simp [hm, Task.removed, h2]; omega
    · intro m
      show (s.atomicLog ++ [o]).count m + inT (upd s.cell k (some s.next)) (upd s.keyOf s.next k) m = intro (s.next + 1) m
      rw [inT_set wf, count_snoc, hc]
      have := atm m
      by_cases hm : m = s.next
      · rw [hm] at this ⊢
        rw [intro_succ_self]; rw [intro_self] at this
        have : o ≠ s.next := Nat.ne_of_lt ho.1
        simp [this]; omega
      · rw [intro_succ_of_ne hm]
        by_cases hmo : m = o
        · rw [hmo] at this ⊢
          have hne : o ≠ s.next := Nat.ne_of_lt ho.1
          simp [hne]; omega
        · have h2 : o ≠ m := fun h => hmo h.symm
          simp [hm, h2]; omega
  | invalidate k o hc =>
    have ho := wf k o hc
    have hio := inT_of_cell wf hc
    refine ⟨?_, ?_, ?_⟩
    · intro k' n hn
      have hn' : upd s.cell k none k' = some n := hn
      by_cases hk : k' = k
      · subst hk; rw [upd_self] at hn'; cases hn'
      · rw [upd_other _ _ _ _ hk] at hn'; exact wf k' n hn'
    · intro m
      show inT (upd s.cell k none) s.keyOf m + pend m (s.queue ++ [.delete o]) + s.delLog.count m = intro s.next m
      rw [inT_clear wf k o m hc, pend_append]
      have := sum m
      by_cases hmo : m = o
      · subst hmo; simp [Task.removed, hio] at *; omega
      · have h2 : o ≠ m := fun h => hmo h.symm
        simp [hmo, Task.removed, h2] at *; omega
    · intro m
      show (s.atomicLog ++ [o]).count m + inT (upd s.cell k none) s.keyOf m = intro s.next m
      rw [inT_clear wf k o m hc, count_snoc]
      have := atm m
      by_cases hmo : m = o
      · subst hmo; simp [hio] at *; omega
      · have h2 : o ≠ m := fun h => hmo h.symm
        simp [hmo, h2] at *; omega
  | evict n hc =>
    have ho := wf _ n hc
    have hio := inT_of_cell wf hc
    refine ⟨?_, ?_, ?_⟩
    · intro k' n' hn
      have hn' : upd s.cell (s.keyOf n) none k' = some n' := hn
      by_cases hk : k' = s.keyOf n
      · subst hk; rw [upd_self] at hn'; cases hn'
      · rw [upd_other _ _ _ _ hk] at hn'; exact wf k' n' hn'
    · intro m
      show inT (upd s.cell (s.keyOf n) none) s.keyOf m + pend m s.queue + (s.delLog ++ [n]).count m = intro s.next m
      rw [inT_clear wf _ n m hc, count_snoc]
      have := sum m
      by_cases hmo : m = n
      · subst hmo; simp [hio] at *; omega
      · have h2 : n ≠ m := fun h => hmo h.symm
        simp [hmo, h2] at *; omega
    · intro m
      show (s.atomicLog ++ [n]).count m + inT (upd s.cell (s.keyOf n) none) s.keyOf m = intro s.next m
      rw [inT_clear wf _ n m hc, count_snoc]
      have := atm m
      by_cases hmo : m = n
      · subst hmo; simp [hio] at *; omega
      · have h2 : n ≠ m := fun h => hmo h.symm
        simp [hmo, h2] at *; omega
  | run q1 q2 t hq =>
    refine ⟨wf, ?_, atm⟩
    intro m
    show inT s.cell s.keyOf m + pend m (q1 ++ q2) + (s.delLog ++ t.removed.toList).count m = intro s.next m
    have := sum m
    rw [hq, pend_remove] at this
    rw [count_toList]
    omega

theorem reach_inv {s : St} (h : Reach s) : Inv s := by
  induction h with
  | init =>
    refine ⟨?_, ?_, ?_⟩
    · intro k n hn; cases hn
    · intro n; simp [inT, pend, intro]
    · intro n; simp [inT, intro]
  | step _ hst ih => exact step_inv ih hst

/-! ### Consequences -/

theorem inT_le (cell : Nat → Option Nat) (keyOf : Nat → Nat) (n : Nat) : inT cell keyOf n ≤ 1 := by
  unfold inT; split <;> omega
theorem intro_le (next n : Nat) : intro next n ≤ 1 := by
  unfold intro; split <;> omega

/-- OnDeletion reports a node at most once -/
theorem del_once {s : St} (h : Reach s) (n : Nat) : s.delLog.count n ≤ 1 := by
  have := (reach_inv h).sum n
  have := intro_le s.next n
  omega

/-- OnAtomicDeletion reports a node at most once -/
theorem atomic_once {s : St} (h : Reach s) (n : Nat) : s.atomicLog.count n ≤ 1 := by
  have := (reach_inv h).atm n
  have := intro_le s.next n
  omega

/-- a node reported by OnDeletion was reported by OnAtomicDeletion before (it left the table), and is no longer installed -/
theorem del_after_atomic {s : St} (h : Reach s) (n : Nat) (hn : n ∈ s.delLog) :
    n ∈ s.atomicLog ∧ s.cell (s.keyOf n) ≠ some n := by
  have h1 := (reach_inv h).sum n
  have h2 := (reach_inv h).atm n
  have h3 := intro_le s.next n
  have h4 : 0 < s.delLog.count n := List.count_pos_iff.mpr hn
  have h5 : inT s.cell s.keyOf n = 0 := by omega
  constructor
  · apply List.count_pos_iff.mp; omega
  · intro hc; unfold inT at h5; rw [if_pos hc] at h5; cases h5

/-- nothing is invented: a reported node was created, and it is not the installed one -/
theorem atomic_real {s : St} (h : Reach s) (n : Nat) (hn : n ∈ s.atomicLog) : n < s.next ∧ s.cell (s.keyOf n) ≠ some n := by
  have h2 := (reach_inv h).atm n
  have h4 : 0 < s.atomicLog.count n := List.count_pos_iff.mpr hn
  have h3 := intro_le s.next n
  constructor
  · apply Decidable.byContradiction; intro hl
    unfold intro at h2; rw [if_neg hl] at h2; omega
  · intro hc; unfold inT at h2; rw [if_pos hc] at h2; omega

/-- **every departure is reported, exactly once**: once the pending tasks have run, a created node is either the installed
    node of its key or has been reported exactly once by OnDeletion and exactly once by OnAtomicDeletion -/
theorem quiescent_exact {s : St} (h : Reach s) (hq : s.queue = []) (n : Nat) (hn : n < s.next) :
    (s.cell (s.keyOf n) = some n ∧ s.delLog.count n = 0 ∧ s.atomicLog.count n = 0) ∨
    (s.cell (s.keyOf n) ≠ some n ∧ s.delLog.count n = 1 ∧ s.atomicLog.count n = 1) := by
  have h1 := (reach_inv h).sum n
  have h2 := (reach_inv h).atm n
  rw [hq] at h1
  have hp : pend n [] = 0 := rfl
  have hi : intro s.next n = 1 := by unfold intro; rw [if_pos hn]
  by_cases hc : s.cell (s.keyOf n) = some n
  · have : inT s.cell s.keyOf n = 1 := by unfold inT; rw [if_pos hc]
    exact Or.inl ⟨hc, by omega, by omega⟩
  · have : inT s.cell s.keyOf n = 0 := by unfold inT; rw [if_neg hc]
    exact Or.inr ⟨hc, by omega, by omega⟩

/-- before quiescence: a node that left the table and is not yet reported by OnDeletion has exactly one task that will -/
theorem pending_exact {s : St} (h : Reach s) (n : Nat) (hn : n < s.next) (hc : s.cell (s.keyOf n) ≠ some n)
    (hd : n ∉ s.delLog) : pend n s.queue = 1 := by
  have h1 := (reach_inv h).sum n
  have hi : intro s.next n = 1 := by unfold intro; rw [if_pos hn]
  have : inT s.cell s.keyOf n = 0 := by unfold inT; rw [if_neg hc]
  have : s.delLog.count n = 0 := List.count_eq_zero.mpr hd
  omega


/-! ### Per key, the atomic handler sees departures in installation order

  Node identities are handed out in installation order (`next` only grows).  Invariant: everything already reported for a key
  is older than the node the key holds now, so each new report — always of the node installed at that moment — is younger
  than all earlier reports for the same key. -/

/-- a list of node ids in which, among nodes of the same key, ids increase -/
def KeyOrdered (keyOf : Nat → Nat) (l : List Nat) : Prop := l.Pairwise (fun a b => keyOf a = keyOf b → a < b)

structure OrdInv (s : St) : Prop where
  lt : ∀ n, n ∈ s.atomicLog → n < s.next
  below : ∀ k o, s.cell k = some o → ∀ n, n ∈ s.atomicLog → s.keyOf n = k → n < o
  ord : KeyOrdered s.keyOf s.atomicLog

theorem keyOrdered_snoc {keyOf : Nat → Nat} {l : List Nat} {o : Nat} (h : KeyOrdered keyOf l)
    (hb : ∀ n, n ∈ l → keyOf n = keyOf o → n < o) : KeyOrdered keyOf (l ++ [o]) := by
  unfold KeyOrdered at *
  rw [List.pairwise_append]
  refine ⟨h, List.pairwise_singleton _ _, ?_⟩
  intro a ha b hb'
  rw [List.mem_singleton] at hb'
  subst hb'
  exact hb a ha

theorem keyOrdered_congr {keyOf keyOf' : Nat → Nat} {l : List Nat} (h : KeyOrdered keyOf l)
    (he : ∀ n, n ∈ l → keyOf' n = keyOf n) : KeyOrdered keyOf' l := by
  unfold KeyOrdered at *
  induction l with
  | nil => exact List.Pairwise.nil
  | cons a t ih =>
    rw [List.pairwise_cons] at h ⊢
    refine ⟨?_, ih h.2 (fun n hn => he n (List.mem_cons_of_mem _ hn))⟩
    intro b hb hk
    rw [he a (List.mem_cons_self ..), he b (List.mem_cons_of_mem _ hb)] at hk
    exact h.1 b hb hk

theorem step_ord {s s' : St} (hi : Inv s) (ho : OrdInv s) (h : Step s s') : OrdInv s' := by
  obtain ⟨lt, below, ord⟩ := ho
  have wf := hi.wf
  cases h with
  | setNew k hc =>
    have keyO : ∀ n, n ∈ s.atomicLog → upd s.keyOf s.next k n = s.keyOf n :=
      fun n hn => upd_other _ _ _ _ (Nat.ne_of_lt (lt n hn))
    refine ⟨fun n hn => Nat.lt_succ_of_lt (lt n hn), ?_, keyOrdered_congr ord keyO⟩
    intro k' o hc' n hn hk
    have hc'' : upd s.cell k (some s.next) k' = some o := hc'
    have hk' : upd s.keyOf s.next k n = k' := hk
    rw [keyO n hn] at hk'
    by_cases hkk : k' = k
    · subst hkk; rw [upd_self] at hc''; cases hc''; exact lt n hn
    · rw [upd_other _ _ _ _ hkk] at hc''; exact below k' o hc'' n hn hk'
  | setOld k o hc =>
    have hol := (wf k o hc).1
    have hok := (wf k o hc).2
    have keyO : ∀ n, n < s.next → upd s.keyOf s.next k n = s.keyOf n :=
      fun n hn => upd_other _ _ _ _ (Nat.ne_of_lt hn)
    have memlt : ∀ n, n ∈ s.atomicLog ++ [o] → n < s.next := by
      intro n hn
      rcases List.mem_append.mp hn with h1 | h1
      · exact lt n h1
      · rw [List.mem_singleton] at h1; rw [h1]; exact hol
    refine ⟨fun n hn => Nat.lt_succ_of_lt (memlt n hn), ?_, ?_⟩
    · intro k' o' hc' n hn hk
      have hc'' : upd s.cell k (some s.next) k' = some o' := hc'
      have hk' : upd s.keyOf s.next k n = k' := hk
      rw [keyO n (memlt n hn)] at hk'
      by_cases hkk : k' = k
      · subst hkk; rw [upd_self] at hc''; cases hc''; exact memlt n hn
      · rw [upd_other _ _ _ _ hkk] at hc''
        rcases List.mem_append.mp hn with h1 | h1
        · exact below k' o' hc'' n h1 hk'
        · rw [List.mem_singleton] at h1; subst h1
          exact absurd (hok.symm.trans hk') (fun e => hkk e.symm)
    · show KeyOrdered (upd s.keyOf s.next k) (s.atomicLog ++ [o])
      apply keyOrdered_congr (keyOf := s.keyOf)
      · exact keyOrdered_snoc ord (fun n hn hk => below k o hc n hn (hk.trans hok))
      · intro n hn; exact keyO n (memlt n hn)
  | invalidate k o hc =>
    have hol := (wf k o hc).1
    have hok := (wf k o hc).2
    have memlt : ∀ n, n ∈ s.atomicLog ++ [o] → n < s.next := by
      intro n hn
      rcases List.mem_append.mp hn with h1 | h1
      · exact lt n h1
      · rw [List.mem_singleton] at h1; rw [h1]; exact hol
    refine ⟨memlt, ?_, keyOrdered_snoc ord (fun n hn hk => below k o hc n hn (hk.trans hok))⟩
    intro k' o' hc' n hn hk
    have hc'' : upd s.cell k none k' = some o' := hc'
    by_cases hkk : k' = k
    · subst hkk; rw [upd_self] at hc''; cases hc''
    · rw [upd_other _ _ _ _ hkk] at hc''
      rcases List.mem_append.mp hn with h1 | h1
      · exact below k' o' hc'' n h1 hk
      · rw [List.mem_singleton] at h1; subst h1
        exact absurd (hok.symm.trans hk) (fun e => hkk e.symm)
  | evict n0 hc =>
    have hol := (wf _ n0 hc).1
    have memlt : ∀ n, n ∈ s.atomicLog ++ [n0] → n < s.next := by
      intro n hn
      rcases List.mem_append.mp hn with h1 | h1
      · exact lt n h1
      · rw [List.mem_singleton] at h1; rw [h1]; exact hol
    refine ⟨memlt, ?_, keyOrdered_snoc ord (fun n hn hk => below _ n0 hc n hn hk)⟩
    intro k' o' hc' n hn hk
    have hc'' : upd s.cell (s.keyOf n0) none k' = some o' := hc'
    by_cases hkk : k' = s.keyOf n0
    · subst hkk; rw [upd_self] at hc''; cases hc''
    · rw [upd_other _ _ _ _ hkk] at hc''
      rcases List.mem_append.mp hn with h1 | h1
      · exact below k' o' hc'' n h1 hk
      · rw [List.mem_singleton] at h1; subst h1
        exact absurd hk (fun e => hkk e.symm)
  | run q1 q2 t hq => exact ⟨lt, below, ord⟩

theorem reach_ord {s : St} (h : Reach s) : OrdInv s := by
  induction h with
  | init => exact ⟨fun n hn => (by cases hn), fun k o hc => (by cases hc), List.Pairwise.nil⟩
  | step hr hst ih => exact step_ord (reach_inv hr) ih hst

/-- **for one key, OnAtomicDeletion sees the departures in the order the values were installed** -/
theorem atomic_in_installation_order {s : St} (h : Reach s) : KeyOrdered s.keyOf s.atomicLog := (reach_ord h).ord

end OtterVerif.Conc.Events
