/-
  Conc.FlightSkeleton — snapshot of the skeletons of singleflight.go and cache.afterDeleteCall.
-/
namespace OtterVerif.Conc.FlightSkeleton

def group_startCall : List (Nat × String) :=
  [(0, "if c!=nil"),
   (0, "then"),
   (1, "return"),
   (0, "fi"),
   (0, "func{"),
   (1, "if prevCall!=nil"),
   (1, "then"),
   (2, "return"),
   (1, "fi"),
   (1, "return"),
   (0, "}"),
   (0, "return")]

def group_deleteCall : List (Nat × String) :=
  [(0, "if got!=c"),
   (0, "then"),
   (1, "return"),
   (0, "fi"),
   (0, "func{"),
   (1, "if prevCall==c"),
   (1, "then"),
   (2, "return"),
   (1, "fi"),
   (1, "return"),
   (0, "}"),
   (0, "return")]

def group_delete : List (Nat × String) :=
  [(0, "if !g.isInitialized.Load()"),
   (1, "Load isInitialized"),
   (0, "then"),
   (1, "return"),
   (0, "fi"),
   (0, "func{"),
   (1, "return"),
   (0, "}")]

def group_doCall : List (Nat × String) :=
  [(0, "defer"),
   (1, "func{"),
   (2, "if r!=nil"),
   (2, "then"),
   (2, "fi"),
   (1, "}()"),
   (0, "return")]

def group_doBulkCall : List (Nat × String) :=
  [(0, "defer"),
   (1, "func{"),
   (2, "if r!=nil"),
   (2, "then"),
   (2, "fi"),
   (2, "if err!=nil"),
   (2, "then"),
   (3, "range"),
   (3, "egnar"),
   (2, "fi"),
   (2, "range"),
   (2, "egnar"),
   (1, "}()"),
   (0, "range"),
   (0, "egnar"),
   (0, "range"),
   (1, "if !found"),
   (1, "then"),
   (1, "fi"),
   (1, "if ok"),
   (1, "then"),
   (1, "else"),
   (1, "fi"),
   (0, "egnar"),
   (0, "range"),
   (1, "if ok"),
   (1, "then"),
   (2, "continue"),
   (1, "fi"),
   (0, "egnar"),
   (0, "return")]

def cache_afterDeleteCall : List (Nat × String) :=
  [(0, "func{"),
   (1, "call deleteCall"),
   (1, "if isCorrectCall&&cl.isNotFound"),
   (1, "then"),
   (2, "return"),
   (1, "fi"),
   (1, "if cl.err!=nil"),
   (1, "then"),
   (2, "if cl.isRefresh&&oldNode!=nil"),
   (2, "then"),
   (2, "fi"),
   (2, "return"),
   (1, "fi"),
   (1, "if !isCorrectCall"),
   (1, "then"),
   (2, "return"),
   (1, "fi"),
   (1, "return"),
   (0, "}"),
   (0, "if deleted"),
   (0, "then"),
   (0, "fi"),
   (0, "if inserted"),
   (0, "then"),
   (0, "fi")]

end OtterVerif.Conc.FlightSkeleton
