/-
  Conc.Ring — interleaving model of internal/lossy/ring.go: ONE ring, unboundedly many producers, the single consumer.

  Atomic steps (sync/atomic operations are sequentially consistent single steps):
    reserve x   a producer that loaded head (some earlier, hence smaller-or-equal, value h0 of the monotone head) and the
                current tail t with t - h0 < 16 wins the CAS tail: t → t+1; it owns absolute index t and will publish x there.
                (t - h0 < 16 for some h0 ≤ head is equivalent to t - head < 16; a producer whose CAS fails, or that sees a
                full ring, changes nothing.)
    publish i   the owner of index i stores its element into slot i mod 16
    cStart      the consumer loads head and tail (tail ≠ head) and starts draining from head up to the loaded tail
    cTake       the consumer finds the slot of its local index published: clears it, hands the element over, advances
    cStop       the consumer reaches the loaded tail or an unpublished slot: stores head
-/
namespace OtterVerif.Conc.Ring

structure St where
  head : Nat := 0
  tail : Nat := 0
  slot : Nat → Option Nat := fun _ => none     -- the 16 slots (argument taken mod 16)
  res : Nat → Bool := fun _ => false            -- reserved but not yet published, by absolute index
  val : Nat → Nat := fun _ => 0                 -- the element recorded at an absolute index
  cons : Option (Nat × Nat) := none             -- the consumer's local (index, loaded tail) while draining
  delivered : List Nat := []                    -- elements handed to the policy, in order

def upd {α : Type} (f : Nat → α) (i : Nat) (v : α) : Nat → α := fun j => if j = i then v else f j
@[simp] theorem upd_self {α : Type} (f : Nat → α) (i : Nat) (v : α) : upd f i v i = v := by simp [upd]
theorem upd_other {α : Type} (f : Nat → α) (i j : Nat) (v : α) (h : j ≠ i) : upd f i v j = f j := by simp [upd, h]

/-- the first index not yet handed over -/
def hcurC (head : Nat) (cons : Option (Nat × Nat)) : Nat := match cons with | some (h, _) => h | none => head
def hcur (s : St) : Nat := hcurC s.head s.cons

inductive Step : St → St → Prop
  | reserve (s : St) (x : Nat) : s.tail - s.head < 16 →
      Step s { s with tail := s.tail + 1, res := upd s.res s.tail true, val := upd s.val s.tail x }
  | publish (s : St) (i : Nat) : s.res i = true →
      Step s { s with slot := upd s.slot (i % 16) (some (s.val i)), res := upd s.res i false }
  | cStart (s : St) : s.cons = none → s.tail ≠ s.head →
      Step s { s with cons := some (s.head, s.tail) }
  | cTake (s : St) (h te v : Nat) : s.cons = some (h, te) → h ≠ te → s.slot (h % 16) = some v →
      Step s { s with slot := upd s.slot (h % 16) none, cons := some (h + 1, te), delivered := s.delivered ++ [v] }
  | cStop (s : St) (h te : Nat) : s.cons = some (h, te) → (h = te ∨ s.slot (h % 16) = none) →
      Step s { s with head := h, cons := none }

inductive Reach : St → Prop
  | init : Reach {}
  | step {s s' : St} : Reach s → Step s s' → Reach s'

/-- the invariant, over the components (hc = the consumer's current index) -/
structure InvC (head tail : Nat) (slot : Nat → Option Nat) (res : Nat → Bool) (val : Nat → Nat) (cons : Option (Nat × Nat))
    (delivered : List Nat) (hc : Nat) : Prop where
  /-- head ≤ consumer's index ≤ loaded tail ≤ tail, and the ring never holds more than 16 entries -/
  o1 : head ≤ hc
  o2 : hc ≤ tail
  o3 : tail - head ≤ 16
  o4 : ∀ h te, cons = some (h, te) → h ≤ te ∧ te ≤ tail
  /-- reservations are inside the window -/
  resw : ∀ i, res i = true → hc ≤ i ∧ i < tail
  /-- inside the window a slot holds exactly the published element of its index -/
  win : ∀ i, hc ≤ i → i < tail → slot (i % 16) = if res i then none else some (val i)
  /-- every other slot is empty -/
  out : ∀ j, j < 16 → (∀ i, hc ≤ i → i < tail → i % 16 ≠ j) → slot j = none
  /-- what was handed over is exactly the elements of the indices below the consumer's index, each once, in order -/
  dlv : delivered = (List.range hc).map val

def Inv (s : St) : Prop := InvC s.head s.tail s.slot s.res s.val s.cons s.delivered (hcur s)

theorem inv_init : Inv {} :=
  ⟨Nat.le_refl _, Nat.le_refl _, (by decide), fun _ _ h => (by cases h), fun _ h => (by cases h),
   fun i _ h2 => absurd h2 (Nat.not_lt_zero _), fun _ _ _ => rfl, rfl⟩

theorem inv_step {s s' : St} (hi : Inv s) (hs : Step s s') : Inv s' := by
  obtain ⟨o1, o2, o3, o4, hr, hw, ho, hd⟩ := hi
  cases hs with
  | reserve x hg =>
    show InvC s.head (s.tail + 1) s.slot (upd s.res s.tail true) (upd s.val s.tail x) s.cons s.delivered (hcur s)
    refine ⟨o1, by omega, by omega, fun h te e => ?_, fun i hres => ?_, fun i h1 h2 => ?_, fun j hj hno => ?_, ?_⟩
    · have := o4 h te e; exact ⟨this.1, by omega⟩
    · by_cases e : i = s.tail
      · subst e; exact ⟨o2, by omega⟩
      · rw [upd_other _ _ _ _ e] at hres
        have := hr i hres; exact ⟨this.1, by omega⟩
    · by_cases e : i = s.tail
      · subst e
        simp only [upd_self, ↓reduceIte]
        exact ho (s.tail % 16) (Nat.mod_lt _ (by decide)) (fun i' a b => by omega)
      · rw [upd_other _ _ _ _ e, upd_other _ _ _ _ e]
        exact hw i h1 (by omega)
    · exact ho j hj (fun i a b => hno i a (by omega))
    · rw [hd]
      apply List.map_congr_left
      intro a ha
      have : a < hcur s := List.mem_range.mp ha
      rw [upd_other _ _ _ _ (by omega)]
  | publish i hres =>
    show InvC s.head s.tail (upd s.slot (i % 16) (some (s.val i))) (upd s.res i false) s.val s.cons s.delivered (hcur s)
    have hwin := hr i hres
    refine ⟨o1, o2, o3, o4, fun k hk => ?_, fun k h1 h2 => ?_, fun j hj hno => ?_, hd⟩
    · by_cases e : k = i
      · subst e; simp at hk
      · rw [upd_other _ _ _ _ e] at hk; exact hr k hk
    · by_cases e : k = i
      · subst e; simp
      · have hm : k % 16 ≠ i % 16 := by omega
        rw [upd_other _ _ _ _ e, upd_other _ _ _ _ hm]
        exact hw k h1 h2
    · have hm : j ≠ i % 16 := fun e => hno i hwin.1 hwin.2 e.symm
      rw [upd_other _ _ _ _ hm]
      exact ho j hj hno
  | cStart hcn hne =>
    have h0 : hcur s = s.head := by unfold hcur hcurC; rw [hcn]
    show InvC s.head s.tail s.slot s.res s.val (some (s.head, s.tail)) s.delivered s.head
    rw [h0] at o1 o2 hr hw ho hd
    refine ⟨o1, o2, o3, fun h te e => ?_, hr, hw, ho, hd⟩
    simp only [Option.some.injEq, Prod.mk.injEq] at e
    obtain ⟨e1, e2⟩ := e
    subst e1; subst e2
    exact ⟨by omega, Nat.le_refl _⟩
  | cTake h te v hcn hne hsl =>
    have h0 : hcur s = h := by unfold hcur hcurC; rw [hcn]
    show InvC s.head s.tail (upd s.slot (h % 16) none) s.res s.val (some (h + 1, te)) (s.delivered ++ [v]) (h + 1)
    rw [h0] at o1 o2 hr hw ho hd
    have hb := o4 h te hcn
    have hres : s.res h = false := by
      cases hrh : s.res h with
      | false => rfl
      | true =>
        have := hw h (by omega) (by omega)
        rw [hrh, hsl] at this; simp at this
    have hv : v = s.val h := by
      have := hw h (by omega) (by omega)
      rw [hres, hsl] at this
      simpa using this
    refine ⟨by omega, by omega, o3, fun h' te' e => ?_, fun i hri => ?_, fun i h1 h2 => ?_, fun j hj hno => ?_, ?_⟩
    · simp only [Option.some.injEq, Prod.mk.injEq] at e
      obtain ⟨e1, e2⟩ := e
      subst e1; subst e2
      exact ⟨by omega, hb.2⟩
    · have := hr i hri
      have hne' : i ≠ h := fun e => by rw [e, hres] at hri; cases hri
      omega
    · have hm : i % 16 ≠ h % 16 := by omega
      rw [upd_other _ _ _ _ hm]
      exact hw i (by omega) h2
    · by_cases e : j = h % 16
      · subst e; simp
      · rw [upd_other _ _ _ _ e]
        refine ho j hj (fun i a b => ?_)
        by_cases e2 : i = h
        · subst e2; exact fun e3 => e e3.symm
        · exact hno i (by omega) b
    · rw [hd, List.range_succ, List.map_append, hv]
      rfl
  | cStop h te hcn hstop =>
    have h0 : hcur s = h := by unfold hcur hcurC; rw [hcn]
    show InvC h s.tail s.slot s.res s.val none s.delivered h
    rw [h0] at o1 o2 hr hw ho hd
    exact ⟨Nat.le_refl _, o2, (by omega), fun _ _ e => (by cases e), hr, hw, ho, hd⟩

theorem reach_inv {s : St} (h : Reach s) : Inv s := by
  induction h with
  | init => exact inv_init
  | step _ hs ih => exact inv_step ih hs


/-! ### quiescent drain: with nothing pending, one run of the consumer hands over everything recorded -/

inductive Steps : St → St → Prop
  | refl (s : St) : Steps s s
  | tail {s s' s'' : St} : Step s s' → Steps s' s'' → Steps s s''

theorem steps_reach {s s' : St} (h : Reach s) (hs : Steps s s') : Reach s' := by
  induction hs with
  | refl => exact h
  | tail st _ ih => exact ih (Reach.step h st)

theorem drain_from (n : Nat) : ∀ (s : St) (h : Nat), Inv s → (∀ i, s.res i = false) → s.cons = some (h, s.tail) → s.tail - h = n →
    ∃ s', Steps s s' ∧ s'.head = s.tail ∧ s'.tail = s.tail ∧ s'.cons = none ∧ s'.delivered = (List.range s.tail).map s.val := by
  induction n with
  | zero =>
    intro s h hi hq hc hn
    have h0 : hcur s = h := by unfold hcur hcurC; rw [hc]
    have hb := hi.o4 h s.tail hc
    have he : h = s.tail := by omega
    refine ⟨_, Steps.tail (Step.cStop s h s.tail hc (Or.inl he)) (Steps.refl _), he, rfl, rfl, ?_⟩
    show s.delivered = _
    rw [hi.dlv, h0, he]
  | succ n ih =>
    intro s h hi hq hc hn
    have h0 : hcur s = h := by unfold hcur hcurC; rw [hc]
    have hne : h ≠ s.tail := by omega
    have hsl : s.slot (h % 16) = some (s.val h) := by
      have := hi.win h (by rw [h0]; exact Nat.le_refl _) (by omega)
      rw [hq h] at this
      simpa using this
    have st := Step.cTake s h s.tail (s.val h) hc hne hsl
    have hi' := inv_step hi st
    obtain ⟨s', hs', e1, e2, e3, e4⟩ := ih _ (h + 1) hi' hq rfl (by show s.tail - (h + 1) = n; omega)
    exact ⟨s', Steps.tail st hs', e1, e2, e3, e4⟩

theorem quiescent_drain (s : St) (hr : Reach s) (hq : ∀ i, s.res i = false) (hc : s.cons = none) :
    ∃ s', Steps s s' ∧ s'.head = s.tail ∧ s'.tail = s.tail ∧ s'.cons = none ∧ s'.delivered = (List.range s.tail).map s.val := by
  have hi := reach_inv hr
  by_cases he : s.tail = s.head
  · have h0 : hcur s = s.head := by unfold hcur hcurC; rw [hc]
    refine ⟨s, Steps.refl s, he.symm, rfl, hc, ?_⟩
    rw [hi.dlv, h0, he]
  · have st := Step.cStart s hc he
    obtain ⟨s', hs', e1, e2, e3, e4⟩ := drain_from (s.tail - s.head) _ s.head (inv_step hi st) hq rfl rfl
    exact ⟨s', Steps.tail st hs', e1, e2, e3, e4⟩

end OtterVerif.Conc.Ring
