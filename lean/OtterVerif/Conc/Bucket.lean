/-
  Conc.Bucket — interleaving model of ONE bucket chain of internal/hashmap/map.go: lock-free readers (Map.Get) against the
  writer that holds the root-bucket lock (Map.Compute), at the granularity of the individual atomic loads and stores.

  A chain is a growing array of slots (`w` slots per bucket, `len` buckets); slot s has a meta byte (`none` = empty, else
  the h2 byte of the key stored there) and a node pointer.  The writer's critical section is a sequence of single stores,
  in the order of the source ("first we update meta, then the node" / "first we update the hash, then the node"):

    insBegin / insEnd     insertion into an empty slot: Store meta (h2), then StorePointer node
    delBegin / delEnd     deletion: Store meta (empty), then StorePointer nil
    update                in-place replacement: one StorePointer
    append                a new bucket, already filled, published by one Store next
    retire                the table is replaced (resize, Clear): the chain is frozen, no writer touches it again

  A reader (any number of them, each with its own key) runs Map.Get step by step:

    start                 Load table (the chain must still be current at that instant)
    snap                  Load meta of bucket b: ONE atomic load of all w meta bytes; the marked slots are those whose byte
                          equals h2(key), in ascending order
    hit / miss            LoadPointer of the next marked slot: a node with the key ends the search, anything else
                          (nil, another key with the same h2) continues
    next / fin            Load next: go to the following bucket, or return "absent" at the end of the chain

  The abstraction `Abs m k` (what the chain maps k to) counts a slot only when BOTH its meta byte and its pointer are set for
  k, so an insertion takes effect at its pointer store, a deletion at its meta store, a replacement at its single store.
  The ghost `seen r` collects every value `Abs` has had for the reader's key from its start on (it is updated after every
  step by `obs`, definitionally).  Theorem `read_linearizable`: whatever a reader returns is in `seen` — the key mapped to
  exactly that at some instant between the reader's first and last step.
-/
namespace OtterVerif.Conc.Bucket

structure Node where
  key : Nat
  id  : Nat
deriving DecidableEq, Repr

inductive Wr
  | idle
  | ins (s : Nat) (n : Node)
  | del (s : Nat)
deriving DecidableEq

inductive Rd
  | off
  | scan (k b : Nat)
  | probing (k b : Nat) (M : List Nat)
  | done (k : Nat) (res : Option Node)
deriving DecidableEq

/-- the key of a reader that is still searching -/
def Rd.key : Rd → Option Nat
  | .scan k _ => some k
  | .probing k _ _ => some k
  | _ => none

structure Mem where
  mt   : Nat → Option Nat := fun _ => none
  ptr  : Nat → Option Node := fun _ => none
  len  : Nat := 1
  live : Bool := true
  wr   : Wr := .idle
  rd   : Nat → Rd := fun _ => .off

def upd {α : Type} (f : Nat → α) (i : Nat) (v : α) : Nat → α := fun j => if j = i then v else f j
@[simp] theorem upd_self {α : Type} (f : Nat → α) (i : Nat) (v : α) : upd f i v i = v := by simp [upd]
theorem upd_other {α : Type} (f : Nat → α) (i j : Nat) (v : α) (h : j ≠ i) : upd f i v j = f j := by simp [upd, h]

/-- ghost-carrying state -/
structure St where
  m : Mem
  seen : Nat → Option Node → Prop

section
variable (w : Nat) (h2 : Nat → Nat)

/-- slot s currently maps key k to node n: meta byte and pointer both set for it -/
def Valid (m : Mem) (s k : Nat) (n : Node) : Prop :=
  m.mt s = some (h2 k) ∧ m.ptr s = some n ∧ n.key = k

/-- what the chain maps k to -/
def Abs (m : Mem) (k : Nat) : Option Node → Prop
  | some n => ∃ s, Valid h2 m s k n
  | none => ∀ s n, ¬ Valid h2 m s k n

/-- the slots of bucket b whose meta byte equals h2 k, ascending (one atomic load of the meta word) -/
def marks (m : Mem) (k b : Nat) : List Nat :=
  ((List.range w).filter (fun i => m.mt (b * w + i) = some (h2 k))).map (fun i => b * w + i)

/-- the writer's stores (the readers' records are untouched) -/
inductive WStep (m : Mem) : Mem → Prop
  | insBegin (k s : Nat) (n : Node) : m.live = true → m.wr = .idle → n.key = k → Abs h2 m k none → s < m.len * w →
      m.mt s = none →
      WStep m { m with mt := upd m.mt s (some (h2 k)), wr := .ins s n }
  | insEnd (s : Nat) (n : Node) : m.wr = .ins s n →
      WStep m { m with ptr := upd m.ptr s (some n), wr := .idle }
  | delBegin (s : Nat) (n : Node) : m.live = true → m.wr = .idle → m.ptr s = some n → m.mt s = some (h2 n.key) →
      WStep m { m with mt := upd m.mt s none, wr := .del s }
  | delEnd (s : Nat) : m.wr = .del s →
      WStep m { m with ptr := upd m.ptr s none, wr := .idle }
  | update (s : Nat) (n n' : Node) : m.live = true → m.wr = .idle → m.ptr s = some n → m.mt s = some (h2 n.key) →
      n'.key = n.key →
      WStep m { m with ptr := upd m.ptr s (some n') }
  | append (k : Nat) (n : Node) : m.live = true → m.wr = .idle → n.key = k → Abs h2 m k none →
      WStep m { m with mt := upd m.mt (m.len * w) (some (h2 k)), ptr := upd m.ptr (m.len * w) (some n),
                       len := m.len + 1 }
  | retire : m.wr = .idle → WStep m { m with live := false }

/-- one step of reader r: its new record -/
inductive RStep (m : Mem) : Nat → Rd → Prop
  | snap (r k b : Nat) : m.rd r = .scan k b → RStep m r (.probing k b (marks w h2 m k b))
  | hit (r k b s : Nat) (M : List Nat) (n : Node) : m.rd r = .probing k b (s :: M) → m.ptr s = some n → n.key = k →
      RStep m r (.done k (some n))
  | miss (r k b s : Nat) (M : List Nat) : m.rd r = .probing k b (s :: M) → (∀ n, m.ptr s = some n → n.key ≠ k) →
      RStep m r (.probing k b M)
  | next (r k b : Nat) : m.rd r = .probing k b [] → b + 1 < m.len → RStep m r (.scan k (b + 1))
  | fin (r k b : Nat) : m.rd r = .probing k b [] → ¬ (b + 1 < m.len) → RStep m r (.done k none)

/-- after every step each searching reader records what its key maps to now -/
def obs (m : Mem) (seen : Nat → Option Node → Prop) : Nat → Option Node → Prop :=
  fun r v => seen r v ∨ ∃ k, (m.rd r).key = some k ∧ Abs h2 m k v

inductive Step : St → St → Prop
  | wr {m m' : Mem} {seen} : WStep w h2 m m' → Step ⟨m, seen⟩ ⟨m', obs h2 m' seen⟩
  | rd {m : Mem} {seen} {r : Nat} {x : Rd} : RStep w h2 m r x →
      Step ⟨m, seen⟩ ⟨{ m with rd := upd m.rd r x }, obs h2 { m with rd := upd m.rd r x } seen⟩
  | start {m : Mem} {seen} (r k : Nat) : m.rd r = .off → m.live = true →
      Step ⟨m, seen⟩ ⟨{ m with rd := upd m.rd r (.scan k 0) },
                      obs h2 { m with rd := upd m.rd r (.scan k 0) } (upd seen r (fun _ => False))⟩

inductive Reach : St → Prop
  | init : Reach ⟨{}, fun _ _ => False⟩
  | step {s s' : St} : Reach s → Step w h2 s s' → Reach s'

/-! ### Memory invariant -/

structure MInv (m : Mem) : Prop where
  len1 : 1 ≤ m.len
  beyond : ∀ s, m.len * w ≤ s → m.mt s = none ∧ m.ptr s = none
  coh : ∀ s n, m.ptr s = some n → m.mt s = some (h2 n.key) ∨ m.wr = .del s
  insI : ∀ s n, m.wr = .ins s n → m.mt s = some (h2 n.key) ∧ m.ptr s = none ∧
            ∀ s' n', m.ptr s' = some n' → n'.key ≠ n.key
  delI : ∀ s, m.wr = .del s → m.mt s = none
  uniq : ∀ s s' n n', m.ptr s = some n → m.ptr s' = some n' → n.key = n'.key → s = s'
  frz : m.live = false → m.wr = .idle

/-- with the writer idle an absent key has no pointer anywhere -/
theorem MInv.no_ptr {m : Mem} (hi : MInv w h2 m) (hw : m.wr = .idle) {k : Nat} (ha : Abs h2 m k none) :
    ∀ s' n', m.ptr s' = some n' → n'.key ≠ k := by
  intro s' n' hp hk
  rcases hi.coh s' n' hp with hm | hd
  · exact ha s' n' ⟨by rw [hm, hk], hp, hk⟩
  · rw [hw] at hd; cases hd

theorem wstep_minv (hw : 0 < w) {m m' : Mem} (hi : MInv w h2 m) (h : WStep w h2 m m') : MInv w h2 m' := by
  cases h with
  | insBegin k s n hl hwr hk ha hs hm =>
    refine ⟨hi.len1, ?_, ?_, ?_, ?_, hi.uniq, fun h => by rw [hl] at h; cases h⟩
    · intro s' hs'
      have hs'' : m.len * w ≤ s' := hs'
      have hne : s' ≠ s := by omega
      show upd m.mt s _ s' = none ∧ _
      rw [upd_other _ _ _ _ hne]; exact hi.beyond s' hs'
    · intro s' n' hp
      show upd m.mt s _ s' = _ ∨ _
      by_cases hss : s' = s
      · subst hss
        rcases hi.coh _ _ hp with h1 | h1
        · rw [hm] at h1; cases h1
        · rw [hwr] at h1; cases h1
      · rw [upd_other _ _ _ _ hss]
        rcases hi.coh _ _ hp with h1 | h1
        · exact Or.inl h1
        · rw [hwr] at h1; cases h1
    · intro s' n' he
      have he' : Wr.ins s n = Wr.ins s' n' := he
      cases he'
      refine ⟨by show upd m.mt s _ s = _; rw [upd_self, hk], ?_, ?_⟩
      · show m.ptr s = none
        cases hp : m.ptr s with
        | none => rfl
        | some n' =>
          rcases hi.coh _ _ hp with h1 | h1
          · rw [hm] at h1; cases h1
          · rw [hwr] at h1; cases h1
      · intro s' n' hp; rw [hk]; exact hi.no_ptr w h2 hwr ha s' n' hp
    · intro s' he
      have he' : Wr.ins s n = Wr.del s' := he
      cases he'
  | insEnd s n hwr =>
    obtain ⟨i1, i2, i3⟩ := hi.insI s n hwr
    refine ⟨hi.len1, ?_, ?_, ?_, ?_, ?_, fun _ => rfl⟩
    · intro s' hs'
      have hne : s' ≠ s := by
        intro he; subst he
        have := (hi.beyond _ hs').1; rw [i1] at this; cases this
      show _ ∧ upd m.ptr s _ s' = none
      rw [upd_other _ _ _ _ hne]; exact hi.beyond s' hs'
    · intro s' n' hp
      have hp' : upd m.ptr s (some n) s' = some n' := hp
      by_cases hss : s' = s
      · subst hss; rw [upd_self] at hp'; cases hp'; exact Or.inl i1
      · rw [upd_other _ _ _ _ hss] at hp'
        rcases hi.coh _ _ hp' with h1 | h1
        · exact Or.inl h1
        · rw [hwr] at h1; cases h1
    · intro s' n' he
      have he' : Wr.idle = Wr.ins s' n' := he
      cases he'
    · intro s' he
      have he' : Wr.idle = Wr.del s' := he
      cases he'
    · intro s1 s2 n1 n2 h1 h2' hk
      have h1' : upd m.ptr s (some n) s1 = some n1 := h1
      have h2'' : upd m.ptr s (some n) s2 = some n2 := h2'
      by_cases e1 : s1 = s
      · by_cases e2 : s2 = s
        · rw [e1, e2]
        · exfalso
          subst e1; rw [upd_self] at h1'; cases h1'
          rw [upd_other _ _ _ _ e2] at h2''
          exact i3 _ _ h2'' hk.symm
      · by_cases e2 : s2 = s
        · exfalso
          subst e2; rw [upd_self] at h2''; cases h2''
          rw [upd_other _ _ _ _ e1] at h1'
          exact i3 _ _ h1' hk
        · rw [upd_other _ _ _ _ e1] at h1'; rw [upd_other _ _ _ _ e2] at h2''
          exact hi.uniq _ _ _ _ h1' h2'' hk
  | delBegin s n hl hwr hp hm =>
    refine ⟨hi.len1, ?_, ?_, ?_, ?_, hi.uniq, fun h => by rw [hl] at h; cases h⟩
    · intro s' hs'
      show upd m.mt s none s' = none ∧ _
      by_cases hss : s' = s
      · subst hss; rw [upd_self]; exact ⟨rfl, (hi.beyond _ hs').2⟩
      · rw [upd_other _ _ _ _ hss]; exact hi.beyond s' hs'
    · intro s' n' hp'
      show upd m.mt s none s' = _ ∨ Wr.del s = Wr.del s'
      by_cases hss : s' = s
      · subst hss; exact Or.inr rfl
      · rw [upd_other _ _ _ _ hss]
        rcases hi.coh _ _ hp' with h1 | h1
        · exact Or.inl h1
        · rw [hwr] at h1; cases h1
    · intro s' n' he
      have he' : Wr.del s = Wr.ins s' n' := he
      cases he'
    · intro s' he
      have he' : Wr.del s = Wr.del s' := he
      cases he'
      show upd m.mt s none s = none
      rw [upd_self]
  | delEnd s hwr =>
    have d1 := hi.delI s hwr
    refine ⟨hi.len1, ?_, ?_, ?_, ?_, ?_, fun _ => rfl⟩
    · intro s' hs'
      show _ ∧ upd m.ptr s none s' = none
      by_cases hss : s' = s
      · subst hss; rw [upd_self]; exact ⟨(hi.beyond _ hs').1, rfl⟩
      · rw [upd_other _ _ _ _ hss]; exact hi.beyond s' hs'
    · intro s' n' hp
      have hp' : upd m.ptr s none s' = some n' := hp
      by_cases hss : s' = s
      · subst hss; rw [upd_self] at hp'; cases hp'
      · rw [upd_other _ _ _ _ hss] at hp'
        rcases hi.coh _ _ hp' with h1 | h1
        · exact Or.inl h1
        · rw [hwr] at h1; cases h1; exact absurd rfl hss
    · intro s' n' he
      have he' : Wr.idle = Wr.ins s' n' := he
      cases he'
    · intro s' he
      have he' : Wr.idle = Wr.del s' := he
      cases he'
    · intro s1 s2 n1 n2 h1 h2' hk
      have h1' : upd m.ptr s none s1 = some n1 := h1
      have h2'' : upd m.ptr s none s2 = some n2 := h2'
      have e1 : s1 ≠ s := by intro e; subst e; rw [upd_self] at h1'; cases h1'
      have e2 : s2 ≠ s := by intro e; subst e; rw [upd_self] at h2''; cases h2''
      rw [upd_other _ _ _ _ e1] at h1'; rw [upd_other _ _ _ _ e2] at h2''
      exact hi.uniq _ _ _ _ h1' h2'' hk
  | update s n n' hl hwr hp hm hk =>
    refine ⟨hi.len1, ?_, ?_, ?_, ?_, ?_, fun _ => hwr⟩
    · intro s' hs'
      have hne : s' ≠ s := by
        intro he; subst he
        have := (hi.beyond _ hs').2; rw [hp] at this; cases this
      show _ ∧ upd m.ptr s _ s' = none
      rw [upd_other _ _ _ _ hne]; exact hi.beyond s' hs'
    · intro s' n'' hp'
      have hp'' : upd m.ptr s (some n') s' = some n'' := hp'
      by_cases hss : s' = s
      · subst hss; rw [upd_self] at hp''; cases hp''; rw [hk]; exact Or.inl hm
      · rw [upd_other _ _ _ _ hss] at hp''
        exact hi.coh _ _ hp''
    · intro s' n'' he
      have he' : m.wr = Wr.ins s' n'' := he
      rw [hwr] at he'; cases he'
    · intro s' he
      have he' : m.wr = Wr.del s' := he
      rw [hwr] at he'; cases he'
    · intro s1 s2 n1 n2 h1 h2' hkk
      have h1' : upd m.ptr s (some n') s1 = some n1 := h1
      have h2'' : upd m.ptr s (some n') s2 = some n2 := h2'
      by_cases e1 : s1 = s
      · by_cases e2 : s2 = s
        · rw [e1, e2]
        · subst e1; rw [upd_self] at h1'; cases h1'
          rw [upd_other _ _ _ _ e2] at h2''
          exact hi.uniq _ _ _ _ hp h2'' (by rw [← hk]; exact hkk)
      · by_cases e2 : s2 = s
        · subst e2; rw [upd_self] at h2''; cases h2''
          rw [upd_other _ _ _ _ e1] at h1'
          exact hi.uniq _ _ _ _ h1' hp (by rw [← hk]; exact hkk)
        · rw [upd_other _ _ _ _ e1] at h1'; rw [upd_other _ _ _ _ e2] at h2''
          exact hi.uniq _ _ _ _ h1' h2'' hkk
  | append k n hl hwr hk ha =>
    have hb := hi.beyond (m.len * w) (Nat.le_refl _)
    have hnp := hi.no_ptr w h2 hwr ha
    refine ⟨Nat.le_succ_of_le hi.len1, ?_, ?_, ?_, ?_, ?_, fun _ => hwr⟩
    · intro s' hs'
      have hs'' : (m.len + 1) * w ≤ s' := hs'
      have hlt : m.len * w < s' := by rw [Nat.add_mul, Nat.one_mul] at hs''; omega
      have hne : s' ≠ m.len * w := by omega
      show upd m.mt _ _ s' = none ∧ upd m.ptr _ _ s' = none
      rw [upd_other _ _ _ _ hne, upd_other _ _ _ _ hne]; exact hi.beyond s' (by omega)
    · intro s' n' hp
      have hp' : upd m.ptr (m.len * w) (some n) s' = some n' := hp
      show upd m.mt (m.len * w) _ s' = _ ∨ _
      by_cases hss : s' = m.len * w
      · subst hss; rw [upd_self] at hp'; cases hp'; rw [upd_self, hk]; exact Or.inl rfl
      · rw [upd_other _ _ _ _ hss] at hp' ⊢
        exact hi.coh _ _ hp'
    · intro s' n' he
      have he' : m.wr = Wr.ins s' n' := he
      rw [hwr] at he'; cases he'
    · intro s' he
      have he' : m.wr = Wr.del s' := he
      rw [hwr] at he'; cases he'
    · intro s1 s2 n1 n2 h1 h2' hkk
      have h1' : upd m.ptr (m.len * w) (some n) s1 = some n1 := h1
      have h2'' : upd m.ptr (m.len * w) (some n) s2 = some n2 := h2'
      by_cases e1 : s1 = m.len * w
      · by_cases e2 : s2 = m.len * w
        · rw [e1, e2]
        · exfalso
          subst e1; rw [upd_self] at h1'; cases h1'
          rw [upd_other _ _ _ _ e2] at h2''
          exact hnp _ _ h2'' (by rw [← hkk]; exact hk)
      · by_cases e2 : s2 = m.len * w
        · exfalso
          subst e2; rw [upd_self] at h2''; cases h2''
          rw [upd_other _ _ _ _ e1] at h1'
          exact hnp _ _ h1' (by rw [hkk]; exact hk)
        · rw [upd_other _ _ _ _ e1] at h1'; rw [upd_other _ _ _ _ e2] at h2''
          exact hi.uniq _ _ _ _ h1' h2'' hkk
  | retire hwr => exact ⟨hi.len1, hi.beyond, hi.coh, hi.insI, hi.delI, hi.uniq, fun _ => hwr⟩

/-! ### The effect of one store on the abstraction -/

/-- a slot that maps k stays a slot that maps k (possibly to the replacing node), or k becomes absent altogether -/
theorem valid_step {m m' : Mem} (hi : MInv w h2 m) (h : WStep w h2 m m') {s k : Nat} {n : Node}
    (hv : Valid h2 m s k n) : (∃ n', Valid h2 m' s k n') ∨ Abs h2 m' k none := by
  obtain ⟨v1, v2, v3⟩ := hv
  cases h with
  | insBegin k0 s0 n0 hl hwr hk ha hs hm =>
    have hne : s ≠ s0 := by intro e; subst e; rw [hm] at v1; cases v1
    exact Or.inl ⟨n, by show upd m.mt s0 _ s = _; rw [upd_other _ _ _ _ hne]; exact v1, v2, v3⟩
  | insEnd s0 n0 hwr =>
    have hne : s ≠ s0 := by intro e; subst e; rw [(hi.insI _ _ hwr).2.1] at v2; cases v2
    exact Or.inl ⟨n, v1, by show upd m.ptr s0 _ s = _; rw [upd_other _ _ _ _ hne]; exact v2, v3⟩
  | delBegin s0 n0 hl hwr hp hm =>
    by_cases hss : s = s0
    · subst hss
      refine Or.inr ?_
      intro s' n' ⟨w1, w2, w3⟩
      have w1' : upd m.mt s none s' = some (h2 k) := w1
      have hne : s' ≠ s := by intro e; subst e; rw [upd_self] at w1'; cases w1'
      exact hne (hi.uniq _ _ _ _ w2 v2 (by rw [w3, v3]))
    · exact Or.inl ⟨n, by show upd m.mt s0 _ s = _; rw [upd_other _ _ _ _ hss]; exact v1, v2, v3⟩
  | delEnd s0 hwr =>
    have hne : s ≠ s0 := by intro e; subst e; rw [hi.delI _ hwr] at v1; cases v1
    exact Or.inl ⟨n, v1, by show upd m.ptr s0 _ s = _; rw [upd_other _ _ _ _ hne]; exact v2, v3⟩
  | update s0 n0 n' hl hwr hp hm hk =>
    by_cases hss : s = s0
    · subst hss
      rw [hp] at v2; cases v2
      exact Or.inl ⟨n', v1, by show upd m.ptr s _ s = _; rw [upd_self], by rw [hk]; exact v3⟩
    · exact Or.inl ⟨n, v1, by show upd m.ptr s0 _ s = _; rw [upd_other _ _ _ _ hss]; exact v2, v3⟩
  | append k0 n0 hl hwr hk ha =>
    have hne : s ≠ m.len * w := by
      intro e; subst e; rw [(hi.beyond _ (Nat.le_refl _)).1] at v1; cases v1
    exact Or.inl ⟨n, by show upd m.mt _ _ s = _; rw [upd_other _ _ _ _ hne]; exact v1,
      by show upd m.ptr _ _ s = _; rw [upd_other _ _ _ _ hne]; exact v2, v3⟩
  | retire hwr => exact Or.inl ⟨n, v1, v2, v3⟩

/-- a pointer found in a slot was there before the step, or the step made its key map to exactly it -/
theorem ptr_step {m m' : Mem} (hi : MInv w h2 m) (h : WStep w h2 m m') {s : Nat} {n : Node}
    (hp : m'.ptr s = some n) : m.ptr s = some n ∨ Abs h2 m' n.key (some n) := by
  cases h with
  | insBegin k0 s0 n0 hl hwr hk ha hs hm => exact Or.inl hp
  | insEnd s0 n0 hwr =>
    have hp' : upd m.ptr s0 (some n0) s = some n := hp
    by_cases hss : s = s0
    · subst hss; rw [upd_self] at hp'; cases hp'
      exact Or.inr ⟨s, (hi.insI _ _ hwr).1, by show upd m.ptr s _ s = _; rw [upd_self], rfl⟩
    · rw [upd_other _ _ _ _ hss] at hp'; exact Or.inl hp'
  | delBegin s0 n0 hl hwr hp0 hm => exact Or.inl hp
  | delEnd s0 hwr =>
    have hp' : upd m.ptr s0 none s = some n := hp
    by_cases hss : s = s0
    · subst hss; rw [upd_self] at hp'; cases hp'
    · rw [upd_other _ _ _ _ hss] at hp'; exact Or.inl hp'
  | update s0 n0 n' hl hwr hp0 hm hk =>
    have hp' : upd m.ptr s0 (some n') s = some n := hp
    by_cases hss : s = s0
    · subst hss; rw [upd_self] at hp'; cases hp'
      exact Or.inr ⟨s, by rw [hk]; exact hm, by show upd m.ptr s _ s = _; rw [upd_self], rfl⟩
    · rw [upd_other _ _ _ _ hss] at hp'; exact Or.inl hp'
  | append k0 n0 hl hwr hk ha =>
    have hp' : upd m.ptr (m.len * w) (some n0) s = some n := hp
    by_cases hss : s = m.len * w
    · subst hss; rw [upd_self] at hp'; cases hp'
      exact Or.inr ⟨m.len * w, by show upd m.mt _ _ _ = _; rw [upd_self, hk],
        by show upd m.ptr _ _ _ = _; rw [upd_self], rfl⟩
    · rw [upd_other _ _ _ _ hss] at hp'; exact Or.inl hp'
  | retire hwr => exact Or.inl hp

/-! ### Reader invariant -/

structure RInv (m : Mem) (seen : Nat → Option Node → Prop) : Prop where
  /-- a marked slot that (now) holds a node of the reader's key: that node has been the key's mapping since the start -/
  found : ∀ r k b M, m.rd r = .probing k b M → ∀ s, s ∈ M → ∀ n, m.ptr s = some n → n.key = k → seen r (some n)
  /-- the key has been absent at some instant since the start, or it is mapped by a slot the reader has still to visit -/
  absAt : ∀ r k b, m.rd r = .scan k b → seen r none ∨ ∃ s n, Valid h2 m s k n ∧ b * w ≤ s
  absPr : ∀ r k b M, m.rd r = .probing k b M → seen r none ∨ ∃ s n, Valid h2 m s k n ∧ ((b + 1) * w ≤ s ∨ s ∈ M)
  /-- the current mapping is recorded -/
  cur : ∀ r k v, (m.rd r).key = some k → Abs h2 m k v → seen r v
  /-- THE RESULT: what a reader returned was the key's mapping at some instant of its search -/
  res : ∀ r k v, m.rd r = .done k v → seen r v

theorem obs_mono (m : Mem) (seen : Nat → Option Node → Prop) {r : Nat} {v : Option Node} (h : seen r v) :
    obs h2 m seen r v := Or.inl h

theorem mem_marks {m : Mem} {k b s : Nat} (h1 : b * w ≤ s) (h2' : s < (b + 1) * w) (hm : m.mt s = some (h2 k)) :
    s ∈ marks w h2 m k b := by
  unfold marks
  rw [List.mem_map]
  refine ⟨s - b * w, ?_, by omega⟩
  rw [List.mem_filter, List.mem_range]
  rw [Nat.add_mul, Nat.one_mul] at h2'
  refine ⟨by omega, ?_⟩
  have : b * w + (s - b * w) = s := by omega
  rw [this]; exact decide_eq_true hm

theorem of_mem_marks {m : Mem} {k b s : Nat} (h : s ∈ marks w h2 m k b) : m.mt s = some (h2 k) := by
  unfold marks at h
  rw [List.mem_map] at h
  obtain ⟨i, hi, he⟩ := h
  rw [List.mem_filter] at hi
  rw [← he]; exact of_decide_eq_true hi.2

theorem wstep_rinv {m m' : Mem} {seen} (hi : MInv w h2 m) (hr : RInv w h2 m seen) (h : WStep w h2 m m')
    (hrd : m'.rd = m.rd) : RInv w h2 m' (obs h2 m' seen) := by
  refine ⟨?_, ?_, ?_, ?_, ?_⟩
  · intro r k b M hrr s hs n hp hk
    rw [hrd] at hrr
    rcases ptr_step w h2 hi h hp with h1 | h1
    · exact Or.inl (hr.found r k b M hrr s hs n h1 hk)
    · exact Or.inr ⟨k, by rw [hrd, hrr]; rfl, by rw [← hk]; exact h1⟩
  · intro r k b hrr
    rw [hrd] at hrr
    rcases hr.absAt r k b hrr with h1 | ⟨s, n, hv, hb⟩
    · exact Or.inl (Or.inl h1)
    · rcases valid_step w h2 hi h hv with ⟨n', hv'⟩ | ha
      · exact Or.inr ⟨s, n', hv', hb⟩
      · exact Or.inl (Or.inr ⟨k, by rw [hrd, hrr]; rfl, ha⟩)
  · intro r k b M hrr
    rw [hrd] at hrr
    rcases hr.absPr r k b M hrr with h1 | ⟨s, n, hv, hb⟩
    · exact Or.inl (Or.inl h1)
    · rcases valid_step w h2 hi h hv with ⟨n', hv'⟩ | ha
      · exact Or.inr ⟨s, n', hv', hb⟩
      · exact Or.inl (Or.inr ⟨k, by rw [hrd, hrr]; rfl, ha⟩)
  · intro r k v hk ha
    exact Or.inr ⟨k, hk, ha⟩
  · intro r k v hrr
    rw [hrd] at hrr
    exact Or.inl (hr.res r k v hrr)

theorem wstep_rd {m m' : Mem} (h : WStep w h2 m m') : m'.rd = m.rd := by
  cases h <;> rfl

theorem valid_lt {m : Mem} (hi : MInv w h2 m) {s k : Nat} {n : Node} (hv : Valid h2 m s k n) : s < m.len * w := by
  apply Nat.lt_of_not_le
  intro hle
  have := (hi.beyond s hle).1
  rw [hv.1] at this; cases this

theorem rstep_rinv {m : Mem} {seen} {r0 : Nat} {x : Rd} (hi : MInv w h2 m) (hr : RInv w h2 m seen)
    (h : RStep w h2 m r0 x) :
    RInv w h2 { m with rd := upd m.rd r0 x } (obs h2 { m with rd := upd m.rd r0 x } seen) := by
  -- readers other than r0 keep their record
  have other : ∀ r, r ≠ r0 → upd m.rd r0 x r = m.rd r := fun r hne => upd_other _ _ _ _ hne
  refine ⟨?_, ?_, ?_, ?_, ?_⟩
  · intro r k b M hrr s hs n hp hk
    have hrr' : upd m.rd r0 x r = .probing k b M := hrr
    by_cases hre : r = r0
    · subst hre
      rw [upd_self] at hrr'
      cases h with
      | snap k0 b0 h0 =>
        cases hrr'
        -- the slot was marked at this very instant: meta and pointer both valid, so the key maps to n now
        have hm := of_mem_marks w h2 hs
        exact Or.inl (hr.cur r k (some n) (by rw [h0]; rfl) ⟨s, hm, hp, hk⟩)
      | miss k0 b0 s0 M0 h0 hmiss =>
        cases hrr'
        exact Or.inl (hr.found r k b (s0 :: M) h0 s (List.mem_cons_of_mem _ hs) n hp hk)
      | hit k0 b0 s0 M0 n0 h0 hp0 hk0 => cases hrr'
      | next k0 b0 h0 hlt => cases hrr'
      | fin k0 b0 h0 hlt => cases hrr'
    · rw [other r hre] at hrr'
      exact Or.inl (hr.found r k b M hrr' s hs n hp hk)
  · intro r k b hrr
    have hrr' : upd m.rd r0 x r = .scan k b := hrr
    by_cases hre : r = r0
    · subst hre
      rw [upd_self] at hrr'
      cases h with
      | next k0 b0 h0 hlt =>
        cases hrr'
        rcases hr.absPr r k b0 [] h0 with h1 | ⟨s, n, hv, hb⟩
        · exact Or.inl (Or.inl h1)
        · rcases hb with hb | hb
          · exact Or.inr ⟨s, n, hv, hb⟩
          · cases hb
      | snap k0 b0 h0 => cases hrr'
      | miss k0 b0 s0 M0 h0 hmiss => cases hrr'
      | hit k0 b0 s0 M0 n0 h0 hp0 hk0 => cases hrr'
      | fin k0 b0 h0 hlt => cases hrr'
    · rw [other r hre] at hrr'
      rcases hr.absAt r k b hrr' with h1 | h1
      · exact Or.inl (Or.inl h1)
      · exact Or.inr h1
  · intro r k b M hrr
    have hrr' : upd m.rd r0 x r = .probing k b M := hrr
    by_cases hre : r = r0
    · subst hre
      rw [upd_self] at hrr'
      cases h with
      | snap k0 b0 h0 =>
        cases hrr'
        rcases hr.absAt r k b h0 with h1 | ⟨s, n, hv, hb⟩
        · exact Or.inl (Or.inl h1)
        · refine Or.inr ⟨s, n, hv, ?_⟩
          by_cases hlt : s < (b + 1) * w
          · exact Or.inr (mem_marks w h2 hb hlt hv.1)
          · exact Or.inl (Nat.le_of_not_lt hlt)
      | miss k0 b0 s0 M0 h0 hmiss =>
        cases hrr'
        rcases hr.absPr r k b (s0 :: M) h0 with h1 | ⟨s, n, hv, hb⟩
        · exact Or.inl (Or.inl h1)
        · refine Or.inr ⟨s, n, hv, ?_⟩
          rcases hb with hb | hb
          · exact Or.inl hb
          · rcases List.mem_cons.mp hb with e | e
            · exact absurd hv.2.2 (hmiss n (by rw [← e]; exact hv.2.1))
            · exact Or.inr e
      | hit k0 b0 s0 M0 n0 h0 hp0 hk0 => cases hrr'
      | next k0 b0 h0 hlt => cases hrr'
      | fin k0 b0 h0 hlt => cases hrr'
    · rw [other r hre] at hrr'
      rcases hr.absPr r k b M hrr' with h1 | h1
      · exact Or.inl (Or.inl h1)
      · exact Or.inr h1
  · intro r k v hk ha
    exact Or.inr ⟨k, hk, ha⟩
  · intro r k v hrr
    have hrr' : upd m.rd r0 x r = .done k v := hrr
    by_cases hre : r = r0
    · subst hre
      rw [upd_self] at hrr'
      cases h with
      | hit k0 b0 s0 M0 n0 h0 hp0 hk0 =>
        cases hrr'
        exact Or.inl (hr.found r k b0 (s0 :: M0) h0 s0 (List.mem_cons_self ..) n0 hp0 hk0)
      | fin k0 b0 h0 hlt =>
        cases hrr'
        rcases hr.absPr r k b0 [] h0 with h1 | ⟨s, n, hv, hb⟩
        · exact Or.inl h1
        · exfalso
          rcases hb with hb | hb
          · have := valid_lt w h2 hi hv
            exact hlt (Nat.lt_of_mul_lt_mul_right (a := w) (Nat.lt_of_le_of_lt hb this))
          · cases hb
      | snap k0 b0 h0 => cases hrr'
      | miss k0 b0 s0 M0 h0 hmiss => cases hrr'
      | next k0 b0 h0 hlt => cases hrr'
    · rw [other r hre] at hrr'
      exact Or.inl (hr.res r k v hrr')

theorem start_rinv {m : Mem} {seen} {r0 k0 : Nat} (hr : RInv w h2 m seen) (h0 : m.rd r0 = .off) :
    RInv w h2 { m with rd := upd m.rd r0 (.scan k0 0) }
      (obs h2 { m with rd := upd m.rd r0 (.scan k0 0) } (upd seen r0 (fun _ => False))) := by
  have other : ∀ r, r ≠ r0 → upd m.rd r0 (Rd.scan k0 0) r = m.rd r := fun r hne => upd_other _ _ _ _ hne
  have seenO : ∀ r v, r ≠ r0 → seen r v → upd seen r0 (fun _ => False) r v := by
    intro r v hne hs; rw [upd_other _ _ _ _ hne]; exact hs
  refine ⟨?_, ?_, ?_, ?_, ?_⟩
  · intro r k b M hrr s hs n hp hk
    have hrr' : upd m.rd r0 (Rd.scan k0 0) r = .probing k b M := hrr
    by_cases hre : r = r0
    · subst hre; rw [upd_self] at hrr'; cases hrr'
    · rw [other r hre] at hrr'
      exact Or.inl (seenO r _ hre (hr.found r k b M hrr' s hs n hp hk))
  · intro r k b hrr
    have hrr' : upd m.rd r0 (Rd.scan k0 0) r = .scan k b := hrr
    by_cases hre : r = r0
    · subst hre; rw [upd_self] at hrr'; cases hrr'
      -- the key is absent right now, or some slot maps it (and every slot is still ahead)
      by_cases ha : ∃ s n, Valid h2 m s k0 n
      · obtain ⟨s, n, hv⟩ := ha
        exact Or.inr ⟨s, n, hv, by omega⟩
      · refine Or.inl (Or.inr ⟨k0, by show (upd m.rd r _ r).key = _; rw [upd_self]; rfl, ?_⟩)
        intro s n hv; exact ha ⟨s, n, hv⟩
    · rw [other r hre] at hrr'
      rcases hr.absAt r k b hrr' with h1 | h1
      · exact Or.inl (Or.inl (seenO r _ hre h1))
      · exact Or.inr h1
  · intro r k b M hrr
    have hrr' : upd m.rd r0 (Rd.scan k0 0) r = .probing k b M := hrr
    by_cases hre : r = r0
    · subst hre; rw [upd_self] at hrr'; cases hrr'
    · rw [other r hre] at hrr'
      rcases hr.absPr r k b M hrr' with h1 | h1
      · exact Or.inl (Or.inl (seenO r _ hre h1))
      · exact Or.inr h1
  · intro r k v hk ha
    exact Or.inr ⟨k, hk, ha⟩
  · intro r k v hrr
    have hrr' : upd m.rd r0 (Rd.scan k0 0) r = .done k v := hrr
    by_cases hre : r = r0
    · subst hre; rw [upd_self] at hrr'; cases hrr'
    · rw [other r hre] at hrr'
      exact Or.inl (seenO r _ hre (hr.res r k v hrr'))

theorem minv_rd {m : Mem} (hi : MInv w h2 m) (rd' : Nat → Rd) : MInv w h2 { m with rd := rd' } :=
  ⟨hi.len1, hi.beyond, hi.coh, hi.insI, hi.delI, hi.uniq, hi.frz⟩

theorem reach_inv (hw : 0 < w) {s : St} (h : Reach w h2 s) : MInv w h2 s.m ∧ RInv w h2 s.m s.seen := by
  induction h with
  | init =>
    refine ⟨⟨Nat.le_refl _, fun _ _ => ⟨rfl, rfl⟩, ?_, ?_, ?_, ?_, fun _ => rfl⟩, ⟨?_, ?_, ?_, ?_, ?_⟩⟩
    · intro s n hp; cases hp
    · intro s n he; cases he
    · intro s he; cases he
    · intro s s' n n' hp; cases hp
    · intro r k b M hrr; cases hrr
    · intro r k b hrr; cases hrr
    · intro r k b M hrr; cases hrr
    · intro r k v hk; cases hk
    · intro r k v hrr; cases hrr
  | step _ hst ih =>
    obtain ⟨hi, hr⟩ := ih
    cases hst with
    | wr hws => exact ⟨wstep_minv w h2 hw hi hws, wstep_rinv w h2 hi hr hws (wstep_rd w h2 hws)⟩
    | rd hrs => exact ⟨minv_rd w h2 hi _, rstep_rinv w h2 hi hr hrs⟩
    | start r k h0 hl => exact ⟨minv_rd w h2 hi _, start_rinv w h2 hr h0⟩


/-! ### The ghost is what it says: every recorded value was the mapping in a state of the reader's own search -/

inductive Run : St → St → Prop
  | refl (s : St) : Run s s
  | step {s s' s'' : St} : Run s s' → Step w h2 s' s'' → Run s s''

theorem seen_sound {s : St} (h : Reach w h2 s) {r : Nat} {v : Option Node} (hs : s.seen r v) :
    ∃ s0 k, Reach w h2 s0 ∧ Run w h2 s0 s ∧ (s0.m.rd r).key = some k ∧ Abs h2 s0.m k v := by
  induction h with
  | init => cases hs
  | @step s1 s2 hr hst ih =>
    have ext : ∀ {s0 : St}, Run w h2 s0 s1 → Run w h2 s0 s2 := fun hrun => Run.step hrun hst
    have now : ∀ k, (s2.m.rd r).key = some k → Abs h2 s2.m k v →
        ∃ s0 k, Reach w h2 s0 ∧ Run w h2 s0 s2 ∧ (s0.m.rd r).key = some k ∧ Abs h2 s0.m k v :=
      fun k hk ha => ⟨s2, k, Reach.step hr hst, Run.refl _, hk, ha⟩
    cases hst with
    | wr hws =>
      rcases hs with h1 | ⟨k, hk, ha⟩
      · obtain ⟨s0, k, a, b, c, d⟩ := ih h1
        exact ⟨s0, k, a, ext b, c, d⟩
      · exact now k hk ha
    | rd hrs =>
      rcases hs with h1 | ⟨k, hk, ha⟩
      · obtain ⟨s0, k, a, b, c, d⟩ := ih h1
        exact ⟨s0, k, a, ext b, c, d⟩
      · exact now k hk ha
    | start r0 k0 h0 hl =>
      rcases hs with h1 | ⟨k, hk, ha⟩
      · by_cases hre : r = r0
        · subst hre; rw [upd_self] at h1; cases h1
        · rw [upd_other _ _ _ _ hre] at h1
          obtain ⟨s0, k, a, b, c, d⟩ := ih h1
          exact ⟨s0, k, a, ext b, c, d⟩
      · exact now k hk ha

/-- a reader's record is `off` until its start and never `off` again: one search per reader name -/
theorem searching_of_key {m : Mem} {r k : Nat} (h : (m.rd r).key = some k) :
    (∃ b, m.rd r = .scan k b) ∨ (∃ b M, m.rd r = .probing k b M) := by
  cases hr : m.rd r with
  | off => rw [hr] at h; cases h
  | scan k' b => rw [hr] at h; cases h; exact Or.inl ⟨b, rfl⟩
  | probing k' b M => rw [hr] at h; cases h; exact Or.inr ⟨b, M, rfl⟩
  | done k' v => rw [hr] at h; cases h

/-! ### Every write takes effect at ONE store, on ONE key -/

theorem abs_congr {m m' : Mem} {k : Nat} (h : ∀ s n, Valid h2 m' s k n ↔ Valid h2 m s k n) (v : Option Node) :
    Abs h2 m' k v ↔ Abs h2 m k v := by
  cases v with
  | none => exact ⟨fun ha s n hv => ha s n ((h s n).mpr hv), fun ha s n hv => ha s n ((h s n).mp hv)⟩
  | some n => exact ⟨fun ⟨s, hv⟩ => ⟨s, (h s n).mp hv⟩, fun ⟨s, hv⟩ => ⟨s, (h s n).mpr hv⟩⟩

/-- each store leaves the mapping of every key but one untouched -/
theorem wstep_frame {m m' : Mem} (hi : MInv w h2 m) (h : WStep w h2 m m') :
    ∃ k0, ∀ k, k ≠ k0 → ∀ v, Abs h2 m' k v ↔ Abs h2 m k v := by
  cases h with
  | insBegin k0 s0 n0 hl hwr hk ha hs hm =>
    refine ⟨k0, fun k _ v => abs_congr h2 (fun s n => ?_) v⟩
    by_cases hss : s = s0
    · subst hss
      constructor
      · intro ⟨_, v2, _⟩
        rcases hi.coh _ _ v2 with h1 | h1
        · rw [hm] at h1; cases h1
        · rw [hwr] at h1; cases h1
      · intro ⟨v1, _, _⟩; rw [hm] at v1; cases v1
    · show (upd m.mt s0 _ s = _ ∧ _) ↔ _
      rw [upd_other _ _ _ _ hss]; exact Iff.rfl
  | insEnd s0 n0 hwr =>
    refine ⟨n0.key, fun k hk v => abs_congr h2 (fun s n => ?_) v⟩
    by_cases hss : s = s0
    · subst hss
      constructor
      · intro ⟨_, v2, v3⟩
        have v2' : upd m.ptr s (some n0) s = some n := v2
        rw [upd_self] at v2'; cases v2'; exact absurd v3.symm hk
      · intro ⟨_, v2, _⟩; rw [(hi.insI _ _ hwr).2.1] at v2; cases v2
    · show (_ ∧ upd m.ptr s0 _ s = _ ∧ _) ↔ _
      rw [upd_other _ _ _ _ hss]; exact Iff.rfl
  | delBegin s0 n0 hl hwr hp hm =>
    refine ⟨n0.key, fun k hk v => abs_congr h2 (fun s n => ?_) v⟩
    by_cases hss : s = s0
    · subst hss
      constructor
      · intro ⟨v1, _, _⟩
        have v1' : upd m.mt s none s = some (h2 k) := v1
        rw [upd_self] at v1'; cases v1'
      · intro ⟨_, v2, v3⟩; rw [hp] at v2; cases v2; exact absurd v3.symm hk
    · show (upd m.mt s0 _ s = _ ∧ _) ↔ _
      rw [upd_other _ _ _ _ hss]; exact Iff.rfl
  | delEnd s0 hwr =>
    refine ⟨0, fun k _ v => abs_congr h2 (fun s n => ?_) v⟩
    by_cases hss : s = s0
    · subst hss
      constructor
      · intro ⟨_, v2, _⟩
        have v2' : upd m.ptr s none s = some n := v2
        rw [upd_self] at v2'; cases v2'
      · intro ⟨v1, _, _⟩; rw [hi.delI _ hwr] at v1; cases v1
    · show (_ ∧ upd m.ptr s0 _ s = _ ∧ _) ↔ _
      rw [upd_other _ _ _ _ hss]; exact Iff.rfl
  | update s0 n0 n' hl hwr hp hm hk0 =>
    refine ⟨n0.key, fun k hk v => abs_congr h2 (fun s n => ?_) v⟩
    by_cases hss : s = s0
    · subst hss
      constructor
      · intro ⟨_, v2, v3⟩
        have v2' : upd m.ptr s (some n') s = some n := v2
        rw [upd_self] at v2'; cases v2'; exact absurd (v3.symm.trans hk0) hk
      · intro ⟨_, v2, v3⟩; rw [hp] at v2; cases v2; exact absurd v3.symm hk
    · show (_ ∧ upd m.ptr s0 _ s = _ ∧ _) ↔ _
      rw [upd_other _ _ _ _ hss]; exact Iff.rfl
  | append k0 n0 hl hwr hk0 ha =>
    refine ⟨k0, fun k hk v => abs_congr h2 (fun s n => ?_) v⟩
    by_cases hss : s = m.len * w
    · subst hss
      constructor
      · intro ⟨_, v2, v3⟩
        have v2' : upd m.ptr (m.len * w) (some n0) (m.len * w) = some n := v2
        rw [upd_self] at v2'; cases v2'; exact absurd (v3.symm.trans hk0) hk
      · intro ⟨v1, _, _⟩; rw [(hi.beyond _ (Nat.le_refl _)).1] at v1; cases v1
    · show (upd m.mt _ _ s = _ ∧ upd m.ptr _ _ s = _ ∧ _) ↔ _
      rw [upd_other _ _ _ _ hss, upd_other _ _ _ _ hss]; exact Iff.rfl
  | retire hwr => exact ⟨0, fun k _ v => abs_congr h2 (fun s n => Iff.rfl) v⟩

/-- the first store of an insertion (the meta byte) changes no key's mapping: readers that see the byte find a nil pointer -/
theorem insBegin_silent {m : Mem} (hi : MInv w h2 m) {k s : Nat} {n : Node} (hwr : m.wr = .idle) (hm : m.mt s = none)
    (k' : Nat) (v : Option Node) :
    Abs h2 { m with mt := upd m.mt s (some (h2 k)), wr := .ins s n } k' v ↔ Abs h2 m k' v := by
  refine abs_congr h2 (fun s' n' => ?_) v
  by_cases hss : s' = s
  · subst hss
    constructor
    · intro ⟨_, v2, _⟩
      rcases hi.coh _ _ v2 with h1 | h1
      · rw [hm] at h1; cases h1
      · rw [hwr] at h1; cases h1
    · intro ⟨v1, _, _⟩; rw [hm] at v1; cases v1
  · show (upd m.mt s _ s' = _ ∧ _) ↔ _
    rw [upd_other _ _ _ _ hss]; exact Iff.rfl

/-- the second store of an insertion is its atomic point: the key goes from absent to the new node -/
theorem insEnd_effect {m : Mem} (hi : MInv w h2 m) {s : Nat} {n : Node} (hwr : m.wr = .ins s n) :
    Abs h2 m n.key none ∧ Abs h2 { m with ptr := upd m.ptr s (some n), wr := .idle } n.key (some n) := by
  obtain ⟨i1, i2, i3⟩ := hi.insI s n hwr
  refine ⟨fun s' n' hv => i3 s' n' hv.2.1 hv.2.2, ⟨s, i1, ?_, rfl⟩⟩
  show upd m.ptr s _ s = _; rw [upd_self]

/-- the first store of a deletion (the meta byte) is its atomic point: the key goes from the node to absent -/
theorem delBegin_effect {m : Mem} (hi : MInv w h2 m) {s : Nat} {n : Node} (hp : m.ptr s = some n)
    (hm : m.mt s = some (h2 n.key)) :
    Abs h2 m n.key (some n) ∧ Abs h2 { m with mt := upd m.mt s none, wr := .del s } n.key none := by
  refine ⟨⟨s, hm, hp, rfl⟩, ?_⟩
  intro s' n' ⟨w1, w2, w3⟩
  have w1' : upd m.mt s none s' = some (h2 n.key) := w1
  have hne : s' ≠ s := by intro e; subst e; rw [upd_self] at w1'; cases w1'
  exact hne (hi.uniq _ _ _ _ w2 hp w3)

/-- the second store of a deletion changes no key's mapping -/
theorem delEnd_silent {m : Mem} (hi : MInv w h2 m) {s : Nat} (hwr : m.wr = .del s) (k' : Nat) (v : Option Node) :
    Abs h2 { m with ptr := upd m.ptr s none, wr := .idle } k' v ↔ Abs h2 m k' v := by
  refine abs_congr h2 (fun s' n' => ?_) v
  by_cases hss : s' = s
  · subst hss
    constructor
    · intro ⟨_, v2, _⟩
      have v2' : upd m.ptr s' none s' = some n' := v2
      rw [upd_self] at v2'; cases v2'
    · intro ⟨v1, _, _⟩; rw [hi.delI _ hwr] at v1; cases v1
  · show (_ ∧ upd m.ptr s _ s' = _ ∧ _) ↔ _
    rw [upd_other _ _ _ _ hss]; exact Iff.rfl

/-- an in-place replacement is one store: the key goes from the old node to the new one -/
theorem update_effect {m : Mem} {s : Nat} {n n' : Node} (hp : m.ptr s = some n) (hm : m.mt s = some (h2 n.key))
    (hk : n'.key = n.key) :
    Abs h2 m n.key (some n) ∧ Abs h2 { m with ptr := upd m.ptr s (some n') } n.key (some n') := by
  refine ⟨⟨s, hm, hp, rfl⟩, ⟨s, hm, ?_, hk⟩⟩
  show upd m.ptr s _ s = _; rw [upd_self]

/-- publishing a new bucket is one store: the key goes from absent to the node it carries -/
theorem append_effect {m : Mem} {k : Nat} {n : Node} (hk : n.key = k) :
    Abs h2 { m with mt := upd m.mt (m.len * w) (some (h2 k)), ptr := upd m.ptr (m.len * w) (some n),
                    len := m.len + 1 } k (some n) := by
  refine ⟨m.len * w, ?_, ?_, hk⟩
  · show upd m.mt _ _ _ = _; rw [upd_self]
  · show upd m.ptr _ _ _ = _; rw [upd_self]

/-- a frozen chain never changes again: what a late reader finds there is what the table held when it was replaced -/
theorem frozen {m m' : Mem} (hi : MInv w h2 m) (hl : m.live = false) (h : WStep w h2 m m') :
    m'.mt = m.mt ∧ m'.ptr = m.ptr ∧ m'.len = m.len := by
  have hidle := hi.frz hl
  cases h with
  | insBegin k s n hl' => rw [hl] at hl'; cases hl'
  | insEnd s n hwr => rw [hidle] at hwr; cases hwr
  | delBegin s n hl' => rw [hl] at hl'; cases hl'
  | delEnd s hwr => rw [hidle] at hwr; cases hwr
  | update s n n' hl' => rw [hl] at hl'; cases hl'
  | append k n hl' => rw [hl] at hl'; cases hl'
  | retire hwr => exact ⟨rfl, rfl, rfl⟩

/-- **Lock-free reads are linearizable.**  In every reachable state, under every interleaving of any number of readers with
    the writer's individual stores: what a finished reader returned (a node, or "absent") is what its key was mapped to at
    some instant between the reader's first and last step. -/
theorem read_linearizable (hw : 0 < w) {s : St} (h : Reach w h2 s) {r k : Nat} {v : Option Node}
    (hd : s.m.rd r = .done k v) : s.seen r v :=
  (reach_inv w h2 hw h).2.res r k v hd

/-! ### A reader keeps its key -/

def Rd.keyAll : Rd → Option Nat
  | .scan k _ => some k
  | .probing k _ _ => some k
  | .done k _ => some k
  | .off => none

theorem key_keyAll {x : Rd} {k : Nat} (h : x.key = some k) : x.keyAll = some k := by
  cases x <;> first | exact h | cases h

theorem step_keyAll {s s' : St} (h : Step w h2 s s') {r k : Nat} (hk : (s.m.rd r).keyAll = some k) :
    (s'.m.rd r).keyAll = some k := by
  cases h with
  | wr hws => rw [wstep_rd w h2 hws]; exact hk
  | @rd m seen r0 x hrs =>
    show (upd m.rd r0 x r).keyAll = some k
    by_cases hre : r = r0
    · subst hre
      rw [upd_self]
      have hk' : (m.rd r).keyAll = some k := hk
      cases hrs with
      | snap k0 b0 h0 => rw [h0] at hk'; exact hk'
      | hit k0 b0 s0 M0 n0 h0 => rw [h0] at hk'; exact hk'
      | miss k0 b0 s0 M0 h0 => rw [h0] at hk'; exact hk'
      | next k0 b0 h0 => rw [h0] at hk'; exact hk'
      | fin k0 b0 h0 => rw [h0] at hk'; exact hk'
    · rw [upd_other _ _ _ _ hre]; exact hk
  | @start m seen r0 k0 h0 hl =>
    show (upd m.rd r0 (Rd.scan k0 0) r).keyAll = some k
    by_cases hre : r = r0
    · subst hre
      have hk' : (m.rd r).keyAll = some k := hk
      rw [h0] at hk'; cases hk'
    · rw [upd_other _ _ _ _ hre]; exact hk

theorem run_keyAll {s s' : St} (h : Run w h2 s s') {r k : Nat} (hk : (s.m.rd r).keyAll = some k) :
    (s'.m.rd r).keyAll = some k := by
  induction h with
  | refl => exact hk
  | step _ hst ih => exact step_keyAll w h2 hst ih

/-- **Lock-free reads are linearizable, stated over runs.**  If reader r has returned v for key k in a reachable state s, then
    there is a reachable state s0 on the way to s in which r was searching for k and the chain mapped k to exactly v. -/
theorem read_linearizable_run (hw : 0 < w) {s : St} (h : Reach w h2 s) {r k : Nat} {v : Option Node}
    (hd : s.m.rd r = .done k v) :
    ∃ s0, Reach w h2 s0 ∧ Run w h2 s0 s ∧ (s0.m.rd r).key = some k ∧ Abs h2 s0.m k v := by
  obtain ⟨s0, k', a, b, c, d⟩ := seen_sound w h2 h ((reach_inv w h2 hw h).2.res r k v hd)
  have := run_keyAll w h2 b (key_keyAll c)
  rw [hd] at this
  cases this
  exact ⟨s0, a, b, c, d⟩

/-- **What Range copies under the bucket lock is exactly the chain's mapping.**  Range locks the root bucket (so the writer is
    idle) and copies every non-nil pointer: each of them is a complete mapping of its key (no half-done insertion or
    deletion is visible), and no key occurs in two slots — every key of the chain is yielded exactly once. -/
theorem locked_scan_exact (hw : 0 < w) {s : St} (h : Reach w h2 s) (hidle : s.m.wr = .idle) :
    (∀ sl n, s.m.ptr sl = some n → Valid h2 s.m sl n.key n) ∧
    (∀ sl sl' n n', s.m.ptr sl = some n → s.m.ptr sl' = some n' → n.key = n'.key → sl = sl') ∧
    (∀ k n, Abs h2 s.m k (some n) → ∃ sl, s.m.ptr sl = some n ∧ sl < s.m.len * w) := by
  have hi := (reach_inv w h2 hw h).1
  refine ⟨?_, hi.uniq, ?_⟩
  · intro sl n hp
    rcases hi.coh sl n hp with hm | hd
    · exact ⟨hm, hp, rfl⟩
    · rw [hidle] at hd; cases hd
  · intro k n ⟨sl, hv⟩
    exact ⟨sl, hv.2.1, valid_lt w h2 hi hv⟩

/-- a key is mapped by at most one slot, to one node -/
theorem abs_unique (hw : 0 < w) {s : St} (h : Reach w h2 s) {k s1 s2 : Nat} {n1 n2 : Node}
    (h1 : Valid h2 s.m s1 k n1) (h2' : Valid h2 s.m s2 k n2) : s1 = s2 ∧ n1 = n2 := by
  have hi := (reach_inv w h2 hw h).1
  have e := hi.uniq _ _ _ _ h1.2.1 h2'.2.1 (by rw [h1.2.2, h2'.2.2])
  subst e
  have := h1.2.1.symm.trans h2'.2.1
  cases this
  exact ⟨rfl, rfl⟩

end

end OtterVerif.Conc.Bucket
