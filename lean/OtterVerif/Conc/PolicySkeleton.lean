/-
  Conc.PolicySkeleton — snapshot of the skeletons of the eviction decision in policy.go (sequential code under the eviction
  lock: the skeleton fixes the order of the checks and where the sketch is consulted).  The executable model `Impl.Policy`
  (evictFromMainX, evictFromWindow, evictNodes, admit) follows these shapes; UNIT-policy compares its state with the real
  policy after every call.
    evictFromMain   per iteration: refill the candidate from the window, stop / switch queue when both cursors are exhausted,
                    skip zero weights, evict the one that is present, the common node, a dead node, an oversized candidate,
                    and otherwise ask `admit(candidate, victim)` — the victim's estimate is read THERE, for THAT victim
    admit           strictly greater estimate wins; a candidate with an estimate of at least 6 wins one draw in 128
-/
namespace OtterVerif.Conc.PolicySkeleton

def policy_evictFromMain : List (Nat × String) :=
  [(0, "for p.weightedSize>p.maximum"),
   (1, "if node.Equals(candidate,nil)&&candidateQueue==node.InMainProbationQueue"),
   (1, "then"),
   (1, "fi"),
   (1, "if node.Equals(candidate,nil)&&node.Equals(victim,nil)"),
   (1, "then"),
   (2, "if victimQueue==node.InMainProbationQueue"),
   (2, "then"),
   (3, "continue"),
   (2, "else"),
   (3, "if victimQueue==node.InMainProtectedQueue"),
   (3, "then"),
   (4, "continue"),
   (3, "fi"),
   (2, "fi"),
   (2, "break"),
   (1, "fi"),
   (1, "if !node.Equals(victim,nil)&&victim.Weight()==0"),
   (1, "then"),
   (2, "continue"),
   (1, "else"),
   (2, "if !node.Equals(candidate,nil)&&candidate.Weight()==0"),
   (2, "then"),
   (3, "continue"),
   (2, "fi"),
   (1, "fi"),
   (1, "if node.Equals(victim,nil)"),
   (1, "then"),
   (2, "call evictNode"),
   (2, "continue"),
   (1, "else"),
   (2, "if node.Equals(candidate,nil)"),
   (2, "then"),
   (3, "call evictNode"),
   (3, "continue"),
   (2, "fi"),
   (1, "fi"),
   (1, "if node.Equals(candidate,victim)"),
   (1, "then"),
   (2, "call evictNode"),
   (2, "continue"),
   (1, "fi"),
   (1, "if !victim.IsAlive()"),
   (2, "call IsAlive"),
   (1, "then"),
   (2, "call evictNode"),
   (2, "continue"),
   (1, "else"),
   (2, "if !candidate.IsAlive()"),
   (3, "call IsAlive"),
   (2, "then"),
   (3, "call evictNode"),
   (3, "continue"),
   (2, "fi"),
   (1, "fi"),
   (1, "if uint64(candidate.Weight())>p.maximum"),
   (1, "then"),
   (2, "call evictNode"),
   (2, "continue"),
   (1, "fi"),
   (1, "if p.admit(candidate.Key(),victim.Key())"),
   (2, "call admit"),
   (1, "then"),
   (2, "call evictNode"),
   (1, "else"),
   (2, "call evictNode"),
   (1, "fi"),
   (0, "rof")]

def policy_evictFromWindow : List (Nat × String) :=
  [(0, "for p.windowWeightedSize>p.windowMaximum"),
   (1, "if node.Equals(n,nil)"),
   (1, "then"),
   (2, "break"),
   (1, "fi"),
   (1, "if nodeWeight!=0"),
   (1, "then"),
   (2, "if first==nil"),
   (2, "then"),
   (2, "fi"),
   (1, "fi"),
   (0, "rof"),
   (0, "return")]

def policy_evictNodes : List (Nat × String) :=
  [(0, "call evictFromWindow"),
   (0, "call evictFromMain")]

def policy_admit : List (Nat × String) :=
  [(0, "call frequency"),
   (0, "call frequency"),
   (0, "if candidateFreq>victimFreq"),
   (0, "then"),
   (1, "return"),
   (0, "fi"),
   (0, "if candidateFreq>=admitHashdosThreshold"),
   (0, "then"),
   (1, "call rand"),
   (1, "return"),
   (0, "fi"),
   (0, "return")]

end OtterVerif.Conc.PolicySkeleton
