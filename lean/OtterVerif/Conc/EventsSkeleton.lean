/-
  Conc.EventsSkeleton — snapshot of the skeletons of the functions through which an entry leaves the cache and is reported
  (cache_impl.go).  Reading guide for Conc.Events:
    setNew/setOld   = atomicSet inside the table's Compute (makeRetired(old); notifyAtomicDeletion(old) iff old != nil), then
                      afterWrite: getTask(n, nil, addReason) or getTask(n, old, updateReason), afterWriteTask
    invalidate      = atomicDelete inside Compute (makeRetired; notifyAtomicDeletion iff old != nil), afterDelete:
                      getTask(deleted, nil, deleteReason), afterWriteTask (or runTask when the eviction lock is already held)
    evict           = evictNode: deleteNodeFromMap (Compute: removed and reported atomically ONLY IF the installed node is
                      this very node), then notifyDeletion ONLY IF it was removed
    run             = runTask: updateReason reports old, deleteReason reports n, addReason reports nothing
-/
namespace OtterVerif.Conc.EventsSkeleton

def cache_atomicSet : List (Nat × String) :=
  [(0, "if cl==nil"),
   (0, "then"),
   (1, "call delete"),
   (0, "fi"),
   (0, "if prev!=nil&&prev.HasExpired(nowNano)"),
   (0, "then"),
   (0, "fi"),
   (0, "call makeRetired"),
   (0, "if old!=nil"),
   (0, "then"),
   (1, "call notifyAtomicDeletion"),
   (0, "fi"),
   (0, "return")]

def cache_atomicDelete : List (Nat × String) :=
  [(0, "if cl==nil"),
   (0, "then"),
   (1, "call delete"),
   (0, "fi"),
   (0, "if old!=nil"),
   (0, "then"),
   (1, "call makeRetired"),
   (1, "call notifyAtomicDeletion"),
   (0, "fi"),
   (0, "return")]

def cache_deleteNodeFromMap : List (Nat × String) :=
  [(0, "func{"),
   (1, "call delete"),
   (1, "if current==nil"),
   (1, "then"),
   (2, "return"),
   (1, "fi"),
   (1, "if n.AsPointer()==current.AsPointer()"),
   (1, "then"),
   (2, "call makeRetired"),
   (2, "call notifyAtomicDeletion"),
   (2, "return"),
   (1, "fi"),
   (1, "return"),
   (0, "}"),
   (0, "call Compute"),
   (0, "return")]

def cache_afterWrite : List (Nat × String) :=
  [(0, "if !c.withMaintenance"),
   (0, "then"),
   (1, "if old!=nil"),
   (1, "then"),
   (2, "call notifyDeletion old.Key() old.Value() CauseReplacement"),
   (1, "fi"),
   (1, "return"),
   (0, "fi"),
   (0, "if old==nil"),
   (0, "then"),
   (1, "call getTask n nil addReason causeUnknown"),
   (1, "call afterWriteTask"),
   (1, "return"),
   (0, "fi"),
   (0, "call getTask n old updateReason cause"),
   (0, "call afterWriteTask")]

def cache_afterDelete : List (Nat × String) :=
  [(0, "if deleted==nil"),
   (0, "then"),
   (1, "return"),
   (0, "fi"),
   (0, "if !c.withMaintenance"),
   (0, "then"),
   (1, "call notifyDeletion deleted.Key() deleted.Value() CauseInvalidation"),
   (1, "return"),
   (0, "fi"),
   (0, "call getTask deleted nil deleteReason cause"),
   (0, "if alreadyLocked"),
   (0, "then"),
   (1, "call runTask"),
   (0, "else"),
   (1, "call afterWriteTask"),
   (0, "fi")]

def cache_deleteNode : List (Nat × String) :=
  [(0, "call deleteNodeFromMap"),
   (0, "call afterDelete")]

def cache_evictNode : List (Nat × String) :=
  [(0, "if n.HasExpired(nowNanos)"),
   (0, "then"),
   (0, "fi"),
   (0, "call deleteNodeFromMap"),
   (0, "if c.withEviction"),
   (0, "then"),
   (1, "call delete"),
   (0, "fi"),
   (0, "if c.withExpiration"),
   (0, "then"),
   (1, "call Delete"),
   (0, "fi"),
   (0, "call makeDead"),
   (0, "if deleted"),
   (0, "then"),
   (1, "call notifyDeletion n.Key() n.Value() cause"),
   (1, "call RecordEviction"),
   (0, "fi")]

def cache_runTask : List (Nat × String) :=
  [(0, "if t==nil"),
   (0, "then"),
   (1, "return"),
   (0, "fi"),
   (0, "switch t.writeReason"),
   (1, "case addReason"),
   (2, "if c.withExpiration&&n.IsAlive()"),
   (2, "then"),
   (3, "call Add"),
   (2, "fi"),
   (2, "if c.withEviction"),
   (2, "then"),
   (3, "call add"),
   (2, "fi"),
   (1, "case updateReason"),
   (2, "if c.withExpiration"),
   (2, "then"),
   (3, "call Delete"),
   (3, "if n.IsAlive()"),
   (3, "then"),
   (4, "call Add"),
   (3, "fi"),
   (2, "fi"),
   (2, "if c.withEviction"),
   (2, "then"),
   (3, "call update"),
   (2, "fi"),
   (2, "call notifyDeletion old.Key() old.Value() t.deletionCause"),
   (1, "case deleteReason"),
   (2, "if c.withExpiration"),
   (2, "then"),
   (3, "call Delete"),
   (2, "fi"),
   (2, "if c.withEviction"),
   (2, "then"),
   (3, "call delete"),
   (2, "fi"),
   (2, "call notifyDeletion n.Key() n.Value() t.deletionCause"),
   (1, "default"),
   (0, "hctiws"),
   (0, "call putTask")]

def cache_notifyDeletion : List (Nat × String) :=
  [(0, "if c.onDeletion==nil"),
   (0, "then"),
   (1, "return"),
   (0, "fi"),
   (0, "func{"),
   (1, "call onDeletion"),
   (0, "}"),
   (0, "executor")]

def cache_notifyAtomicDeletion : List (Nat × String) :=
  [(0, "if c.onAtomicDeletion==nil"),
   (0, "then"),
   (1, "return"),
   (0, "fi"),
   (0, "call onAtomicDeletion")]

def cache_makeRetired : List (Nat × String) :=
  [(0, "if n!=nil&&c.withMaintenance&&n.IsAlive()"),
   (0, "then"),
   (1, "call Retire"),
   (0, "fi")]

def cache_makeDead : List (Nat × String) :=
  [(0, "if !c.withMaintenance"),
   (0, "then"),
   (1, "return"),
   (0, "fi"),
   (0, "if c.withEviction"),
   (0, "then"),
   (1, "call makeDead"),
   (0, "else"),
   (1, "if !n.IsDead()"),
   (1, "then"),
   (2, "call Die"),
   (1, "fi"),
   (0, "fi")]

end OtterVerif.Conc.EventsSkeleton
