/-
  Conc.Flight — interleaving model of the single-flight protocol for ONE key with an unbounded number of callers, writers
  and call objects (singleflight.go startCall / deleteCall / delete, cache.afterDeleteCall, call.wait / cancel).

  Atomic steps (the call table's bucket lock makes each `calls.Compute` one step; the fast-path `getCall` is one atomic load;
  the WaitGroup of a call object is released by `cancel`, which afterDeleteCall executes AFTER the hashmap critical section in
  which deleteCall ran):
    join        a caller finds call object i registered (fast path, or the double check inside Compute) and will wait on it
    create      a caller finds no registered call: registers a fresh object and becomes its leader (shouldLoad = true)
    unregister  the leader of i has left the loader (value, error, not-found or panic — the deferred afterFinish runs in every
                case) and executes deleteCall: compare-and-delete of i; its result is written into the cache in the same
                critical section if and only if the compare succeeded (afterDeleteCall: isCorrectCall)
    cancel      the leader of i releases the waiters of i
    kill        a Set / Invalidate / eviction runs group.delete: whatever is registered is removed (the object is "orphaned")
    resume      a waiter of a released object returns
  The loader runs while the object's phase is `loading`.
-/
namespace OtterVerif.Conc.Flight

inductive Phase where
  | fresh | loading | finishing | done
  deriving DecidableEq, Repr

structure St where
  cur : Option Nat := none           -- the call object registered in the table
  phase : Nat → Phase := fun _ => .fresh
  orphaned : Nat → Bool := fun _ => false
  waiting : Nat → Nat := fun _ => 0
  next : Nat := 0                     -- next unused object id
  installed : Nat → Bool := fun _ => false   -- the result of call object i was written into the cache

def upd {α : Type} (f : Nat → α) (i : Nat) (v : α) : Nat → α := fun j => if j = i then v else f j

@[simp] theorem upd_self {α : Type} (f : Nat → α) (i : Nat) (v : α) : upd f i v i = v := by simp [upd]
theorem upd_other {α : Type} (f : Nat → α) (i j : Nat) (v : α) (h : j ≠ i) : upd f i v j = f j := by simp [upd, h]

inductive Step : St → St → Prop
  | join (s : St) (i : Nat) : s.cur = some i →
      Step s { s with waiting := upd s.waiting i (s.waiting i + 1) }
  | create (s : St) : s.cur = none →
      Step s { s with cur := some s.next, phase := upd s.phase s.next .loading, next := s.next + 1 }
  | unregister (s : St) (i : Nat) : s.phase i = .loading →
      Step s { s with cur := if s.cur = some i then none else s.cur, phase := upd s.phase i .finishing,
                      installed := if s.cur = some i then upd s.installed i true else s.installed }
  | cancel (s : St) (i : Nat) : s.phase i = .finishing →
      Step s { s with phase := upd s.phase i .done }
  | kill (s : St) :
      Step s { s with cur := none, orphaned := match s.cur with | some i => upd s.orphaned i true | none => s.orphaned }
  | resume (s : St) (i : Nat) : s.phase i = .done → 0 < s.waiting i →
      Step s { s with waiting := upd s.waiting i (s.waiting i - 1) }

inductive Reach : St → Prop
  | init : Reach {}
  | step {s s' : St} : Reach s → Step s s' → Reach s'

structure Inv (s : St) : Prop where
  /-- unused object ids are untouched -/
  fresh : ∀ i, s.next ≤ i → s.phase i = .fresh ∧ s.waiting i = 0 ∧ s.orphaned i = false
  /-- the registered object is being loaded by its leader -/
  reg : ∀ i, s.cur = some i → s.phase i = .loading ∧ i < s.next
  /-- a loading object that no writer removed is the registered one -/
  own : ∀ i, s.phase i = .loading → s.orphaned i = false → s.cur = some i
  /-- callers wait only on objects that exist -/
  wait : ∀ i, 0 < s.waiting i → s.phase i ≠ .fresh

theorem inv_init : Inv {} :=
  ⟨fun _ _ => ⟨rfl, rfl, rfl⟩, fun _ h => (by cases h), fun _ h => (by cases h), fun _ h => absurd h (Nat.lt_irrefl 0)⟩

theorem inv_step {s s' : St} (hi : Inv s) (hs : Step s s') : Inv s' := by
  cases hs with
  | join i hc =>
    have ⟨hl, hlt⟩ := hi.reg i hc
    refine ⟨fun j hj => ?_, hi.reg, hi.own, fun j hj => ?_⟩
    · have hj' : s.next ≤ j := hj
      have hne : j ≠ i := by omega
      have := hi.fresh j hj
      exact ⟨this.1, by simp only [upd_other _ _ _ _ hne]; exact this.2.1, this.2.2⟩
    · by_cases e : j = i
      · subst e; rw [hl]; exact fun h => Phase.noConfusion h
      · simp only [upd_other _ _ _ _ e] at hj; exact hi.wait j hj
  | create hc =>
    refine ⟨fun j hj => ?_, fun j hj => ?_, fun j hj ho => ?_, fun j hj => ?_⟩
    · have hne : j ≠ s.next := by simp only at hj; omega
      have := hi.fresh j (by simp only at hj; omega)
      exact ⟨by simp only [upd_other _ _ _ _ hne]; exact this.1, this.2.1, this.2.2⟩
    · simp only [Option.some.injEq] at hj
      subst hj
      exact ⟨by simp, by simp⟩
    · by_cases e : j = s.next
      · subst e; rfl
      · simp only [upd_other _ _ _ _ e] at hj
        have := hi.own j hj ho
        rw [hc] at this; cases this
    · by_cases e : j = s.next
      · subst e; simp
      · simp only [upd_other _ _ _ _ e]; exact hi.wait j hj
  | unregister i hp =>
    refine ⟨fun j hj => ?_, fun j hj => ?_, fun j hj ho => ?_, fun j hj => ?_⟩
    · have hne : j ≠ i := fun e => by
        have := (hi.fresh j hj).1; rw [e, hp] at this; cases this
      have := hi.fresh j hj
      exact ⟨by simp only [upd_other _ _ _ _ hne]; exact this.1, this.2.1, this.2.2⟩
    · simp only at hj
      by_cases hc : s.cur = some i
      · simp only [hc, ↓reduceIte] at hj; cases hj
      · simp only [hc, ↓reduceIte] at hj
        have hne : j ≠ i := fun e => hc (e ▸ hj)
        have := hi.reg j hj
        exact ⟨by simp only [upd_other _ _ _ _ hne]; exact this.1, this.2⟩
    · by_cases e : j = i
      · subst e; simp at hj
      · simp only [upd_other _ _ _ _ e] at hj
        have := hi.own j hj ho
        have hc : ¬ s.cur = some i := fun h => by rw [this] at h; exact e (Option.some.inj h)
        simp only [hc, ↓reduceIte]; exact this
    · by_cases e : j = i
      · subst e; simp
      · simp only [upd_other _ _ _ _ e]; exact hi.wait j hj
  | cancel i hp =>
    refine ⟨fun j hj => ?_, fun j hj => ?_, fun j hj ho => ?_, fun j hj => ?_⟩
    · have hne : j ≠ i := fun e => by
        have := (hi.fresh j hj).1; rw [e, hp] at this; cases this
      have := hi.fresh j hj
      exact ⟨by simp only [upd_other _ _ _ _ hne]; exact this.1, this.2.1, this.2.2⟩
    · have hne : j ≠ i := fun e => by
        have := (hi.reg j hj).1; rw [e, hp] at this; cases this
      have := hi.reg j hj
      exact ⟨by simp only [upd_other _ _ _ _ hne]; exact this.1, this.2⟩
    · by_cases e : j = i
      · subst e; simp at hj
      · simp only [upd_other _ _ _ _ e] at hj; exact hi.own j hj ho
    · by_cases e : j = i
      · subst e; simp
      · simp only [upd_other _ _ _ _ e]; exact hi.wait j hj
  | kill =>
    refine ⟨fun j hj => ?_, fun j hj => (by cases hj), fun j hj ho => ?_, hi.wait⟩
    · have := hi.fresh j hj
      refine ⟨this.1, this.2.1, ?_⟩
      cases hc : s.cur with
      | none => exact this.2.2
      | some i =>
        have hlt := (hi.reg i hc).2
        have hj' : s.next ≤ j := hj
        have hne : j ≠ i := by omega
        simp only [upd_other _ _ _ _ hne]; exact this.2.2
    · exfalso
      cases hc : s.cur with
      | none =>
        simp only [hc] at ho
        have := hi.own j hj ho
        rw [hc] at this; cases this
      | some i =>
        simp only [hc] at ho
        by_cases e : j = i
        · subst e; simp at ho
        · simp only [upd_other _ _ _ _ e] at ho
          have := hi.own j hj ho
          rw [hc] at this; exact e (Option.some.inj this).symm
  | resume i hp hw =>
    refine ⟨fun j hj => ?_, hi.reg, hi.own, fun j hj => ?_⟩
    · have hne : j ≠ i := fun e => by
        have := (hi.fresh j hj).1; rw [e, hp] at this; cases this
      have := hi.fresh j hj
      exact ⟨this.1, by simp only [upd_other _ _ _ _ hne]; exact this.2.1, this.2.2⟩
    · by_cases e : j = i
      · subst e; rw [hp]; exact fun h => Phase.noConfusion h
      · simp only [upd_other _ _ _ _ e] at hj; exact hi.wait j hj

theorem reach_inv {s : St} (h : Reach s) : Inv s := by
  induction h with
  | init => exact inv_init
  | step _ hs ih => exact inv_step ih hs

/-! ### which loads write their result (C09) -/

structure Inv2 (s : St) : Prop where
  base : Inv s
  /-- a call whose record a write / invalidation / eviction removed never writes its result, and only finished loads do -/
  inst : ∀ i, s.installed i = true → s.orphaned i = false ∧ s.phase i ≠ .loading ∧ s.phase i ≠ .fresh
  /-- the registered call has not been removed by a writer -/
  regno : ∀ i, s.cur = some i → s.orphaned i = false

theorem inv2_init : Inv2 {} := ⟨inv_init, fun _ h => (by cases h), fun _ h => (by cases h)⟩

theorem inv2_step {s s' : St} (hi : Inv2 s) (hs : Step s s') : Inv2 s' := by
  refine ⟨inv_step hi.base hs, ?_, ?_⟩
  · cases hs with
    | join i hc => exact hi.inst
    | create hc =>
      intro j hj
      have hfr := hi.base.fresh s.next (Nat.le_refl _)
      have hne : j ≠ s.next := fun e => by
        have := (hi.inst j hj).2.2; rw [e, hfr.1] at this; exact this rfl
      have := hi.inst j hj
      exact ⟨this.1, by simp only [upd_other _ _ _ _ hne]; exact this.2.1, by simp only [upd_other _ _ _ _ hne]; exact this.2.2⟩
    | unregister i hp =>
      intro j hj
      simp only at hj ⊢
      by_cases e : j = i
      · subst e
        by_cases hc : s.cur = some j
        · exact ⟨hi.regno j hc, by simp, by simp⟩
        · simp only [hc, ↓reduceIte] at hj
          have := (hi.inst j hj).2.1
          exact absurd hp this
      · have hj' : s.installed j = true := by
          by_cases hc : s.cur = some i
          · simp only [hc, ↓reduceIte, upd_other _ _ _ _ e] at hj; exact hj
          · simp only [hc, ↓reduceIte] at hj; exact hj
        have := hi.inst j hj'
        exact ⟨this.1, by simp only [upd_other _ _ _ _ e]; exact this.2.1, by simp only [upd_other _ _ _ _ e]; exact this.2.2⟩
    | cancel i hp =>
      intro j hj
      have := hi.inst j hj
      by_cases e : j = i
      · subst e; exact ⟨this.1, by simp, by simp⟩
      · exact ⟨this.1, by simp only [upd_other _ _ _ _ e]; exact this.2.1, by simp only [upd_other _ _ _ _ e]; exact this.2.2⟩
    | kill =>
      intro j hj
      have := hi.inst j hj
      refine ⟨?_, this.2.1, this.2.2⟩
      cases hc : s.cur with
      | none => exact this.1
      | some i =>
        have hne : j ≠ i := fun e => by
          have hl := (hi.base.reg i hc).1
          rw [e] at this; exact this.2.1 hl
        simp only [upd_other _ _ _ _ hne]; exact this.1
    | resume i hp hw => exact hi.inst
  · cases hs with
    | join i hc => exact hi.regno
    | create hc =>
      intro j hj
      simp only [Option.some.injEq] at hj
      subst hj
      exact (hi.base.fresh s.next (Nat.le_refl _)).2.2
    | unregister i hp =>
      intro j hj
      simp only at hj
      by_cases hc : s.cur = some i
      · simp only [hc, ↓reduceIte] at hj; cases hj
      · simp only [hc, ↓reduceIte] at hj; exact hi.regno j hj
    | cancel i hp => exact hi.regno
    | kill => intro j hj; cases hj
    | resume i hp hw => exact hi.regno

theorem reach_inv2 {s : St} (h : Reach s) : Inv2 s := by
  induction h with
  | init => exact inv2_init
  | step _ hs ih => exact inv2_step ih hs

end OtterVerif.Conc.Flight
