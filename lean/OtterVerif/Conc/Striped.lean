/-
  Conc.Striped — interleaving model of the stripe table above the rings (internal/lossy/striped.go: expandOrRetry).

  The table (`striped`: an array of ring pointers) is only ever changed by the goroutine that won `busy.CompareAndSwap(0, 1)`:
    lockCreate j / createStore / createSkip     the slot of the caller's index is (re)checked under the lock and, if still nil,
                                                receives a NEW ring
    lockExpand / expandCopy / expandPublish     the table is still the one the caller saw: a table twice as long is allocated,
                                                the ring pointers are copied one by one, the new table is published
    lockInit                                    no table yet: a table of length 1 with a new ring is published
    unlock                                      busy.Store(0)
  Producers read tables (possibly stale ones) and add to the rings they find; the consumer walks the current table.  Table
  versions are numbered; `slot v j` is entry j of version v, `cur` the published version.

  Invariant / theorems: every ring ever created is referenced by the current table, at exactly one index (no ring is orphaned
  by an expansion, none is drained twice in a pass); whatever ring a producer finds through a stale table is also in the
  current one (its entries will be drained); tables only double.
-/
namespace OtterVerif.Conc.Striped

inductive CS
  | idle
  | creating (v j : Nat)
  | expanding (v c nv : Nat)
  | unlocking
deriving DecidableEq

structure St where
  len : Nat → Nat := fun _ => 0
  slot : Nat → Nat → Option Nat := fun _ _ => none
  cur : Option Nat := none
  nver : Nat := 0
  rings : Nat := 0
  cs : CS := .idle

def upd {α : Type} (f : Nat → α) (i : Nat) (v : α) : Nat → α := fun j => if j = i then v else f j
@[simp] theorem upd_self {α : Type} (f : Nat → α) (i : Nat) (v : α) : upd f i v i = v := by simp [upd]
theorem upd_other {α : Type} (f : Nat → α) (i j : Nat) (v : α) (h : j ≠ i) : upd f i v j = f j := by simp [upd, h]

def upd2 (f : Nat → Nat → Option Nat) (v j : Nat) (x : Option Nat) : Nat → Nat → Option Nat :=
  fun v' j' => if v' = v ∧ j' = j then x else f v' j'
theorem upd2_self (f : Nat → Nat → Option Nat) (v j : Nat) (x : Option Nat) : upd2 f v j x v j = x := by simp [upd2]
theorem upd2_other (f : Nat → Nat → Option Nat) (v j v' j' : Nat) (x : Option Nat) (h : ¬ (v' = v ∧ j' = j)) :
    upd2 f v j x v' j' = f v' j' := by simp [upd2, h]

inductive Step : St → St → Prop
  | lockCreate (s : St) (v j : Nat) : s.cs = .idle → s.cur = some v → j < s.len v →
      Step s { s with cs := .creating v j }
  | createStore (s : St) (v j : Nat) : s.cs = .creating v j → s.slot v j = none →
      Step s { s with slot := upd2 s.slot v j (some s.rings), rings := s.rings + 1, cs := .unlocking }
  | createSkip (s : St) (v j : Nat) : s.cs = .creating v j → s.slot v j ≠ none →
      Step s { s with cs := .unlocking }
  | lockExpand (s : St) (v : Nat) : s.cs = .idle → s.cur = some v →
      Step s { s with len := upd s.len s.nver (2 * s.len v), nver := s.nver + 1, cs := .expanding v 0 s.nver }
  | expandCopy (s : St) (v c nv : Nat) : s.cs = .expanding v c nv → c < s.len v →
      Step s { s with slot := upd2 s.slot nv c (s.slot v c), cs := .expanding v (c + 1) nv }
  | expandPublish (s : St) (v c nv : Nat) : s.cs = .expanding v c nv → c = s.len v →
      Step s { s with cur := some nv, cs := .unlocking }
  | lockInit (s : St) : s.cs = .idle → s.cur = none →
      Step s { s with len := upd s.len s.nver 1, slot := upd2 s.slot s.nver 0 (some s.rings), rings := s.rings + 1,
                      nver := s.nver + 1, cur := some s.nver, cs := .unlocking }
  | unlock (s : St) : s.cs = .unlocking → Step s { s with cs := .idle }

inductive Reach : St → Prop
  | init : Reach {}
  | step {s s' : St} : Reach s → Step s s' → Reach s'

structure Inv (s : St) : Prop where
  /-- entries exist only in allocated versions, inside their length, and name created rings -/
  range : ∀ v j r, s.slot v j = some r → r < s.rings ∧ v < s.nver ∧ j < s.len v
  curv : ∀ v, s.cur = some v → v < s.nver ∧ 0 < s.len v
  none0 : s.cur = none → s.rings = 0
  /-- every ring is in the current table -/
  cover : ∀ v, s.cur = some v → ∀ r, r < s.rings → ∃ j, j < s.len v ∧ s.slot v j = some r
  /-- at one index only -/
  inj : ∀ v, s.cur = some v → ∀ j j' r, s.slot v j = some r → s.slot v j' = some r → j = j'
  /-- a ring found through any table version is in the current table -/
  live : ∀ v, s.cur = some v → ∀ v' j r, s.slot v' j = some r → ∃ j', j' < s.len v ∧ s.slot v j' = some r
  crt : ∀ v j, s.cs = .creating v j → s.cur = some v ∧ j < s.len v
  exp : ∀ v c nv, s.cs = .expanding v c nv → s.cur = some v ∧ nv < s.nver ∧ nv ≠ v ∧ c ≤ s.len v ∧
          s.len nv = 2 * s.len v ∧ (∀ j, j < c → s.slot nv j = s.slot v j) ∧ (∀ j, c ≤ j → s.slot nv j = none)

theorem step_inv {s s' : St} (hi : Inv s) (h : Step s s') : Inv s' := by
  obtain ⟨range, curv, none0, cover, inj, live, crt, exp⟩ := hi
  cases h with
  | lockCreate v j hc hcur hj =>
    refine ⟨range, curv, none0, cover, inj, live, ?_, ?_⟩
    · intro v' j' he
      have he' : CS.creating v j = CS.creating v' j' := he
      cases he'; exact ⟨hcur, hj⟩
    · intro v' c nv he
      have he' : CS.creating v j = CS.expanding v' c nv := he
      cases he'
  | createStore v j hc hn =>
    obtain ⟨hcur, hj⟩ := crt v j hc
    have hv := curv v hcur
    refine ⟨?_, curv, ?_, ?_, ?_, ?_, ?_, ?_⟩
    · intro v' j' r hs
      have hs' : upd2 s.slot v j (some s.rings) v' j' = some r := hs
      show r < s.rings + 1 ∧ _
      by_cases he : v' = v ∧ j' = j
      · obtain ⟨e1, e2⟩ := he; subst e1; subst e2
        rw [upd2_self] at hs'; cases hs'
        exact ⟨Nat.lt_succ_self _, hv.1, hj⟩
      · rw [upd2_other _ _ _ _ _ _ he] at hs'
        have := range v' j' r hs'
        exact ⟨Nat.lt_succ_of_lt this.1, this.2⟩
    · intro hcn; rw [hcur] at hcn; cases hcn
    · intro v' hc' r hr
      have hc'' : s.cur = some v' := hc'
      rw [hcur] at hc''; cases hc''
      have hr' : r < s.rings + 1 := hr
      show ∃ j', j' < s.len v ∧ upd2 s.slot v j (some s.rings) v j' = some r
      by_cases hrr : r = s.rings
      · exact ⟨j, hj, by rw [upd2_self, hrr]⟩
      · obtain ⟨j', h1, h2⟩ := cover v hcur r (by omega)
        have hne : ¬ (v = v ∧ j' = j) := by
          intro ⟨_, e⟩; subst e; rw [hn] at h2; cases h2
        exact ⟨j', h1, by rw [upd2_other _ _ _ _ _ _ hne]; exact h2⟩
    · intro v' hc' j1 j2 r h1 h2
      have hc'' : s.cur = some v' := hc'
      rw [hcur] at hc''; cases hc''
      have h1' : upd2 s.slot v j (some s.rings) v j1 = some r := h1
      have h2' : upd2 s.slot v j (some s.rings) v j2 = some r := h2
      by_cases e1 : j1 = j
      · by_cases e2 : j2 = j
        · rw [e1, e2]
        · exfalso
          subst e1; rw [upd2_self] at h1'; cases h1'
          rw [upd2_other _ _ _ _ _ _ (by intro ⟨_, e⟩; exact e2 e)] at h2'
          exact Nat.lt_irrefl _ (range v j2 _ h2').1
      · by_cases e2 : j2 = j
        · exfalso
          subst e2; rw [upd2_self] at h2'; cases h2'
          rw [upd2_other _ _ _ _ _ _ (by intro ⟨_, e⟩; exact e1 e)] at h1'
          exact Nat.lt_irrefl _ (range v j1 _ h1').1
        · rw [upd2_other _ _ _ _ _ _ (by intro ⟨_, e⟩; exact e1 e)] at h1'
          rw [upd2_other _ _ _ _ _ _ (by intro ⟨_, e⟩; exact e2 e)] at h2'
          exact inj v hcur j1 j2 r h1' h2'
    · intro v' hc' v'' j'' r hs
      have hc'' : s.cur = some v' := hc'
      rw [hcur] at hc''; cases hc''
      have hs' : upd2 s.slot v j (some s.rings) v'' j'' = some r := hs
      show ∃ j', j' < s.len v ∧ upd2 s.slot v j (some s.rings) v j' = some r
      by_cases he : v'' = v ∧ j'' = j
      · obtain ⟨e1, e2⟩ := he; subst e1; subst e2
        exact ⟨j'', hj, hs'⟩
      · rw [upd2_other _ _ _ _ _ _ he] at hs'
        obtain ⟨j', h1, h2⟩ := live v hcur v'' j'' r hs'
        have hne : ¬ (v = v ∧ j' = j) := by
          intro ⟨_, e⟩; subst e; rw [hn] at h2; cases h2
        exact ⟨j', h1, by rw [upd2_other _ _ _ _ _ _ hne]; exact h2⟩
    · intro v' j' he
      have he' : CS.unlocking = CS.creating v' j' := he
      cases he'
    · intro v' c nv he
      have he' : CS.unlocking = CS.expanding v' c nv := he
      cases he'
  | createSkip v j hc hn =>
    refine ⟨range, curv, none0, cover, inj, live, ?_, ?_⟩
    · intro v' j' he
      have he' : CS.unlocking = CS.creating v' j' := he
      cases he'
    · intro v' c nv he
      have he' : CS.unlocking = CS.expanding v' c nv := he
      cases he'
  | lockExpand v hc hcur =>
    have hv := curv v hcur
    have fresh : ∀ j, s.slot s.nver j = none := by
      intro j
      cases hs : s.slot s.nver j with
      | none => rfl
      | some r => exact absurd (range _ _ _ hs).2.1 (Nat.lt_irrefl _)
    have lenO : ∀ v', v' < s.nver → upd s.len s.nver (2 * s.len v) v' = s.len v' :=
      fun v' hlt => upd_other _ _ _ _ (Nat.ne_of_lt hlt)
    refine ⟨?_, ?_, none0, ?_, inj, ?_, ?_, ?_⟩
    · intro v' j r hs
      have := range v' j r hs
      exact ⟨this.1, Nat.lt_succ_of_lt this.2.1, by show j < upd s.len s.nver _ v'; rw [lenO v' this.2.1]; exact this.2.2⟩
    · intro v' hc'
      have := curv v' hc'
      exact ⟨Nat.lt_succ_of_lt this.1, by show 0 < upd s.len s.nver _ v'; rw [lenO v' this.1]; exact this.2⟩
    · intro v' hc' r hr
      obtain ⟨j, h1, h2⟩ := cover v' hc' r hr
      exact ⟨j, by show j < upd s.len s.nver _ v'; rw [lenO v' (curv v' hc').1]; exact h1, h2⟩
    · intro v' hc' v'' j r hs
      obtain ⟨j', h1, h2⟩ := live v' hc' v'' j r hs
      exact ⟨j', by show j' < upd s.len s.nver _ v'; rw [lenO v' (curv v' hc').1]; exact h1, h2⟩
    · intro v' j' he
      have he' : CS.expanding v 0 s.nver = CS.creating v' j' := he
      cases he'
    · intro v' c nv he
      have he' : CS.expanding v 0 s.nver = CS.expanding v' c nv := he
      cases he'
      refine ⟨hcur, Nat.lt_succ_self _, Nat.ne_of_gt hv.1, Nat.zero_le _, ?_, ?_, ?_⟩
      · show upd s.len s.nver _ s.nver = 2 * upd s.len s.nver _ v
        rw [upd_self, lenO v hv.1]
      · intro j hj; exact absurd hj (Nat.not_lt_zero _)
      · intro j _; exact fresh j
  | expandCopy v c nv hc hlt =>
    obtain ⟨hcur, hnv, hne, hcl, hlen, hcp, hrest⟩ := exp v c nv hc
    have hv := curv v hcur
    have slotO : ∀ v' j', v' ≠ nv → upd2 s.slot nv c (s.slot v c) v' j' = s.slot v' j' :=
      fun v' j' hn => upd2_other _ _ _ _ _ _ (by intro ⟨e, _⟩; exact hn e)
    refine ⟨?_, curv, none0, ?_, ?_, ?_, ?_, ?_⟩
    · intro v' j r hs
      have hs' : upd2 s.slot nv c (s.slot v c) v' j = some r := hs
      by_cases he : v' = nv ∧ j = c
      · obtain ⟨e1, e2⟩ := he; subst e1; subst e2
        rw [upd2_self] at hs'
        have := range v j r hs'
        exact ⟨this.1, hnv, by rw [hlen]; omega⟩
      · rw [upd2_other _ _ _ _ _ _ he] at hs'; exact range v' j r hs'
    · intro v' hc' r hr
      have hc'' : s.cur = some v' := hc'
      rw [hcur] at hc''; cases hc''
      obtain ⟨j, h1, h2⟩ := cover v hcur r hr
      exact ⟨j, h1, by show upd2 s.slot nv c (s.slot v c) v j = _; rw [slotO v j (Ne.symm hne)]; exact h2⟩
    · intro v' hc' j1 j2 r h1 h2
      have hc'' : s.cur = some v' := hc'
      rw [hcur] at hc''; cases hc''
      have h1' : upd2 s.slot nv c (s.slot v c) v j1 = some r := h1
      have h2' : upd2 s.slot nv c (s.slot v c) v j2 = some r := h2
      rw [slotO v _ (Ne.symm hne)] at h1' h2'
      exact inj v hcur j1 j2 r h1' h2'
    · intro v' hc' v'' j r hs
      have hc'' : s.cur = some v' := hc'
      rw [hcur] at hc''; cases hc''
      have hs' : upd2 s.slot nv c (s.slot v c) v'' j = some r := hs
      show ∃ j', j' < s.len v ∧ upd2 s.slot nv c (s.slot v c) v j' = some r
      by_cases he : v'' = nv ∧ j = c
      · obtain ⟨e1, e2⟩ := he; subst e1; subst e2
        rw [upd2_self] at hs'
        exact ⟨j, hlt, by rw [slotO v j (Ne.symm hne)]; exact hs'⟩
      · rw [upd2_other _ _ _ _ _ _ he] at hs'
        obtain ⟨j', h1, h2⟩ := live v hcur v'' j r hs'
        exact ⟨j', h1, by rw [slotO v j' (Ne.symm hne)]; exact h2⟩
    · intro v' j' he
      have he' : CS.expanding v (c + 1) nv = CS.creating v' j' := he
      cases he'
    · intro v' c' nv' he
      have he' : CS.expanding v (c + 1) nv = CS.expanding v' c' nv' := he
      cases he'
      refine ⟨hcur, hnv, hne, hlt, hlen, ?_, ?_⟩
      · intro j hj
        show upd2 s.slot nv c (s.slot v c) nv j = upd2 s.slot nv c (s.slot v c) v j
        rw [slotO v j (Ne.symm hne)]
        by_cases e : j = c
        · subst e; rw [upd2_self]
        · rw [upd2_other _ _ _ _ _ _ (by intro ⟨_, e'⟩; exact e e')]; exact hcp j (by omega)
      · intro j hj
        show upd2 s.slot nv c (s.slot v c) nv j = none
        rw [upd2_other _ _ _ _ _ _ (by intro ⟨_, e'⟩; omega)]; exact hrest j (by omega)
  | expandPublish v c nv hc hce =>
    obtain ⟨hcur, hnv, hne, hcl, hlen, hcp, hrest⟩ := exp v c nv hc
    have hv := curv v hcur
    subst hce
    -- an index of the new table that holds a ring lies in the copied part
    have low : ∀ j r, s.slot nv j = some r → j < s.len v ∧ s.slot v j = some r := by
      intro j r hs
      by_cases hj : j < s.len v
      · exact ⟨hj, by rw [← hcp j hj]; exact hs⟩
      · rw [hrest j (Nat.le_of_not_lt hj)] at hs; cases hs
    refine ⟨range, ?_, ?_, ?_, ?_, ?_, ?_, ?_⟩
    · intro v' hc'
      have hc'' : some nv = some v' := hc'
      cases hc''; exact ⟨hnv, by rw [hlen]; omega⟩
    · intro hcn
      have hcn' : some nv = none := hcn
      cases hcn'
    · intro v' hc' r hr
      have hc'' : some nv = some v' := hc'
      cases hc''
      obtain ⟨j, h1, h2⟩ := cover v hcur r hr
      exact ⟨j, by rw [hlen]; omega, by rw [hcp j h1]; exact h2⟩
    · intro v' hc' j1 j2 r h1 h2
      have hc'' : some nv = some v' := hc'
      cases hc''
      exact inj v hcur j1 j2 r (low j1 r h1).2 (low j2 r h2).2
    · intro v' hc' v'' j r hs
      have hc'' : some nv = some v' := hc'
      cases hc''
      obtain ⟨j', h1, h2⟩ := live v hcur v'' j r hs
      exact ⟨j', by rw [hlen]; omega, by rw [hcp j' h1]; exact h2⟩
    · intro v' j' he
      have he' : CS.unlocking = CS.creating v' j' := he
      cases he'
    · intro v' c' nv' he
      have he' : CS.unlocking = CS.expanding v' c' nv' := he
      cases he'
  | lockInit hc hcur =>
    have hr0 := none0 hcur
    have fresh : ∀ v' j r, s.slot v' j = some r → False := by
      intro v' j r hs
      have := (range v' j r hs).1
      omega
    refine ⟨?_, ?_, ?_, ?_, ?_, ?_, ?_, ?_⟩
    · intro v' j r hs
      have hs' : upd2 s.slot s.nver 0 (some s.rings) v' j = some r := hs
      by_cases he : v' = s.nver ∧ j = 0
      · obtain ⟨e1, e2⟩ := he; subst e1; subst e2
        rw [upd2_self] at hs'; cases hs'
        exact ⟨Nat.lt_succ_self _, Nat.lt_succ_self _, by show 0 < upd s.len s.nver 1 s.nver; rw [upd_self]; exact Nat.one_pos⟩
      · rw [upd2_other _ _ _ _ _ _ he] at hs'; exact absurd hs' (fun h => fresh _ _ _ h)
    · intro v' hc'
      have hc'' : some s.nver = some v' := hc'
      cases hc''
      exact ⟨Nat.lt_succ_self _, by show 0 < upd s.len s.nver 1 s.nver; rw [upd_self]; exact Nat.one_pos⟩
    · intro hcn
      have hcn' : some s.nver = none := hcn
      cases hcn'
    · intro v' hc' r hr
      have hc'' : some s.nver = some v' := hc'
      cases hc''
      have hr' : r < s.rings + 1 := hr
      have : r = s.rings := by omega
      exact ⟨0, by show 0 < upd s.len s.nver 1 s.nver; rw [upd_self]; exact Nat.one_pos,
        by show upd2 s.slot s.nver 0 (some s.rings) s.nver 0 = some r; rw [upd2_self, this]⟩
    · intro v' hc' j1 j2 r h1 h2
      have hc'' : some s.nver = some v' := hc'
      cases hc''
      have h1' : upd2 s.slot s.nver 0 (some s.rings) s.nver j1 = some r := h1
      have h2' : upd2 s.slot s.nver 0 (some s.rings) s.nver j2 = some r := h2
      have z1 : j1 = 0 := by
        apply Decidable.byContradiction; intro hne
        rw [upd2_other _ _ _ _ _ _ (by intro ⟨_, e⟩; exact hne e)] at h1'; exact fresh _ _ _ h1'
      have z2 : j2 = 0 := by
        apply Decidable.byContradiction; intro hne
        rw [upd2_other _ _ _ _ _ _ (by intro ⟨_, e⟩; exact hne e)] at h2'; exact fresh _ _ _ h2'
      rw [z1, z2]
    · intro v' hc' v'' j r hs
      have hc'' : some s.nver = some v' := hc'
      cases hc''
      have hs' : upd2 s.slot s.nver 0 (some s.rings) v'' j = some r := hs
      by_cases he : v'' = s.nver ∧ j = 0
      · obtain ⟨e1, e2⟩ := he; subst e1; subst e2
        exact ⟨0, by show 0 < upd s.len s.nver 1 s.nver; rw [upd_self]; exact Nat.one_pos, hs'⟩
      · rw [upd2_other _ _ _ _ _ _ he] at hs'; exact absurd hs' (fun h => fresh _ _ _ h)
    · intro v' j' he
      have he' : CS.unlocking = CS.creating v' j' := he
      cases he'
    · intro v' c' nv' he
      have he' : CS.unlocking = CS.expanding v' c' nv' := he
      cases he'
  | unlock hc =>
    refine ⟨range, curv, none0, cover, inj, live, ?_, ?_⟩
    · intro v' j' he
      have he' : CS.idle = CS.creating v' j' := he
      cases he'
    · intro v' c' nv' he
      have he' : CS.idle = CS.expanding v' c' nv' := he
      cases he'

theorem reach_inv {s : St} (h : Reach s) : Inv s := by
  induction h with
  | init =>
    refine ⟨?_, ?_, fun _ => rfl, ?_, ?_, ?_, ?_, ?_⟩
    · intro v j r hs; cases hs
    · intro v hc; cases hc
    · intro v hc; cases hc
    · intro v hc; cases hc
    · intro v hc; cases hc
    · intro v j he; cases he
    · intro v c nv he; cases he
  | step _ hst ih => exact step_inv ih hst

/-- **No ring is ever orphaned**: every ring created so far is referenced by the current table, at exactly one index. -/
theorem ring_in_current_once {s : St} (h : Reach s) {v : Nat} (hc : s.cur = some v) {r : Nat} (hr : r < s.rings) :
    ∃ j, j < s.len v ∧ s.slot v j = some r ∧ ∀ j', s.slot v j' = some r → j' = j := by
  have hi := reach_inv h
  obtain ⟨j, h1, h2⟩ := hi.cover v hc r hr
  exact ⟨j, h1, h2, fun j' h' => hi.inj v hc j' j r h' h2⟩

/-- a ring a producer reaches through ANY table version (a stale one included) is in the current table: what it records
    there will be visited by the consumer -/
theorem stale_ring_is_live {s : St} (h : Reach s) {v : Nat} (hc : s.cur = some v) {v' j r : Nat}
    (hs : s.slot v' j = some r) : ∃ j', j' < s.len v ∧ s.slot v j' = some r :=
  (reach_inv h).live v hc v' j r hs

/-- rings exist only once a table exists -/
theorem no_table_no_rings {s : St} (h : Reach s) (hc : s.cur = none) : s.rings = 0 := (reach_inv h).none0 hc

end OtterVerif.Conc.Striped
