/-
  Conc.AdderSkeleton — snapshot of the skeletons of internal/xsync/adder.go.
    Adder.Add    = Load stripe; CompareAndSwap(cnt, cnt+delta); retried (on another stripe) until one succeeds: step `add`
    Adder.Value  = one Load per stripe, in index order, summed: steps `rStart`, `rRead`
-/
namespace OtterVerif.Conc.AdderSkeleton

def Adder_Add : List (Nat × String) :=
  [(0, "if !ok"),
   (0, "then"),
   (0, "fi"),
   (0, "for "),
   (1, "Load adder"),
   (1, "if stripe.adder.CompareAndSwap(cnt,cnt+delta)"),
   (2, "CompareAndSwap adder cnt cnt+delta"),
   (1, "then"),
   (2, "break"),
   (1, "fi"),
   (0, "rof")]

def Adder_Value : List (Nat × String) :=
  [(0, "for i<len(a.stripes)"),
   (1, "Load adder"),
   (0, "rof"),
   (0, "return")]

end OtterVerif.Conc.AdderSkeleton
