/-
  Conc.Adder — interleaving model of internal/xsync/adder.go (the striped counter behind stats.Counter).

  n stripes, each an atomic word.  Atomic steps:
    add i d       a successful CompareAndSwap on stripe i adds d (a failed one changes nothing and is retried on another
                  stripe: no step); `total` is the ghost sum of everything added so far
    rStart r      reader r starts Value(): position 0, accumulator 0; the ghost `lo r` records the total at that instant
    rRead r       reader r loads the stripe at its position and adds it to its accumulator
    (the reader has finished when its position is n; its accumulator is the result)

  Theorem `value_between`: the result of a Value() that overlaps any number of Adds lies between the total when it started and
  the total when it finished; so every count it misses belongs to an Add that had not returned when Value() started, and with
  no Add in progress the result is exact.  Counters are naturals: wrap-around of the 64-bit words is out of scope.
-/
namespace OtterVerif.Conc.Adder

def upd {α : Type} (f : Nat → α) (i : Nat) (v : α) : Nat → α := fun j => if j = i then v else f j
@[simp] theorem upd_self {α : Type} (f : Nat → α) (i : Nat) (v : α) : upd f i v i = v := by simp [upd]
theorem upd_other {α : Type} (f : Nat → α) (i j : Nat) (v : α) (h : j ≠ i) : upd f i v j = f j := by simp [upd, h]

/-- f 0 + … + f (n-1) -/
def sumTo (f : Nat → Nat) : Nat → Nat
  | 0 => 0
  | n + 1 => sumTo f n + f n

theorem sumTo_upd (f : Nat → Nat) (i d n : Nat) :
    sumTo (upd f i (f i + d)) n = sumTo f n + (if i < n then d else 0) := by
  induction n with
  | zero => simp [sumTo]
  | succ n ih =>
    rw [sumTo, sumTo, ih]
    by_cases h : n = i
    · subst h; rw [upd_self]; simp; omega
    · rw [upd_other _ _ _ _ h]
      by_cases h1 : i < n
      · have : i < n + 1 := by omega
        simp [h1, this]; omega
      · have : ¬ i < n + 1 := by omega
        simp [h1, this]

theorem sumTo_mono (f : Nat → Nat) {p n : Nat} (h : p ≤ n) : sumTo f p ≤ sumTo f n := by
  induction n with
  | zero => have : p = 0 := by omega
            subst this; exact Nat.le_refl _
  | succ n ih =>
    by_cases hp : p = n + 1
    · subst hp; exact Nat.le_refl _
    · have := ih (by omega); rw [sumTo]; omega

structure St where
  stripe : Nat → Nat := fun _ => 0
  total : Nat := 0                                   -- ghost: everything added so far
  rd : Nat → Option (Nat × Nat) := fun _ => none     -- reader ↦ (position, accumulator)
  lo : Nat → Nat := fun _ => 0                       -- ghost: total when the reader started

inductive Step (n : Nat) : St → St → Prop
  | add (s : St) (i d : Nat) : i < n →
      Step n s { s with stripe := upd s.stripe i (s.stripe i + d), total := s.total + d }
  | rStart (s : St) (r : Nat) : s.rd r = none →
      Step n s { s with rd := upd s.rd r (some (0, 0)), lo := upd s.lo r s.total }
  | rRead (s : St) (r p acc : Nat) : s.rd r = some (p, acc) → p < n →
      Step n s { s with rd := upd s.rd r (some (p + 1, acc + s.stripe p)) }

inductive Reach (n : Nat) : St → Prop
  | init : Reach n {}
  | step {s s' : St} : Reach n s → Step n s s' → Reach n s'

structure Inv (n : Nat) (s : St) : Prop where
  tot : s.total = sumTo s.stripe n
  pos : ∀ r p acc, s.rd r = some (p, acc) → p ≤ n
  /-- what has been read plus what is still to be read (at its current value) is at least the total at the start -/
  low : ∀ r p acc, s.rd r = some (p, acc) → s.lo r + sumTo s.stripe p ≤ acc + sumTo s.stripe n
  /-- what has been read is at most what the stripes read hold now -/
  high : ∀ r p acc, s.rd r = some (p, acc) → acc ≤ sumTo s.stripe p

theorem step_inv {n : Nat} {s s' : St} (hi : Inv n s) (h : Step n s s') : Inv n s' := by
  obtain ⟨tot, pos, low, high⟩ := hi
  cases h with
  | add i d hin =>
    refine ⟨?_, pos, ?_, ?_⟩
    · show s.total + d = sumTo (upd s.stripe i (s.stripe i + d)) n
      rw [sumTo_upd, if_pos hin, tot]
    · intro r p acc hr
      show s.lo r + sumTo (upd s.stripe i (s.stripe i + d)) p ≤ acc + sumTo (upd s.stripe i (s.stripe i + d)) n
      rw [sumTo_upd, sumTo_upd, if_pos hin]
      have := low r p acc hr
      by_cases hip : i < p
      · rw [if_pos hip]; omega
      · rw [if_neg hip]; omega
    · intro r p acc hr
      show acc ≤ sumTo (upd s.stripe i (s.stripe i + d)) p
      rw [sumTo_upd]
      have := high r p acc hr
      omega
  | rStart r hr0 =>
    refine ⟨tot, ?_, ?_, ?_⟩
    · intro r' p acc hr
      have hr' : upd s.rd r (some (0, 0)) r' = some (p, acc) := hr
      by_cases he : r' = r
      · subst he; rw [upd_self] at hr'; cases hr'; exact Nat.zero_le _
      · rw [upd_other _ _ _ _ he] at hr'; exact pos r' p acc hr'
    · intro r' p acc hr
      have hr' : upd s.rd r (some (0, 0)) r' = some (p, acc) := hr
      show upd s.lo r s.total r' + _ ≤ _
      by_cases he : r' = r
      · subst he; rw [upd_self] at hr'; cases hr'; rw [upd_self, tot]; simp [sumTo]
      · rw [upd_other _ _ _ _ he] at hr'; rw [upd_other _ _ _ _ he]; exact low r' p acc hr'
    · intro r' p acc hr
      have hr' : upd s.rd r (some (0, 0)) r' = some (p, acc) := hr
      by_cases he : r' = r
      · subst he; rw [upd_self] at hr'; cases hr'; exact Nat.zero_le _
      · rw [upd_other _ _ _ _ he] at hr'; exact high r' p acc hr'
  | rRead r p acc hr0 hp =>
    refine ⟨tot, ?_, ?_, ?_⟩
    · intro r' p' acc' hr
      have hr' : upd s.rd r (some (p + 1, acc + s.stripe p)) r' = some (p', acc') := hr
      by_cases he : r' = r
      · subst he; rw [upd_self] at hr'; cases hr'; omega
      · rw [upd_other _ _ _ _ he] at hr'; exact pos r' p' acc' hr'
    · intro r' p' acc' hr
      have hr' : upd s.rd r (some (p + 1, acc + s.stripe p)) r' = some (p', acc') := hr
      by_cases he : r' = r
      · subst he; rw [upd_self] at hr'; cases hr'
        have := low r' p acc hr0
        show s.lo r' + sumTo s.stripe (p + 1) ≤ acc + s.stripe p + sumTo s.stripe n
        rw [sumTo]; omega
      · rw [upd_other _ _ _ _ he] at hr'; exact low r' p' acc' hr'
    · intro r' p' acc' hr
      have hr' : upd s.rd r (some (p + 1, acc + s.stripe p)) r' = some (p', acc') := hr
      by_cases he : r' = r
      · subst he; rw [upd_self] at hr'; cases hr'
        have := high r' p acc hr0
        show acc + s.stripe p ≤ sumTo s.stripe (p + 1)
        rw [sumTo]; omega
      · rw [upd_other _ _ _ _ he] at hr'; exact high r' p' acc' hr'

theorem reach_inv {n : Nat} {s : St} (h : Reach n s) : Inv n s := by
  induction h with
  | init =>
    refine ⟨?_, ?_, ?_, ?_⟩
    · show 0 = sumTo (fun _ => 0) n
      induction n with
      | zero => rfl
      | succ n ih => rw [sumTo, ← ih]
    · intro r p acc hr; cases hr
    · intro r p acc hr; cases hr
    · intro r p acc hr; cases hr
  | step _ hst ih => exact step_inv ih hst

/-- **A concurrent Value() is bracketed by the totals at its start and at its end.** -/
theorem value_between {n : Nat} {s : St} (h : Reach n s) {r acc : Nat} (hr : s.rd r = some (n, acc)) :
    s.lo r ≤ acc ∧ acc ≤ s.total := by
  have hi := reach_inv h
  have h1 := hi.low r n acc hr
  have h2 := hi.high r n acc hr
  rw [hi.tot]
  omega

/-- the ghost `lo` is a total the counter really had, and totals only grow -/
theorem lo_le_total {n : Nat} {s : St} (h : Reach n s) {r p acc : Nat} (hr : s.rd r = some (p, acc)) : s.lo r ≤ s.total := by
  have hi := reach_inv h
  have h1 := hi.low r p acc hr
  have h2 := hi.high r p acc hr
  have h3 := sumTo_mono s.stripe (hi.pos r p acc hr)
  rw [hi.tot]; omega

/-- the sum of the stripes is everything that was added -/
theorem total_is_sum {n : Nat} {s : St} (h : Reach n s) : s.total = sumTo s.stripe n := (reach_inv h).tot

end OtterVerif.Conc.Adder
