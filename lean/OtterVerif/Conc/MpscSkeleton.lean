/-
  Conc.MpscSkeleton — snapshot of the atomic-operation skeletons of internal/deque/queue/mpsc.go that Impl.Mpsc and the
  C16 reasoning were written against.  `Props.C16` proves the regenerated skeletons equal to these.
-/
namespace OtterVerif.Conc.MpscSkeleton

def MPSC_TryPush : List (Nat × String) :=
  [(0, "for "),
   (1, "Load producerLimit"),
   (1, "Load producerIndex"),
   (1, "if pIndex&1==1"),
   (1, "then"),
   (2, "continue"),
   (1, "fi"),
   (1, "Load producerMask"),
   (1, "Load producerBuffer"),
   (1, "if producerLimit<=pIndex"),
   (1, "then"),
   (2, "call pushSlowPath"),
   (2, "switch result"),
   (3, "case 0"),
   (4, "break"),
   (3, "case 1"),
   (4, "continue"),
   (3, "case 2"),
   (4, "return"),
   (3, "case 3"),
   (4, "call resize"),
   (4, "return"),
   (2, "hctiws"),
   (1, "fi"),
   (1, "if m.producerIndex.CompareAndSwap(pIndex,pIndex+2)"),
   (2, "CompareAndSwap producerIndex pIndex pIndex+2"),
   (1, "then"),
   (2, "break"),
   (1, "fi"),
   (0, "rof"),
   (0, "atomic.StorePointer &buffer.data[offset] unsafe.Pointer(t)"),
   (0, "return")]

def MPSC_pushSlowPath : List (Nat × String) :=
  [(0, "Load consumerIndex"),
   (0, "switch "),
   (1, "case cIndex+bufferCapacity>pIndex"),
   (2, "if !m.producerLimit.CompareAndSwap(producerLimit,cIndex+bufferCapacity)"),
   (3, "CompareAndSwap producerLimit producerLimit cIndex+bufferCapacity"),
   (2, "then"),
   (2, "fi"),
   (1, "case m.availableInQueue(pIndex,cIndex)<=0"),
   (1, "case m.producerIndex.CompareAndSwap(pIndex,pIndex+1)"),
   (2, "CompareAndSwap producerIndex pIndex pIndex+1"),
   (1, "default"),
   (0, "hctiws"),
   (0, "return")]

def MPSC_resize : List (Nat × String) :=
  [(0, "Store producerBuffer newBuffer"),
   (0, "Store producerMask newMask"),
   (0, "atomic.StorePointer &newBuffer.data[offsetInNew] unsafe.Pointer(t)"),
   (0, "atomic.StorePointer &oldBuffer.data[nextArrayOffset(oldMask)] unsafe.Pointer(newBuffer)"),
   (0, "Load consumerIndex"),
   (0, "if availableInQueue==0"),
   (0, "then"),
   (0, "fi"),
   (0, "Store producerLimit pIndex+min(newMask,availableInQueue)"),
   (0, "Store producerIndex pIndex+2"),
   (0, "atomic.StorePointer &oldBuffer.data[offsetInOld] m.jump")]

def MPSC_TryPop : List (Nat × String) :=
  [(0, "Load consumerBuffer"),
   (0, "Load consumerIndex"),
   (0, "Load consumerMask"),
   (0, "atomic.LoadPointer &buffer.data[offset]"),
   (0, "if v==nil"),
   (0, "then"),
   (1, "if index==m.producerIndex.Load()"),
   (2, "Load producerIndex"),
   (1, "then"),
   (2, "return"),
   (1, "fi"),
   (1, "atomic.LoadPointer &buffer.data[offset]"),
   (1, "for v==nil"),
   (2, "atomic.LoadPointer &buffer.data[offset]"),
   (1, "rof"),
   (0, "fi"),
   (0, "if v==m.jump"),
   (0, "then"),
   (1, "call getNextBuffer"),
   (1, "call newBufferTryPush"),
   (1, "return"),
   (0, "fi"),
   (0, "atomic.StorePointer &buffer.data[offset] nil"),
   (0, "Store consumerIndex index+2"),
   (0, "return")]

def MPSC_getNextBuffer : List (Nat × String) :=
  [(0, "atomic.LoadPointer &b.data[nextBufferOffset]"),
   (0, "atomic.StorePointer &b.data[nextBufferOffset] nil"),
   (0, "if nextBuffer==nil"),
   (0, "then"),
   (0, "fi"),
   (0, "return")]

def MPSC_newBufferTryPush : List (Nat × String) :=
  [(0, "call newBufferAndOffset"),
   (0, "atomic.LoadPointer &b.data[offsetInNew]"),
   (0, "if v==nil"),
   (0, "then"),
   (0, "fi"),
   (0, "atomic.StorePointer &b.data[offsetInNew] nil"),
   (0, "Store consumerIndex index+2"),
   (0, "return")]

def MPSC_newBufferAndOffset : List (Nat × String) :=
  [(0, "Store consumerBuffer b"),
   (0, "Store consumerMask mask"),
   (0, "return")]

end OtterVerif.Conc.MpscSkeleton
