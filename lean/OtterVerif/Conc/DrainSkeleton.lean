/-
  Conc.DrainSkeleton — the atomic-operation skeletons of the protocol functions of cache_impl.go that Conc.Drain was
  written against (snapshot of Gen.Skeleton, reviewed against the model's locations).  `Props.C14` proves by `decide`
  that the skeletons regenerated from the current source are equal to these: any change to the order, kind, operands or
  branch position of a status/lock/executor operation breaks that obligation.
-/
namespace OtterVerif.Conc.DrainSkeleton

def cache_afterWriteTask : List (Nat × String) :=
  [(0, "for i<writeBufferRetries"),
   (1, "if c.writeBuffer.TryPush(t)"),
   (2, "call TryPush"),
   (1, "then"),
   (2, "call scheduleAfterWrite"),
   (2, "return"),
   (1, "fi"),
   (1, "call scheduleDrainBuffers"),
   (0, "rof"),
   (0, "call performCleanUp")]

def cache_scheduleAfterWrite : List (Nat × String) :=
  [(0, "for "),
   (1, "Load drainStatus"),
   (1, "switch drainStatus"),
   (2, "case idle"),
   (3, "CompareAndSwap drainStatus idle required"),
   (3, "call scheduleDrainBuffers"),
   (3, "return"),
   (2, "case required"),
   (3, "call scheduleDrainBuffers"),
   (3, "return"),
   (2, "case processingToIdle"),
   (3, "if c.drainStatus.CompareAndSwap(processingToIdle,processingToRequired)"),
   (4, "CompareAndSwap drainStatus processingToIdle processingToRequired"),
   (3, "then"),
   (4, "return"),
   (3, "fi"),
   (2, "case processingToRequired"),
   (3, "return"),
   (2, "default"),
   (1, "hctiws"),
   (0, "rof")]

def cache_scheduleDrainBuffers : List (Nat × String) :=
  [(0, "if c.drainStatus.Load()>=processingToIdle"),
   (1, "Load drainStatus"),
   (0, "then"),
   (1, "return"),
   (0, "fi"),
   (0, "if c.evictionMutex.TryLock()"),
   (1, "TryLock evictionMutex"),
   (0, "then"),
   (1, "Load drainStatus"),
   (1, "if drainStatus>=processingToIdle"),
   (1, "then"),
   (2, "Unlock evictionMutex"),
   (2, "return"),
   (1, "fi"),
   (1, "Store drainStatus processingToIdle"),
   (1, "func{"),
   (2, "call drainBuffers"),
   (1, "}"),
   (1, "executor"),
   (1, "if token.CompareAndSwap(0,1)"),
   (2, "CompareAndSwap token 0 1"),
   (1, "then"),
   (2, "Unlock evictionMutex"),
   (1, "fi"),
   (0, "fi")]

def cache_drainBuffers : List (Nat × String) :=
  [(0, "if c.evictionMutex.TryLock()"),
   (1, "TryLock evictionMutex"),
   (0, "then"),
   (1, "call maintenance"),
   (1, "Unlock evictionMutex"),
   (1, "call rescheduleCleanUpIfIncomplete"),
   (0, "else"),
   (1, "if token.CompareAndSwap(0,1)"),
   (2, "CompareAndSwap token 0 1"),
   (1, "then"),
   (2, "call maintenance"),
   (2, "Unlock evictionMutex"),
   (2, "call rescheduleCleanUpIfIncomplete"),
   (1, "else"),
   (2, "call performCleanUp"),
   (1, "fi"),
   (0, "fi")]

def cache_performCleanUp : List (Nat × String) :=
  [(0, "Lock evictionMutex"),
   (0, "call maintenance"),
   (0, "Unlock evictionMutex"),
   (0, "call rescheduleCleanUpIfIncomplete")]

def cache_rescheduleCleanUpIfIncomplete : List (Nat × String) :=
  [(0, "if c.drainStatus.Load()!=required"),
   (1, "Load drainStatus"),
   (0, "then"),
   (1, "return"),
   (0, "fi"),
   (0, "if c.hasDefaultExecutor"),
   (0, "then"),
   (1, "call scheduleDrainBuffers"),
   (1, "return"),
   (0, "fi")]

def cache_maintenance : List (Nat × String) :=
  [(0, "Store drainStatus processingToIdle"),
   (0, "call drainReadBuffer"),
   (0, "call drainWriteBuffer"),
   (0, "call runTask"),
   (0, "call expireNodes"),
   (0, "call evictNodes"),
   (0, "call climb"),
   (0, "if c.drainStatus.Load()!=processingToIdle||!c.drainStatus.CompareAndSwap(processingToIdle,idle)"),
   (1, "Load drainStatus"),
   (1, "CompareAndSwap drainStatus processingToIdle idle"),
   (0, "then"),
   (1, "Store drainStatus required"),
   (0, "fi")]

def cache_drainWriteBuffer : List (Nat × String) :=
  [(0, "if !c.withMaintenance"),
   (0, "then"),
   (1, "return"),
   (0, "fi"),
   (0, "for i<=maxWriteBufferSize"),
   (1, "call TryPop"),
   (1, "if t==nil"),
   (1, "then"),
   (2, "return"),
   (1, "fi"),
   (1, "call runTask"),
   (0, "rof"),
   (0, "Store drainStatus processingToRequired")]

def cache_shouldDrainBuffers : List (Nat × String) :=
  [(0, "Load drainStatus"),
   (0, "switch drainStatus"),
   (1, "case idle"),
   (2, "return"),
   (1, "case required"),
   (2, "return"),
   (1, "case processingToIdle,processingToRequired"),
   (2, "return"),
   (1, "default"),
   (0, "hctiws")]

def cache_SetMaximum : List (Nat × String) :=
  [(0, "if !c.withEviction"),
   (0, "then"),
   (1, "return"),
   (0, "fi"),
   (0, "Lock evictionMutex"),
   (0, "call maintenance"),
   (0, "Unlock evictionMutex"),
   (0, "call rescheduleCleanUpIfIncomplete")]

def cache_GetMaximum : List (Nat × String) :=
  [(0, "if !c.withEviction"),
   (0, "then"),
   (1, "return"),
   (0, "fi"),
   (0, "Lock evictionMutex"),
   (0, "if c.drainStatus.Load()==required"),
   (1, "Load drainStatus"),
   (0, "then"),
   (1, "call maintenance"),
   (0, "fi"),
   (0, "Unlock evictionMutex"),
   (0, "call rescheduleCleanUpIfIncomplete"),
   (0, "return")]

def cache_WeightedSize : List (Nat × String) :=
  [(0, "if !c.isWeighted"),
   (0, "then"),
   (1, "return"),
   (0, "fi"),
   (0, "Lock evictionMutex"),
   (0, "if c.drainStatus.Load()==required"),
   (1, "Load drainStatus"),
   (0, "then"),
   (1, "call maintenance"),
   (0, "fi"),
   (0, "Unlock evictionMutex"),
   (0, "call rescheduleCleanUpIfIncomplete"),
   (0, "return")]

def cache_InvalidateAll : List (Nat × String) :=
  [(0, "Lock evictionMutex"),
   (0, "if c.withMaintenance"),
   (0, "then"),
   (1, "func{"),
   (1, "}"),
   (1, "call DrainTo"),
   (1, "for "),
   (2, "call TryPop"),
   (2, "if t==nil"),
   (2, "then"),
   (3, "break"),
   (2, "fi"),
   (2, "call runTask"),
   (1, "rof"),
   (0, "fi"),
   (0, "func{"),
   (1, "return"),
   (0, "}"),
   (0, "for len(nodes)>0&&c.writeBuffer.Size()<threshold"),
   (1, "call deleteNode"),
   (0, "rof"),
   (0, "Unlock evictionMutex"),
   (0, "call rescheduleCleanUpIfIncomplete"),
   (0, "range"),
   (1, "call Invalidate"),
   (0, "egnar")]

def cache_CleanUp : List (Nat × String) :=
  [(0, "call performCleanUp")]

def cache_afterRead : List (Nat × String) :=
  [(0, "if recordHit"),
   (0, "then"),
   (0, "fi"),
   (0, "if calcExpiresAt"),
   (0, "then"),
   (0, "fi"),
   (0, "if c.shouldDrainBuffers(delayable)"),
   (1, "call shouldDrainBuffers"),
   (0, "then"),
   (1, "call scheduleDrainBuffers"),
   (0, "fi")]

def cache_getNode : List (Nat × String) :=
  [(0, "call Get"),
   (0, "if n==nil"),
   (0, "then"),
   (1, "if c.drainStatus.Load()==required"),
   (2, "Load drainStatus"),
   (1, "then"),
   (2, "call scheduleDrainBuffers"),
   (1, "fi"),
   (1, "return"),
   (0, "fi"),
   (0, "if n.HasExpired(nowNano)"),
   (0, "then"),
   (1, "call scheduleDrainBuffers"),
   (1, "return"),
   (0, "fi"),
   (0, "call afterRead"),
   (0, "return")]

def cache_evictionOrder : List (Nat × String) :=
  [(0, "if !c.withEviction"),
   (0, "then"),
   (1, "return"),
   (0, "fi"),
   (0, "func{"),
   (1, "func{"),
   (2, "return"),
   (1, "}"),
   (1, "if hottest"),
   (1, "then"),
   (1, "else"),
   (2, "func{"),
   (3, "return"),
   (2, "}"),
   (1, "fi"),
   (1, "Lock evictionMutex"),
   (1, "defer"),
   (2, "func{"),
   (3, "Unlock evictionMutex"),
   (3, "call rescheduleCleanUpIfIncomplete"),
   (2, "}()"),
   (1, "call maintenance"),
   (1, "range"),
   (2, "if !n.IsAlive()||n.HasExpired(nowNano)"),
   (2, "then"),
   (3, "continue"),
   (2, "fi"),
   (2, "if !yield(c.nodeToEntry(n,nowNano))"),
   (2, "then"),
   (3, "return"),
   (2, "fi"),
   (1, "egnar"),
   (0, "}"),
   (0, "return")]

end OtterVerif.Conc.DrainSkeleton
