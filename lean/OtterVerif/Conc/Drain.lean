/-
  Conc.Drain — the drain-status protocol of cache_impl.go as an interleaving transition system for an UNBOUNDED
  number of threads (counter-machine encoding: one natural-number counter per thread location).

  Shared words: `ds` (drainStatus: 0 idle, 1 required, 2 processingToIdle, 3 processingToRequired), `mu` (evictionMutex,
  0/1), `wb` (number of events in the write buffer).  One step = one sync/atomic operation, mutex operation or buffer
  push/pop of the code (skeletons: Gen.Skeleton, compared with Conc.DrainSkeleton on every run).

  Locations (code position → counter):
    writer  afterWriteTask/scheduleAfterWrite:  W0 before TryPush · W1 status load · Wc01 CAS idle→required · Wc23 CAS pToIdle→pToRequired
    scheduleDrainBuffers:  S0 first load · S1 TryLock · S2 second load · S2u unlock(after ≥ processing) · S3 store pToIdle · S4 executor
                           P50 / P51 = scheduler at its token CAS paired with its drainer at TryLock / at its token CAS (token 0)
                           S6 unlock (scheduler won the token) · S5f scheduler whose token CAS will fail (drainer owns the lock now)
    drainBuffers:          D0t TryLock (token already 1) · D1t token CAS that will fail → performCleanUp
    performCleanUp / CleanUp / SetMaximum / Hottest / Coldest:  PC0 waiting for the lock
    InvalidateAll:         IA0 waiting for the lock · IA1 popping the write buffer under the lock · IA2 unlock (its later per-key Invalidate calls are writers)
    GetMaximum / WeightedSize:  G0 waiting for the lock · G1 status load under the lock · G5 unlock without maintenance
    maintenance:           M0 store pToIdle · M1 drain loop · M2 final load · M3 final CAS · M4 store required · M5 unlock
    rescheduleCleanUpIfIncomplete:  M6 status load (default executor → scheduleDrainBuffers)
-/
namespace OtterVerif.Conc.Drain

structure St where
  ds : Nat := 0
  mu : Nat := 0
  wb : Nat := 0
  W0 : Nat := 0
  W1 : Nat := 0
  Wc01 : Nat := 0
  Wc23 : Nat := 0
  S0 : Nat := 0
  S1 : Nat := 0
  S2 : Nat := 0
  S2u : Nat := 0
  S3 : Nat := 0
  S4 : Nat := 0
  P50 : Nat := 0
  P51 : Nat := 0
  S6 : Nat := 0
  S5f : Nat := 0
  D0t : Nat := 0
  D1t : Nat := 0
  PC0 : Nat := 0
  G0 : Nat := 0
  G1 : Nat := 0
  G5 : Nat := 0
  IA0 : Nat := 0
  IA1 : Nat := 0
  IA2 : Nat := 0
  M0 : Nat := 0
  M1 : Nat := 0
  M2 : Nat := 0
  M3 : Nat := 0
  M4 : Nat := 0
  M5 : Nat := 0
  M6 : Nat := 0
  deriving Repr, DecidableEq

/-- one atomic step of one thread -/
inductive Step : St → St → Prop
  -- writer
  | w_push (s : St) (h : s.W0 > 0) : Step s { s with W0 := s.W0 - 1, W1 := s.W1 + 1, wb := s.wb + 1 }
  | w_push_refused (s : St) (h : s.W0 > 0) : Step s { s with S0 := s.S0 + 1 }                 -- full buffer: scheduleDrainBuffers, retry
  | w_fallback (s : St) (h : s.W0 > 0) : Step s { s with W0 := s.W0 - 1, PC0 := s.PC0 + 1 }      -- 100 refusals: performCleanUp(own task)
  | w_load0 (s : St) (h : s.W1 > 0) (hd : s.ds = 0) : Step s { s with W1 := s.W1 - 1, Wc01 := s.Wc01 + 1 }
  | w_load1 (s : St) (h : s.W1 > 0) (hd : s.ds = 1) : Step s { s with W1 := s.W1 - 1, S0 := s.S0 + 1 }
  | w_load2 (s : St) (h : s.W1 > 0) (hd : s.ds = 2) : Step s { s with W1 := s.W1 - 1, Wc23 := s.Wc23 + 1 }
  | w_load3 (s : St) (h : s.W1 > 0) (hd : s.ds = 3) : Step s { s with W1 := s.W1 - 1 }
  | w_cas01_ok (s : St) (h : s.Wc01 > 0) (hd : s.ds = 0) : Step s { s with Wc01 := s.Wc01 - 1, S0 := s.S0 + 1, ds := 1 }
  | w_cas01_fail (s : St) (h : s.Wc01 > 0) (hd : s.ds ≠ 0) : Step s { s with Wc01 := s.Wc01 - 1, S0 := s.S0 + 1 }
  | w_cas23_ok (s : St) (h : s.Wc23 > 0) (hd : s.ds = 2) : Step s { s with Wc23 := s.Wc23 - 1, ds := 3 }
  | w_cas23_fail (s : St) (h : s.Wc23 > 0) (hd : s.ds ≠ 2) : Step s { s with Wc23 := s.Wc23 - 1, W1 := s.W1 + 1 }
  -- scheduleDrainBuffers
  | s_load_busy (s : St) (h : s.S0 > 0) (hd : s.ds ≥ 2) : Step s { s with S0 := s.S0 - 1 }
  | s_load_go (s : St) (h : s.S0 > 0) (hd : s.ds < 2) : Step s { s with S0 := s.S0 - 1, S1 := s.S1 + 1 }
  | s_trylock_ok (s : St) (h : s.S1 > 0) (hm : s.mu = 0) : Step s { s with S1 := s.S1 - 1, S2 := s.S2 + 1, mu := 1 }
  | s_trylock_fail (s : St) (h : s.S1 > 0) (hm : s.mu = 1) : Step s { s with S1 := s.S1 - 1 }
  | s_load2_busy (s : St) (h : s.S2 > 0) (hd : s.ds ≥ 2) : Step s { s with S2 := s.S2 - 1, S2u := s.S2u + 1 }
  | s_load2_go (s : St) (h : s.S2 > 0) (hd : s.ds < 2) : Step s { s with S2 := s.S2 - 1, S3 := s.S3 + 1 }
  | s_unlock_busy (s : St) (h : s.S2u > 0) : Step s { s with S2u := s.S2u - 1, mu := 0 }
  | s_store (s : St) (h : s.S3 > 0) : Step s { s with S3 := s.S3 - 1, S4 := s.S4 + 1, ds := 2 }
  | s_spawn (s : St) (h : s.S4 > 0) : Step s { s with S4 := s.S4 - 1, P50 := s.P50 + 1 }
  -- scheduler/drainer pair while the token is 0
  | p_drainer_trylock_fail (s : St) (h : s.P50 > 0) : Step s { s with P50 := s.P50 - 1, P51 := s.P51 + 1 }
  | p_sched_wins_0 (s : St) (h : s.P50 > 0) : Step s { s with P50 := s.P50 - 1, S6 := s.S6 + 1, D0t := s.D0t + 1 }
  | p_sched_wins_1 (s : St) (h : s.P51 > 0) : Step s { s with P51 := s.P51 - 1, S6 := s.S6 + 1, D1t := s.D1t + 1 }
  | p_drainer_wins (s : St) (h : s.P51 > 0) : Step s { s with P51 := s.P51 - 1, M0 := s.M0 + 1, S5f := s.S5f + 1 }
  | s_unlock (s : St) (h : s.S6 > 0) : Step s { s with S6 := s.S6 - 1, mu := 0 }
  | s_token_lost (s : St) (h : s.S5f > 0) : Step s { s with S5f := s.S5f - 1 }
  -- drainBuffers after the token was taken by the scheduler
  | d_trylock_ok (s : St) (h : s.D0t > 0) (hm : s.mu = 0) : Step s { s with D0t := s.D0t - 1, M0 := s.M0 + 1, mu := 1 }
  | d_trylock_fail (s : St) (h : s.D0t > 0) (hm : s.mu = 1) : Step s { s with D0t := s.D0t - 1, D1t := s.D1t + 1 }
  | d_token_lost (s : St) (h : s.D1t > 0) : Step s { s with D1t := s.D1t - 1, PC0 := s.PC0 + 1 }
  -- performCleanUp and the other callers that lock, maintain, unlock, reschedule
  | pc_lock (s : St) (h : s.PC0 > 0) (hm : s.mu = 0) : Step s { s with PC0 := s.PC0 - 1, M0 := s.M0 + 1, mu := 1 }
  -- GetMaximum / WeightedSize
  | g_lock (s : St) (h : s.G0 > 0) (hm : s.mu = 0) : Step s { s with G0 := s.G0 - 1, G1 := s.G1 + 1, mu := 1 }
  | g_load_required (s : St) (h : s.G1 > 0) (hd : s.ds = 1) : Step s { s with G1 := s.G1 - 1, M0 := s.M0 + 1 }
  | g_load_other (s : St) (h : s.G1 > 0) (hd : s.ds ≠ 1) : Step s { s with G1 := s.G1 - 1, G5 := s.G5 + 1 }
  | g_unlock (s : St) (h : s.G5 > 0) : Step s { s with G5 := s.G5 - 1, M6 := s.M6 + 1, mu := 0 }
  -- InvalidateAll: lock, pop and apply the buffered events directly (no status change), unlock, reschedule
  | ia_lock (s : St) (h : s.IA0 > 0) (hm : s.mu = 0) : Step s { s with IA0 := s.IA0 - 1, IA1 := s.IA1 + 1, mu := 1 }
  | ia_pop (s : St) (h : s.IA1 > 0) (hw : s.wb > 0) : Step s { s with wb := s.wb - 1 }
  | ia_done (s : St) (h : s.IA1 > 0) : Step s { s with IA1 := s.IA1 - 1, IA2 := s.IA2 + 1 }
  | ia_unlock (s : St) (h : s.IA2 > 0) : Step s { s with IA2 := s.IA2 - 1, M6 := s.M6 + 1, mu := 0 }
  -- maintenance
  | m_store (s : St) (h : s.M0 > 0) : Step s { s with M0 := s.M0 - 1, M1 := s.M1 + 1, ds := 2 }
  | m_pop (s : St) (h : s.M1 > 0) (hw : s.wb > 0) : Step s { s with wb := s.wb - 1 }
  | m_drained (s : St) (h : s.M1 > 0) (hw : s.wb = 0) : Step s { s with M1 := s.M1 - 1, M2 := s.M2 + 1 }
  | m_drain_bound (s : St) (h : s.M1 > 0) : Step s { s with M1 := s.M1 - 1, M2 := s.M2 + 1, ds := 3 }   -- maxWriteBufferSize+1 pops
  | m_load_idle (s : St) (h : s.M2 > 0) (hd : s.ds = 2) : Step s { s with M2 := s.M2 - 1, M3 := s.M3 + 1 }
  | m_load_marked (s : St) (h : s.M2 > 0) (hd : s.ds ≠ 2) : Step s { s with M2 := s.M2 - 1, M4 := s.M4 + 1 }
  | m_cas_ok (s : St) (h : s.M3 > 0) (hd : s.ds = 2) : Step s { s with M3 := s.M3 - 1, M5 := s.M5 + 1, ds := 0 }
  | m_cas_fail (s : St) (h : s.M3 > 0) (hd : s.ds ≠ 2) : Step s { s with M3 := s.M3 - 1, M4 := s.M4 + 1 }
  | m_store_required (s : St) (h : s.M4 > 0) : Step s { s with M4 := s.M4 - 1, M5 := s.M5 + 1, ds := 1 }
  | m_unlock (s : St) (h : s.M5 > 0) : Step s { s with M5 := s.M5 - 1, M6 := s.M6 + 1, mu := 0 }
  -- rescheduleCleanUpIfIncomplete (default executor)
  | r_load_required (s : St) (h : s.M6 > 0) (hd : s.ds = 1) : Step s { s with M6 := s.M6 - 1, S0 := s.S0 + 1 }
  | r_load_other (s : St) (h : s.M6 > 0) (hd : s.ds ≠ 1) : Step s { s with M6 := s.M6 - 1 }

inductive Reach (init : St) : St → Prop
  | init : Reach init init
  | step {s s' : St} : Reach init s → Step s s' → Reach init s'

/-- an initial configuration: any number of writers, readers/schedulers, CleanUp-like callers and
    GetMaximum-like callers, nobody inside the protocol, status idle, lock free, buffer empty -/
def Initial (s : St) : Prop :=
  s.ds = 0 ∧ s.mu = 0 ∧ s.wb = 0 ∧ s.W1 = 0 ∧ s.Wc01 = 0 ∧ s.Wc23 = 0 ∧ s.S1 = 0 ∧ s.S2 = 0 ∧ s.S2u = 0 ∧ s.S3 = 0 ∧
  s.S4 = 0 ∧ s.P50 = 0 ∧ s.P51 = 0 ∧ s.S6 = 0 ∧ s.S5f = 0 ∧ s.D0t = 0 ∧ s.D1t = 0 ∧ s.G1 = 0 ∧ s.G5 = 0 ∧ s.IA1 = 0 ∧ s.IA2 = 0 ∧ s.M0 = 0 ∧ s.M1 = 0 ∧
  s.M2 = 0 ∧ s.M3 = 0 ∧ s.M4 = 0 ∧ s.M5 = 0 ∧ s.M6 = 0

/-- every thread has returned -/
def Quiescent (s : St) : Prop :=
  s.W0 = 0 ∧ s.W1 = 0 ∧ s.Wc01 = 0 ∧ s.Wc23 = 0 ∧ s.S0 = 0 ∧ s.S1 = 0 ∧ s.S2 = 0 ∧ s.S2u = 0 ∧ s.S3 = 0 ∧ s.S4 = 0 ∧
  s.P50 = 0 ∧ s.P51 = 0 ∧ s.S6 = 0 ∧ s.S5f = 0 ∧ s.D0t = 0 ∧ s.D1t = 0 ∧ s.PC0 = 0 ∧ s.G0 = 0 ∧ s.G1 = 0 ∧ s.G5 = 0 ∧ s.IA0 = 0 ∧ s.IA1 = 0 ∧ s.IA2 = 0 ∧
  s.M0 = 0 ∧ s.M1 = 0 ∧ s.M2 = 0 ∧ s.M3 = 0 ∧ s.M4 = 0 ∧ s.M5 = 0 ∧ s.M6 = 0

/-- threads that will (still) execute the drain loop of a maintenance -/
def futureDrain (s : St) : Nat := s.S3 + s.S4 + s.P50 + s.P51 + s.D0t + s.D1t + s.PC0 + s.M0 + s.M1

/-- the inductive invariant -/
def DInv (s : St) : Prop :=
  s.ds ≤ 3 ∧ s.mu ≤ 1 ∧
  -- (A) the lock is held iff exactly one thread is inside a critical section (the token hand-off moves ownership)
  s.mu = s.S2 + s.S2u + s.S3 + s.S4 + s.P50 + s.P51 + s.S6 + s.G1 + s.G5 + s.IA1 + s.IA2 + s.M0 + s.M1 + s.M2 + s.M3 + s.M4 + s.M5 ∧
  -- (H) what lock holders know about the status word
  (s.S2u + s.S4 + s.P50 + s.P51 + s.S6 + s.M1 + s.M2 + s.M3 ≥ 1 → s.ds ≥ 2) ∧
  (s.M4 ≥ 1 → s.ds = 3) ∧
  (s.S3 + s.M5 ≥ 1 → s.ds ≤ 1) ∧
  -- (B) a "processing" status always has a thread that will reset it
  (s.ds ≥ 2 → s.S4 + s.P50 + s.P51 + s.D0t + s.D1t + s.PC0 + s.M0 + s.M1 + s.M2 + s.M3 + s.M4 ≥ 1) ∧
  -- (I0) idle: every buffered event belongs to a writer that has not finished scheduling, or a drain is still to come
  (s.ds = 0 → s.wb ≤ s.W1 + s.Wc01 + s.Wc23 ∨ futureDrain s ≥ 1) ∧
  -- (I1) required: somebody will schedule or run a maintenance
  (s.ds = 1 → futureDrain s + s.W1 + s.Wc01 + s.Wc23 + s.S0 + s.S1 + s.S2 + s.G1 + s.G5 + s.IA1 + s.IA2 + s.M5 + s.M6 ≥ 1) ∧
  -- (I2) processing-to-idle: buffered events are owned by writers that will still mark the status, or a drain is still to come
  (s.ds = 2 → s.wb ≤ s.W1 + s.Wc23 ∨ futureDrain s ≥ 1) ∧
  -- (I3) processing-to-required: a drain is still to come, or the running maintenance will convert the mark to `required`
  (s.ds = 3 → futureDrain s + s.M2 + s.M3 + s.M4 ≥ 1)

theorem inv_init (s : St) (h : Initial s) : DInv s := by
  unfold Initial at h
  unfold DInv futureDrain
  omega

set_option maxHeartbeats 8000000 in
theorem inv_step (s s' : St) (hi : DInv s) (hs : Step s s') : DInv s' := by
  cases hs <;> simp only [DInv, futureDrain] at * <;> omega

theorem inv_reach (init s : St) (h0 : Initial init) (hr : Reach init s) : DInv s := by
  induction hr with
  | init => exact inv_init _ h0
  | step _ hs ih => exact inv_step _ _ ih hs

/-- C14, safety form of "maintenance is never stranded": in every reachable configuration in which all threads have
    returned, the status is idle and the write buffer is empty -/
theorem no_stranded (init s : St) (h0 : Initial init) (hr : Reach init s) (hq : Quiescent s) : s.ds = 0 ∧ s.wb = 0 := by
  have hi := inv_reach init s h0 hr
  unfold DInv futureDrain at hi
  unfold Quiescent at hq
  omega

/-- deadlock freedom: a configuration that is not quiescent has an enabled step (blocking lock acquisitions wait only for
    a holder, and every holder can step) -/
theorem progress (s : St) (hi : DInv s) (hq : ¬ Quiescent s) : ∃ s', Step s s' := by
  have hds : s.ds ≤ 3 := hi.1
  have hmu : s.mu ≤ 1 := hi.2.1
  have hA := hi.2.2.1
  -- threads that never block
  by_cases h : s.W0 > 0; · exact ⟨_, Step.w_push s h⟩
  by_cases h : s.W1 > 0
  · rcases (by omega : s.ds = 0 ∨ s.ds = 1 ∨ s.ds = 2 ∨ s.ds = 3) with hd | hd | hd | hd
    · exact ⟨_, Step.w_load0 s h hd⟩
    · exact ⟨_, Step.w_load1 s h hd⟩
    · exact ⟨_, Step.w_load2 s h hd⟩
    · exact ⟨_, Step.w_load3 s h hd⟩
  by_cases h : s.Wc01 > 0
  · by_cases hd : s.ds = 0
    · exact ⟨_, Step.w_cas01_ok s h hd⟩
    · exact ⟨_, Step.w_cas01_fail s h hd⟩
  by_cases h : s.Wc23 > 0
  · by_cases hd : s.ds = 2
    · exact ⟨_, Step.w_cas23_ok s h hd⟩
    · exact ⟨_, Step.w_cas23_fail s h hd⟩
  by_cases h : s.S0 > 0
  · by_cases hd : s.ds ≥ 2
    · exact ⟨_, Step.s_load_busy s h hd⟩
    · exact ⟨_, Step.s_load_go s h (by omega)⟩
  by_cases h : s.S1 > 0
  · rcases (by omega : s.mu = 0 ∨ s.mu = 1) with hm | hm
    · exact ⟨_, Step.s_trylock_ok s h hm⟩
    · exact ⟨_, Step.s_trylock_fail s h hm⟩
  by_cases h : s.S2 > 0
  · by_cases hd : s.ds ≥ 2
    · exact ⟨_, Step.s_load2_busy s h hd⟩
    · exact ⟨_, Step.s_load2_go s h (by omega)⟩
  by_cases h : s.S2u > 0; · exact ⟨_, Step.s_unlock_busy s h⟩
  by_cases h : s.S3 > 0; · exact ⟨_, Step.s_store s h⟩
  by_cases h : s.S4 > 0; · exact ⟨_, Step.s_spawn s h⟩
  by_cases h : s.P50 > 0; · exact ⟨_, Step.p_sched_wins_0 s h⟩
  by_cases h : s.P51 > 0; · exact ⟨_, Step.p_sched_wins_1 s h⟩
  by_cases h : s.S6 > 0; · exact ⟨_, Step.s_unlock s h⟩
  by_cases h : s.S5f > 0; · exact ⟨_, Step.s_token_lost s h⟩
  by_cases h : s.D0t > 0
  · rcases (by omega : s.mu = 0 ∨ s.mu = 1) with hm | hm
    · exact ⟨_, Step.d_trylock_ok s h hm⟩
    · exact ⟨_, Step.d_trylock_fail s h hm⟩
  by_cases h : s.D1t > 0; · exact ⟨_, Step.d_token_lost s h⟩
  by_cases h : s.G1 > 0
  · by_cases hd : s.ds = 1
    · exact ⟨_, Step.g_load_required s h hd⟩
    · exact ⟨_, Step.g_load_other s h hd⟩
  by_cases h : s.G5 > 0; · exact ⟨_, Step.g_unlock s h⟩
  by_cases h : s.IA1 > 0; · exact ⟨_, Step.ia_done s h⟩
  by_cases h : s.IA2 > 0; · exact ⟨_, Step.ia_unlock s h⟩
  by_cases h : s.M0 > 0; · exact ⟨_, Step.m_store s h⟩
  by_cases h : s.M1 > 0; · exact ⟨_, Step.m_drain_bound s h⟩
  by_cases h : s.M2 > 0
  · by_cases hd : s.ds = 2
    · exact ⟨_, Step.m_load_idle s h hd⟩
    · exact ⟨_, Step.m_load_marked s h hd⟩
  by_cases h : s.M3 > 0
  · by_cases hd : s.ds = 2
    · exact ⟨_, Step.m_cas_ok s h hd⟩
    · exact ⟨_, Step.m_cas_fail s h hd⟩
  by_cases h : s.M4 > 0; · exact ⟨_, Step.m_store_required s h⟩
  by_cases h : s.M5 > 0; · exact ⟨_, Step.m_unlock s h⟩
  by_cases h : s.M6 > 0
  · by_cases hd : s.ds = 1
    · exact ⟨_, Step.r_load_required s h hd⟩
    · exact ⟨_, Step.r_load_other s h hd⟩
  -- only threads waiting for the lock are left: the lock is free, because no holder is left (A)
  have hfree : s.mu = 0 := by omega
  by_cases h : s.PC0 > 0; · exact ⟨_, Step.pc_lock s h hfree⟩
  by_cases h : s.G0 > 0; · exact ⟨_, Step.g_lock s h hfree⟩
  by_cases h : s.IA0 > 0; · exact ⟨_, Step.ia_lock s h hfree⟩
  exfalso; apply hq; unfold Quiescent; omega

end OtterVerif.Conc.Drain

