/-
  Conc.MpscConc — interleaving model of the growable MPSC write buffer (internal/deque/queue/mpsc.go) at the level of
  positions: unboundedly many producers, the single consumer, any number of growth steps.

  A position is pIndex/2.  Buffer b has `size b` element cells (position p of buffer b uses cell p mod size b; Props.C16 shows
  that modifiedCalcElementOffset computes exactly that) and a capacity `cap b` = size b - 1 (one cell is needed for the JUMP
  marker) unless it is the largest buffer (size b = M), whose capacity is M.
    limit cs     pushSlowPath: a producer that read the consumer index cs (possibly stale: cs ≤ C) raises producerLimit
    reserve x    CAS producerIndex P → P+1 below the limit: the producer owns position P in the current producer buffer
    publish p    the owner stores its element into the cell of p
    rzStart cs   the buffer is full and may grow: CAS producerIndex to the odd (locked) value
    rzBody x cs  resize: new buffer allocated, x stored at position P in it, old buffer linked, limit set, index released
    rzJump b     resize, last store: JUMP marker into the old buffer's cell of the resize position
    cTake        the consumer finds position C published in its buffer: takes it
    cJump        the consumer finds the JUMP marker at position C: follows the link
  Cells are implicit; the invariant proves that no two positions that are reserved and not yet consumed (nor a JUMP marker)
  ever share a cell — the abstraction loses nothing.
-/
namespace OtterVerif.Conc.MpscConc

structure St where
  P : Nat := 0                          -- next position to reserve
  rz : Bool := false                    -- a producer holds the resize lock (producerIndex odd)
  rcs : Nat := 0                        -- the consumer index that producer had read when it took the lock
  C : Nat := 0                          -- next position to consume
  L : Nat := 0                          -- producerLimit
  nb : Nat := 1                         -- number of buffers allocated; the producer buffer is nb - 1
  cb : Nat := 0                         -- the consumer's buffer
  first : Nat → Nat := fun _ => 0       -- first position living in buffer b
  jumped : Nat → Bool := fun _ => false -- the JUMP marker has been stored into buffer b
  pub : Nat → Bool := fun _ => false    -- position p has been published
  bufOf : Nat → Nat := fun _ => 0       -- the buffer position p lives in
  val : Nat → Nat := fun _ => 0
  delivered : List Nat := []

def upd {α : Type} (f : Nat → α) (i : Nat) (v : α) : Nat → α := fun j => if j = i then v else f j
@[simp] theorem upd_self {α : Type} (f : Nat → α) (i : Nat) (v : α) : upd f i v i = v := by simp [upd]
theorem upd_other {α : Type} (f : Nat → α) (i j : Nat) (v : α) (h : j ≠ i) : upd f i v j = f j := by simp [upd, h]

/-- the geometry of the buffers: sizes double up to the maximum M -/
structure Geo where
  size : Nat → Nat
  M : Nat
  pos : ∀ b, 2 ≤ size b
  dbl : ∀ b, size (b + 1) = 2 * size b
  le : size 0 ≤ M
  /-- M is size 0 times a power of two: doubling a buffer below the maximum does not overshoot it -/
  dblM : ∀ b, size b < M → size (b + 1) ≤ M

def Geo.cap (g : Geo) (b : Nat) : Nat := if g.size b = g.M then g.M else g.size b - 1

inductive Step (g : Geo) : St → St → Prop
  | limit (s : St) (cs : Nat) : s.rz = false → s.L ≤ s.P → cs ≤ s.C → s.P < cs + g.cap (s.nb - 1) →
      Step g s { s with L := cs + g.cap (s.nb - 1) }
  | reserve (s : St) (x : Nat) : s.rz = false → s.P < s.L →
      Step g s { s with P := s.P + 1, bufOf := upd s.bufOf s.P (s.nb - 1), val := upd s.val s.P x, pub := upd s.pub s.P false }
  | publish (s : St) (p : Nat) : p < s.P → s.pub p = false →
      Step g s { s with pub := upd s.pub p true }
  | rzStart (s : St) (cs : Nat) : s.rz = false → s.L ≤ s.P → cs ≤ s.C → cs + g.cap (s.nb - 1) ≤ s.P → s.P - cs < g.M →
      g.size (s.nb - 1) < g.M → Step g s { s with rz := true, rcs := cs }
  | rzBody (s : St) (x cs : Nat) : s.rz = true → s.rcs ≤ cs → cs ≤ s.C →
      Step g s { s with rz := false, first := upd s.first s.nb s.P, bufOf := upd s.bufOf s.P s.nb, val := upd s.val s.P x,
                        pub := upd s.pub s.P true, L := s.P + min (g.cap s.nb) (g.M - (s.P - cs)), nb := s.nb + 1, P := s.P + 1 }
  | rzJump (s : St) (b : Nat) : b + 1 < s.nb → s.jumped b = false →
      Step g s { s with jumped := upd s.jumped b true }
  | cTake (s : St) : s.C < s.P → s.pub s.C = true → s.bufOf s.C = s.cb →
      Step g s { s with C := s.C + 1, delivered := s.delivered ++ [s.val s.C] }
  | cJump (s : St) : s.cb + 1 < s.nb → s.C = s.first (s.cb + 1) → s.jumped s.cb = true →
      Step g s { s with cb := s.cb + 1 }

inductive Reach (g : Geo) : St → Prop
  | init : Reach g { L := g.size 0 - 1 }
  | step {s s' : St} : Reach g s → Step g s s' → Reach g s'


theorem Geo.cap_le (g : Geo) (b : Nat) : g.cap b ≤ g.size b := by
  unfold Geo.cap; split
  · rename_i h; omega
  · omega

theorem Geo.cap_pos (g : Geo) (b : Nat) : 1 ≤ g.cap b := by
  have := g.pos b
  unfold Geo.cap; split
  · rename_i h; omega
  · omega

structure InvC (g : Geo) (P : Nat) (rz : Bool) (rcs C L nb cb : Nat) (first : Nat → Nat) (jumped pub : Nat → Bool)
    (bufOf val : Nat → Nat) (delivered : List Nat) : Prop where
  o1 : C ≤ P
  o2 : P ≤ L
  o3 : L ≤ max C (first (nb - 1)) + g.cap (nb - 1)
  rzi : rz = true → P - rcs < g.M ∧ rcs ≤ C ∧ g.size (nb - 1) < g.M ∧ L ≤ P
  o4a : 1 ≤ nb
  o4b : ∀ b, b + 1 < nb → first b ≤ first (b + 1)
  o4c : first (nb - 1) ≤ P
  /-- an older buffer never holds more unconsumed positions than it has cells, the JUMP marker's cell included -/
  o5 : ∀ b, b + 1 < nb → first (b + 1) - max C (first b) ≤ g.size b - 1
  /-- every reserved, unconsumed position lives in the buffer whose range contains it -/
  o6 : ∀ p, C ≤ p → p < P → bufOf p < nb ∧ first (bufOf p) ≤ p ∧ (bufOf p + 1 < nb → p < first (bufOf p + 1))
  /-- the consumer's buffer is the one whose range contains its position, or the one before if it stands at the JUMP -/
  o7 : cb < nb ∧ first cb ≤ C ∧ (cb + 1 < nb → C ≤ first (cb + 1))
  /-- everything handed over so far: the elements of positions 0 .. C-1, each once, in order -/
  o8 : delivered = (List.range C).map val
  o9 : ∀ b, jumped b = true → b + 1 < nb

def Inv (g : Geo) (s : St) : Prop :=
  InvC g s.P s.rz s.rcs s.C s.L s.nb s.cb s.first s.jumped s.pub s.bufOf s.val s.delivered

theorem inv_init (g : Geo) : Inv g { L := g.size 0 - 1 } := by
  have hp := g.pos 0
  have hc : g.size 0 - 1 ≤ g.cap 0 := by
    unfold Geo.cap; split <;> omega
  show InvC g 0 false 0 0 (g.size 0 - 1) 1 0 (fun _ => 0) (fun _ => false) (fun _ => false) (fun _ => 0) (fun _ => 0) []
  refine ⟨Nat.le_refl _, Nat.zero_le _, ?_, fun h => (by cases h), Nat.le_refl _, fun b hb => (by omega), Nat.zero_le _,
    fun b hb => (by omega), fun p _ hp => absurd hp (Nat.not_lt_zero _), ⟨by omega, Nat.le_refl _, fun h => (by omega)⟩, rfl,
    fun b h => (by cases h)⟩
  show g.size 0 - 1 ≤ max 0 0 + g.cap 0
  omega


theorem cap_of_lt (g : Geo) (b : Nat) (h : g.size b < g.M) : g.cap b = g.size b - 1 := by
  unfold Geo.cap; rw [if_neg (by omega)]

theorem inv_step (g : Geo) {s s' : St} (hi : Inv g s) (hs : Step g s s') : Inv g s' := by
  obtain ⟨o1, o2, o3, rzi, o4a, o4b, o4c, o5, o6, o7, o8, o9⟩ := hi
  cases hs with
  | limit cs hr hl hcs hlt =>
    show InvC g s.P s.rz s.rcs s.C (cs + g.cap (s.nb - 1)) s.nb s.cb s.first s.jumped s.pub s.bufOf s.val s.delivered
    refine ⟨o1, by omega, by omega, fun h => (by rw [hr] at h; cases h), o4a, o4b, o4c, o5, o6, o7, o8, o9⟩
  | reserve x hr hlt =>
    show InvC g (s.P + 1) s.rz s.rcs s.C s.L s.nb s.cb s.first s.jumped (upd s.pub s.P false) (upd s.bufOf s.P (s.nb - 1))
      (upd s.val s.P x) s.delivered
    refine ⟨by omega, by omega, o3, fun h => (by rw [hr] at h; cases h), o4a, o4b, by omega, o5, fun p hp1 hp2 => ?_, o7, ?_, o9⟩
    · by_cases e : p = s.P
      · subst e
        rw [upd_self]
        exact ⟨by omega, o4c, fun h => (by omega)⟩
      · rw [upd_other _ _ _ _ e]; exact o6 p hp1 (by omega)
    · rw [o8]
      apply List.map_congr_left
      intro a ha
      have : a < s.C := List.mem_range.mp ha
      rw [upd_other _ _ _ _ (by omega)]
  | publish p hp hpb =>
    show InvC g s.P s.rz s.rcs s.C s.L s.nb s.cb s.first s.jumped (upd s.pub p true) s.bufOf s.val s.delivered
    exact ⟨o1, o2, o3, rzi, o4a, o4b, o4c, o5, o6, o7, o8, o9⟩
  | rzStart cs hr hl hcs hfull hav hsz =>
    show InvC g s.P true cs s.C s.L s.nb s.cb s.first s.jumped s.pub s.bufOf s.val s.delivered
    exact ⟨o1, o2, o3, fun _ => ⟨hav, hcs, hsz, hl⟩, o4a, o4b, o4c, o5, o6, o7, o8, o9⟩
  | rzBody x cs hr hrcs hcs =>
    show InvC g (s.P + 1) false s.rcs s.C (s.P + min (g.cap s.nb) (g.M - (s.P - cs))) (s.nb + 1) s.cb (upd s.first s.nb s.P)
      s.jumped (upd s.pub s.P true) (upd s.bufOf s.P s.nb) (upd s.val s.P x) s.delivered
    obtain ⟨hav, hrc, hsz, hlp⟩ := rzi hr
    have hcap := g.cap_pos s.nb
    have hcapold := cap_of_lt g (s.nb - 1) hsz
    have hnn : s.nb + 1 - 1 = s.nb := by omega
    refine ⟨by omega, by omega, ?_, fun h => (by cases h), by omega, fun b hb => ?_, ?_, fun b hb => ?_, fun p hp1 hp2 => ?_, ?_, ?_,
      fun b hb => (by have := o9 b hb; omega)⟩
    · rw [hnn, upd_self]; omega
    · by_cases e : b + 1 = s.nb
      · have e1 : b ≠ s.nb := by omega
        rw [upd_other _ _ _ _ e1, e, upd_self]
        have : b = s.nb - 1 := by omega
        rw [this]; exact o4c
      · have e1 : b ≠ s.nb := by omega
        have e2 : b + 1 ≠ s.nb := e
        rw [upd_other _ _ _ _ e1, upd_other _ _ _ _ e2]
        exact o4b b (by omega)
    · rw [hnn, upd_self]; omega
    · by_cases e : b + 1 = s.nb
      · have e1 : b ≠ s.nb := by omega
        rw [upd_other _ _ _ _ e1, e, upd_self]
        have hb' : b = s.nb - 1 := by omega
        rw [hb']
        omega
      · have e1 : b ≠ s.nb := by omega
        have e2 : b + 1 ≠ s.nb := e
        rw [upd_other _ _ _ _ e1, upd_other _ _ _ _ e2]
        exact o5 b (by omega)
    · by_cases e : p = s.P
      · subst e
        rw [upd_self, upd_self]
        exact ⟨by omega, Nat.le_refl _, fun h => (by omega)⟩
      · rw [upd_other _ _ _ _ e]
        have h6 := o6 p hp1 (by omega)
        have e1 : s.bufOf p ≠ s.nb := by omega
        rw [upd_other _ _ _ _ e1]
        refine ⟨by omega, h6.2.1, fun h => ?_⟩
        by_cases e2 : s.bufOf p + 1 = s.nb
        · rw [e2, upd_self]; omega
        · rw [upd_other _ _ _ _ e2]; exact h6.2.2 (by omega)
    · have e1 : s.cb ≠ s.nb := by omega
      rw [upd_other _ _ _ _ e1]
      refine ⟨by omega, o7.2.1, fun h => ?_⟩
      by_cases e2 : s.cb + 1 = s.nb
      · rw [e2, upd_self]; exact o1
      · rw [upd_other _ _ _ _ e2]; exact o7.2.2 (by omega)
    · rw [o8]
      apply List.map_congr_left
      intro a ha
      have : a < s.C := List.mem_range.mp ha
      rw [upd_other _ _ _ _ (by omega)]
  | rzJump b hb hj =>
    show InvC g s.P s.rz s.rcs s.C s.L s.nb s.cb s.first (upd s.jumped b true) s.pub s.bufOf s.val s.delivered
    refine ⟨o1, o2, o3, rzi, o4a, o4b, o4c, o5, o6, o7, o8, fun j hj' => ?_⟩
    by_cases e : j = b
    · rw [e]; exact hb
    · rw [upd_other _ _ _ _ e] at hj'; exact o9 j hj'
  | cTake hlt hpub hbuf =>
    show InvC g s.P s.rz s.rcs (s.C + 1) s.L s.nb s.cb s.first s.jumped s.pub s.bufOf s.val (s.delivered ++ [s.val s.C])
    have h6 := o6 s.C (Nat.le_refl _) hlt
    rw [hbuf] at h6
    refine ⟨by omega, o2, by omega, fun h => ?_, o4a, o4b, o4c, fun b hb => ?_, fun p hp1 hp2 => o6 p (by omega) hp2, ?_, ?_, o9⟩
    · have := rzi h; exact ⟨this.1, by omega, this.2.2.1, this.2.2.2⟩
    · have := o5 b hb; omega
    · exact ⟨o7.1, by omega, fun h => (by have := h6.2.2 h; omega)⟩
    · rw [List.range_succ, List.map_append, o8]; rfl
  | cJump hb he hj =>
    show InvC g s.P s.rz s.rcs s.C s.L s.nb (s.cb + 1) s.first s.jumped s.pub s.bufOf s.val s.delivered
    refine ⟨o1, o2, o3, rzi, o4a, o4b, o4c, o5, o6, ⟨hb, by omega, fun h => ?_⟩, o8, o9⟩
    have := o4b (s.cb + 1) h
    omega

theorem reach_inv (g : Geo) {s : St} (h : Reach g s) : Inv g s := by
  induction h with
  | init => exact inv_init g
  | step _ hs ih => exact inv_step g ih hs


/-! ### the queue never holds more than its maximum -/

def Bound (g : Geo) (s : St) : Prop := s.L ≤ s.C + g.M ∧ g.size (s.nb - 1) ≤ g.M

theorem bound_step (g : Geo) {s s' : St} (hi : Inv g s) (hb : Bound g s) (hs : Step g s s') : Bound g s' := by
  obtain ⟨o1, o2, o3, rzi, o4a, o4b, o4c, o5, o6, o7, o8, o9⟩ := hi
  obtain ⟨b1, b2⟩ := hb
  cases hs with
  | limit cs hr hl hcs hlt =>
    show cs + g.cap (s.nb - 1) ≤ s.C + g.M ∧ g.size (s.nb - 1) ≤ g.M
    have := g.cap_le (s.nb - 1)
    exact ⟨by omega, b2⟩
  | reserve x hr hlt => exact ⟨b1, b2⟩
  | publish p hp hpb => exact ⟨b1, b2⟩
  | rzStart cs hr hl hcs hfull hav hsz => exact ⟨b1, b2⟩
  | rzBody x cs hr hrcs hcs =>
    show s.P + min (g.cap s.nb) (g.M - (s.P - cs)) ≤ s.C + g.M ∧ g.size (s.nb + 1 - 1) ≤ g.M
    obtain ⟨hav, hrc, hsz, hlp⟩ := rzi hr
    have e : s.nb + 1 - 1 = (s.nb - 1) + 1 := by omega
    refine ⟨by omega, ?_⟩
    rw [e]; exact g.dblM _ hsz
  | rzJump b hb' hj => exact ⟨b1, b2⟩
  | cTake hlt hpub hbuf =>
    show s.L ≤ s.C + 1 + g.M ∧ g.size (s.nb - 1) ≤ g.M
    exact ⟨by omega, b2⟩
  | cJump hb' he hj => exact ⟨b1, b2⟩

theorem reach_bound (g : Geo) {s : St} (h : Reach g s) : Bound g s := by
  induction h with
  | init =>
    show g.size 0 - 1 ≤ 0 + g.M ∧ g.size (1 - 1) ≤ g.M
    have := g.le
    exact ⟨by omega, this⟩
  | step hr hs ih => exact bound_step g (reach_inv g hr) ih hs

/-! ### no two live positions share a cell -/

theorem mod_ne_of_lt (p q n : Nat) (h1 : p < q) (h2 : q - p < n) : p % n ≠ q % n := by
  intro e
  have hn : 0 < n := by omega
  have hq : q = p + (q - p) := by omega
  have hr := Nat.mod_lt p hn
  rw [hq, Nat.add_mod, Nat.mod_eq_of_lt h2] at e
  by_cases hlt : p % n + (q - p) < n
  · rw [Nat.mod_eq_of_lt hlt] at e; omega
  · have h3 : (p % n + (q - p)) % n = p % n + (q - p) - n := by
      rw [Nat.mod_eq_sub_mod (by omega)]
      exact Nat.mod_eq_of_lt (by omega)
    rw [h3] at e; omega

/-- two reserved, unconsumed positions of the same buffer use different cells -/
theorem cells_distinct (g : Geo) {s : St} (h : Reach g s) (p q : Nat) (hp : s.C ≤ p) (hpq : p < q) (hq : q < s.P)
    (hb : s.bufOf p = s.bufOf q) : p % g.size (s.bufOf p) ≠ q % g.size (s.bufOf p) := by
  obtain ⟨o1, o2, o3, rzi, o4a, o4b, o4c, o5, o6, o7, o8, o9⟩ := reach_inv g h
  have h6p := o6 p hp (by omega)
  have h6q := o6 q (by omega) hq
  apply mod_ne_of_lt p q _ hpq
  by_cases hlast : s.bufOf p + 1 < s.nb
  · have := o5 _ hlast
    have hq2 := h6q.2.2 (by rw [← hb]; exact hlast)
    rw [← hb] at hq2
    have := g.pos (s.bufOf p)
    omega
  · have e : s.bufOf p = s.nb - 1 := by omega
    rw [e] at h6p ⊢
    have := g.cap_le (s.nb - 1)
    omega

/-- the cell that holds (or will hold) the JUMP marker of a buffer is not the cell of any live position of that buffer -/
theorem jump_cell_free (g : Geo) {s : St} (h : Reach g s) (p : Nat) (hp : s.C ≤ p) (hpP : p < s.P)
    (hlast : s.bufOf p + 1 < s.nb) : p % g.size (s.bufOf p) ≠ s.first (s.bufOf p + 1) % g.size (s.bufOf p) := by
  obtain ⟨o1, o2, o3, rzi, o4a, o4b, o4c, o5, o6, o7, o8, o9⟩ := reach_inv g h
  have h6 := o6 p hp hpP
  have hlt := h6.2.2 hlast
  have := o5 _ hlast
  have := g.pos (s.bufOf p)
  exact mod_ne_of_lt p _ _ hlt (by omega)

end OtterVerif.Conc.MpscConc
