/-
  Conc.Resize — interleaving model of the writer / resizer handshake of internal/hashmap (Map.Compute vs Map.resize with
  copyBucket / copyBucketWithDestLock), for ONE key, unboundedly many writers and any number of successive resizes.

  Table generation g has, for the key, one root bucket with a mutex `lock g` and a content cell `content g`.
  A writer (Compute) that loaded table g:  wLock g (acquire the root bucket's mutex) → wCheck1 (resizing flag is clear; else
  wRetreat) → wCheck2 (g is still the current table; else wRetreat) → wApply (store under the lock, unlock).
  The resizer: rStart (CAS resizing: false → true) → rCopy (lock the source root bucket — possible only when no writer holds
  it —, copy its chain into the next table, unlock) → rPublish (table := next) → rDone (resizing := false); or rGiveUp.
  `abs` is the specification's value of the key: it changes exactly at wApply (the linearization point of a write).
-/
namespace OtterVerif.Conc.Resize

structure St where
  cur : Nat := 0                                 -- generation of the current table
  resizing : Bool := false
  copied : Bool := false                         -- the resizer has copied the key's bucket into table cur+1
  published : Bool := false                      -- the resizer has published table cur (the flag is still set)
  lock : Nat → Bool := fun _ => false            -- root-bucket mutex of the key in table g
  c1 : Nat → Nat := fun _ => 0                   -- writers holding lock g that have passed the resizing check
  passed : Nat → Nat := fun _ => 0               -- writers holding lock g that have passed both checks
  locked : Nat → Nat := fun _ => 0               -- writers holding lock g that have not checked anything yet
  content : Nat → Option Nat := fun _ => none    -- the key's value in table g
  abs : Option Nat := none                       -- the specification's value

def upd {α : Type} (f : Nat → α) (i : Nat) (v : α) : Nat → α := fun j => if j = i then v else f j
@[simp] theorem upd_self {α : Type} (f : Nat → α) (i : Nat) (v : α) : upd f i v i = v := by simp [upd]
theorem upd_other {α : Type} (f : Nat → α) (i j : Nat) (v : α) (h : j ≠ i) : upd f i v j = f j := by simp [upd, h]

inductive Step : St → St → Prop
  | wLock (s : St) (g : Nat) : g ≤ s.cur → s.lock g = false →
      Step s { s with lock := upd s.lock g true, locked := upd s.locked g (s.locked g + 1) }
  | wCheck1 (s : St) (g : Nat) : 0 < s.locked g → s.resizing = false →
      Step s { s with locked := upd s.locked g (s.locked g - 1), c1 := upd s.c1 g (s.c1 g + 1) }
  | wRetreat0 (s : St) (g : Nat) : 0 < s.locked g → s.resizing = true →
      Step s { s with locked := upd s.locked g (s.locked g - 1), lock := upd s.lock g false }
  | wCheck2 (s : St) (g : Nat) : 0 < s.c1 g → g = s.cur →
      Step s { s with c1 := upd s.c1 g (s.c1 g - 1), passed := upd s.passed g (s.passed g + 1) }
  | wRetreat1 (s : St) (g : Nat) : 0 < s.c1 g → g ≠ s.cur →
      Step s { s with c1 := upd s.c1 g (s.c1 g - 1), lock := upd s.lock g false }
  | wApply (s : St) (g : Nat) (v : Option Nat) : 0 < s.passed g →
      Step s { s with passed := upd s.passed g (s.passed g - 1), lock := upd s.lock g false,
                      content := upd s.content g v, abs := v }
  | rStart (s : St) : s.resizing = false →
      Step s { s with resizing := true, copied := false, published := false }
  | rCopy (s : St) : s.resizing = true → s.copied = false → s.published = false → s.lock s.cur = false →
      Step s { s with copied := true, content := upd s.content (s.cur + 1) (s.content s.cur) }
  | rPublish (s : St) : s.resizing = true → s.copied = true → s.published = false →
      Step s { s with cur := s.cur + 1, published := true, copied := false }
  | rDone (s : St) : s.resizing = true → s.published = true →
      Step s { s with resizing := false, published := false }
  | rGiveUp (s : St) : s.resizing = true → s.copied = false → s.published = false →
      Step s { s with resizing := false }

inductive Reach : St → Prop
  | init : Reach {}
  | step {s s' : St} : Reach s → Step s s' → Reach s'

structure InvC (cur : Nat) (resizing copied published : Bool) (lock : Nat → Bool) (c1 passed locked : Nat → Nat)
    (content : Nat → Option Nat) (abs : Option Nat) : Prop where
  /-- no completed write is lost: the current table holds the specification's value -/
  val : abs = content cur
  /-- the copy is faithful until it is published -/
  cp : copied = true → content (cur + 1) = content cur
  /-- a writer past a check holds its bucket's mutex; at most one writer holds it -/
  own : ∀ g, locked g + c1 g + passed g = (if lock g then 1 else 0)
  /-- a writer that passed both checks works on the current table -/
  pc : ∀ g, 0 < passed g → g = cur
  /-- once the bucket is copied (or the new table published but the flag still set) no writer is past the flag check on
      the current table -/
  quiet : (copied = true ∨ published = true) → c1 cur = 0 ∧ passed cur = 0 ∧ resizing = true
  /-- tables beyond the current one are untouched by writers -/
  fut : ∀ g, cur < g → lock g = false
  f1 : copied = true → published = false
  f2 : published = true → copied = false

def Inv (s : St) : Prop :=
  InvC s.cur s.resizing s.copied s.published s.lock s.c1 s.passed s.locked s.content s.abs

theorem inv_init : Inv {} :=
  ⟨rfl, fun h => (by cases h), fun _ => rfl, fun _ h => absurd h (Nat.lt_irrefl 0),
   fun h => (by rcases h with h | h <;> cases h), fun _ _ => rfl, fun h => (by cases h), fun h => (by cases h)⟩

theorem ite_bool_le (b : Bool) : (if b then 1 else 0 : Nat) ≤ 1 := by cases b <;> simp

theorem inv_step {s s' : St} (hi : Inv s) (hs : Step s s') : Inv s' := by
  obtain ⟨hval, hcp, hown, hpc, hq, hfut, hf1, hf2⟩ := hi
  cases hs with
  | wLock g hg hl =>
    show InvC s.cur s.resizing s.copied s.published (upd s.lock g true) s.c1 s.passed (upd s.locked g (s.locked g + 1)) s.content s.abs
    refine ⟨hval, hcp, fun j => ?_, hpc, hq, fun j hj => ?_, hf1, hf2⟩
    · by_cases e : j = g
      · subst e
        have := hown j; rw [hl] at this
        simp only [upd_self, ↓reduceIte]
        simp only [Bool.false_eq_true, ↓reduceIte] at this
        omega
      · rw [upd_other _ _ _ _ e, upd_other _ _ _ _ e]; exact hown j
    · have e : j ≠ g := by omega
      rw [upd_other _ _ _ _ e]; exact hfut j hj
  | wCheck1 g hl hr =>
    show InvC s.cur s.resizing s.copied s.published s.lock (upd s.c1 g (s.c1 g + 1)) s.passed (upd s.locked g (s.locked g - 1)) s.content s.abs
    have hnq : ¬ (s.copied = true ∨ s.published = true) := fun h => by rw [(hq h).2.2] at hr; cases hr
    refine ⟨hval, hcp, fun j => ?_, hpc, fun h => absurd h hnq, hfut, hf1, hf2⟩
    by_cases e : j = g
    · subst e
      have := hown j
      simp only [upd_self]
      omega
    · rw [upd_other _ _ _ _ e, upd_other _ _ _ _ e]; exact hown j
  | wRetreat0 g hl hr =>
    show InvC s.cur s.resizing s.copied s.published (upd s.lock g false) s.c1 s.passed (upd s.locked g (s.locked g - 1)) s.content s.abs
    have hg := hown g
    have hle := ite_bool_le (s.lock g)
    refine ⟨hval, hcp, fun j => ?_, hpc, hq, fun j hj => ?_, hf1, hf2⟩
    · by_cases e : j = g
      · subst e
        simp only [upd_self, Bool.false_eq_true, ↓reduceIte]
        omega
      · rw [upd_other _ _ _ _ e, upd_other _ _ _ _ e]; exact hown j
    · by_cases e : j = g
      · subst e; simp
      · rw [upd_other _ _ _ _ e]; exact hfut j hj
  | wCheck2 g hc he =>
    show InvC s.cur s.resizing s.copied s.published s.lock (upd s.c1 g (s.c1 g - 1)) (upd s.passed g (s.passed g + 1)) s.locked s.content s.abs
    have hnq : ¬ (s.copied = true ∨ s.published = true) := fun h => by have := (hq h).1; rw [← he] at this; omega
    refine ⟨hval, hcp, fun j => ?_, fun j hj => ?_, fun h => absurd h hnq, hfut, hf1, hf2⟩
    · by_cases e : j = g
      · subst e
        have := hown j
        simp only [upd_self]
        omega
      · rw [upd_other _ _ _ _ e, upd_other _ _ _ _ e]; exact hown j
    · by_cases e : j = g
      · rw [e]; exact he
      · rw [upd_other _ _ _ _ e] at hj; exact hpc j hj
  | wRetreat1 g hc hne =>
    show InvC s.cur s.resizing s.copied s.published (upd s.lock g false) (upd s.c1 g (s.c1 g - 1)) s.passed s.locked s.content s.abs
    have hg := hown g
    have hle := ite_bool_le (s.lock g)
    have hcur : s.cur ≠ g := fun e => hne e.symm
    refine ⟨hval, hcp, fun j => ?_, hpc, fun h => ?_, fun j hj => ?_, hf1, hf2⟩
    · by_cases e : j = g
      · subst e
        simp only [upd_self, Bool.false_eq_true, ↓reduceIte]
        omega
      · rw [upd_other _ _ _ _ e, upd_other _ _ _ _ e]; exact hown j
    · rw [upd_other _ _ _ _ hcur]; exact hq h
    · by_cases e : j = g
      · subst e; simp
      · rw [upd_other _ _ _ _ e]; exact hfut j hj
  | wApply g v hp =>
    show InvC s.cur s.resizing s.copied s.published (upd s.lock g false) s.c1 (upd s.passed g (s.passed g - 1)) s.locked (upd s.content g v) v
    have he : g = s.cur := hpc g hp
    have hnq : ¬ (s.copied = true ∨ s.published = true) := fun h => by have := (hq h).2.1; rw [← he] at this; omega
    have hg := hown g
    have hle := ite_bool_le (s.lock g)
    refine ⟨by rw [← he]; simp, fun h => absurd (Or.inl h) hnq, fun j => ?_, fun j hj => ?_, fun h => absurd h hnq, fun j hj => ?_, hf1, hf2⟩
    · by_cases e : j = g
      · subst e
        simp only [upd_self, Bool.false_eq_true, ↓reduceIte]
        omega
      · rw [upd_other _ _ _ _ e, upd_other _ _ _ _ e]; exact hown j
    · by_cases e : j = g
      · rw [e]; exact he
      · rw [upd_other _ _ _ _ e] at hj; exact hpc j hj
    · by_cases e : j = g
      · subst e; simp
      · rw [upd_other _ _ _ _ e]; exact hfut j hj
  | rStart hr =>
    show InvC s.cur true false false s.lock s.c1 s.passed s.locked s.content s.abs
    exact ⟨hval, fun h => (by cases h), hown, hpc, fun h => (by rcases h with h | h <;> cases h), hfut, fun h => (by cases h), fun h => (by cases h)⟩
  | rCopy hr hc hpb hl =>
    show InvC s.cur s.resizing true s.published s.lock s.c1 s.passed s.locked (upd s.content (s.cur + 1) (s.content s.cur)) s.abs
    have hg := hown s.cur
    rw [hl] at hg
    simp only [Bool.false_eq_true, ↓reduceIte] at hg
    have hne : s.cur ≠ s.cur + 1 := by omega
    refine ⟨by rw [upd_other _ _ _ _ hne]; exact hval, fun _ => by rw [upd_self, upd_other _ _ _ _ hne], hown, hpc,
      fun _ => ⟨by omega, by omega, hr⟩, hfut, fun _ => hpb, fun h => (by simp [hpb] at h)⟩
  | rPublish hr hc hpb =>
    show InvC (s.cur + 1) s.resizing false true s.lock s.c1 s.passed s.locked s.content s.abs
    have hq' := hq (Or.inl hc)
    have hl := hfut (s.cur + 1) (by omega)
    have hg := hown (s.cur + 1)
    rw [hl] at hg
    simp only [Bool.false_eq_true, ↓reduceIte] at hg
    refine ⟨by rw [hcp hc]; exact hval, fun h => (by cases h), hown, fun j hj => ?_, fun _ => ⟨by omega, by omega, hr⟩,
      fun j hj => hfut j (by omega), fun h => (by cases h), fun _ => rfl⟩
    have := hpc j hj
    rw [this] at hj; omega
  | rDone hr hpb =>
    show InvC s.cur false s.copied false s.lock s.c1 s.passed s.locked s.content s.abs
    have hc : s.copied = false := hf2 hpb
    refine ⟨hval, fun h => (by simp [hc] at h), hown, hpc, fun h => ?_, hfut, fun h => (by simp [hc] at h), fun h => (by cases h)⟩
    rcases h with h | h
    · simp [hc] at h
    · cases h
  | rGiveUp hr hc hpb =>
    show InvC s.cur false s.copied s.published s.lock s.c1 s.passed s.locked s.content s.abs
    refine ⟨hval, hcp, hown, hpc, fun h => ?_, hfut, hf1, hf2⟩
    rcases h with h | h
    · simp [hc] at h
    · simp [hpb] at h

theorem reach_inv {s : St} (h : Reach s) : Inv s := by
  induction h with
  | init => exact inv_init
  | step _ hs ih => exact inv_step ih hs

end OtterVerif.Conc.Resize
