/-
  Conc.PersistSkeleton — snapshot of the skeletons of persistence.go (sequential code: the skeleton records the order of the
  calls that matter for C19).
    LoadCacheFrom  per decoded entry, INSIDE the loop: read the clock, drop an entry whose deadline has passed (<=), Set,
                   warm-up reads depending on how full the target is, restore the expiration and refresh times from the clock
                   reading taken for THIS entry
    SaveCacheTo    the maximum first, then the entries hottest first until the maximum is reached
-/
namespace OtterVerif.Conc.PersistSkeleton

def LoadCacheFrom : List (Nat × String) :=
  [(0, "call Decode"),
   (0, "if err!=nil"),
   (0, "then"),
   (1, "return"),
   (0, "fi"),
   (0, "call GetMaximum"),
   (0, "for size<maximum"),
   (1, "call Decode"),
   (1, "if err!=nil"),
   (1, "then"),
   (2, "if errors.Is(err,io.EOF)"),
   (2, "then"),
   (3, "break"),
   (2, "fi"),
   (2, "return"),
   (1, "fi"),
   (1, "call NowNano"),
   (1, "if c.cache.withExpiration&&entry.ExpiresAtNano<=nowNano"),
   (1, "then"),
   (2, "continue"),
   (1, "fi"),
   (1, "call Set"),
   (1, "if size<=maximum2"),
   (1, "then"),
   (2, "call GetIfPresent"),
   (2, "call GetIfPresent"),
   (1, "else"),
   (2, "if size<=maximum1"),
   (2, "then"),
   (3, "call GetIfPresent"),
   (2, "fi"),
   (1, "fi"),
   (1, "if c.cache.withExpiration&&entry.ExpiresAtNano!=unreachableExpiresAt"),
   (1, "then"),
   (2, "call SetExpiresAfter"),
   (1, "fi"),
   (1, "if c.cache.withRefresh&&entry.RefreshableAtNano!=unreachableRefreshableAt"),
   (1, "then"),
   (2, "call SetRefreshableAfter"),
   (1, "fi"),
   (0, "rof"),
   (0, "return")]

def SaveCacheTo : List (Nat × String) :=
  [(0, "call GetMaximum"),
   (0, "call Encode"),
   (0, "if err!=nil"),
   (0, "then"),
   (1, "return"),
   (0, "fi"),
   (0, "range"),
   (1, "call Hottest"),
   (1, "if size>=maximum"),
   (1, "then"),
   (2, "break"),
   (1, "fi"),
   (1, "call Encode"),
   (1, "if err!=nil"),
   (1, "then"),
   (2, "return"),
   (1, "fi"),
   (0, "egnar"),
   (0, "return")]

end OtterVerif.Conc.PersistSkeleton
