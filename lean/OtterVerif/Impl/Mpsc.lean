/-
  Impl.Mpsc — sequential transcription of internal/deque/queue/mpsc.go (JCTools-style growable MPSC queue).
  Index arithmetic comes from the regenerated module Gen.MpscIdx.  Elements are naturals; a slot holds
  nothing, an element, the JUMP marker, or (in the last slot) the link to the next chunk.  Core Lean only.
-/
import OtterVerif.Gen.MpscIdx
import OtterVerif.Gen.Xmath

namespace OtterVerif.Impl.Mpsc
open OtterVerif

inductive Slot where
  | empty | elem (x : Nat) | jump | link (buf : Nat)
  deriving DecidableEq, Repr, Inhabited

structure Q where
  pIndex : BitVec 64 := 0
  pLimit : BitVec 64 := 0
  pMask : BitVec 64 := 0
  cIndex : BitVec 64 := 0
  cMask : BitVec 64 := 0
  pBuf : Nat := 0
  cBuf : Nat := 0
  bufs : List (List Slot) := []
  maxCap : BitVec 64 := 0        -- maxQueueCapacity (= 2 * rounded max capacity)
  deriving Repr, Inhabited

inductive Err where
  | panic (msg : String)
  deriving Repr

def newQ (initialCapacity maxCapacity : BitVec 32) : Except Err Q :=
  if BitVec.ult initialCapacity 2 then .error (.panic "initial capacity") else
  if BitVec.ult maxCapacity 4 then .error (.panic "max capacity") else
  let p2i := Gen.Xmath.RoundUpPowerOf2 initialCapacity
  let p2m := Gen.Xmath.RoundUpPowerOf2 maxCapacity
  if BitVec.ult p2m p2i then .error (.panic "initial exceeds max") else
  let mask : BitVec 64 := BitVec.setWidth 64 ((p2i - 1) <<< 1)
  .ok { pLimit := mask, pMask := mask, cMask := mask, pBuf := 0, cBuf := 0,
        bufs := [List.replicate (p2i.toNat + 1) Slot.empty],
        maxCap := (BitVec.setWidth 64 p2m) <<< 1 }

def getSlot (q : Q) (b : Nat) (off : BitVec 64) : Slot := (q.bufs.getD b []).getD off.toNat .empty

def setSlot (q : Q) (b : Nat) (off : BitVec 64) (s : Slot) : Q :=
  { q with bufs := q.bufs.zipIdx.map (fun (buf, i) => if i == b then buf.set off.toNat s else buf) }

def bufLen (q : Q) (b : Nat) : Nat := (q.bufs.getD b []).length

/-- resize: link a chunk twice as large, publish the element there, leave the JUMP marker -/
def resize (q : Q) (oldMask : BitVec 64) (oldBuf : Nat) (pIndex : BitVec 64) (x : Nat) : Except Err Q :=
  let maxSize := q.maxCap.toNat / 2
  let bufferLength := bufLen q oldBuf
  if maxSize < bufferLength then .error (.panic "getNextBufferSize") else
  let newLen := 2 * (bufferLength - 1) + 1
  let newBuf := q.bufs.length
  let q := { q with bufs := q.bufs ++ [List.replicate newLen Slot.empty], pBuf := newBuf }
  let newMask : BitVec 64 := (BitVec.ofNat 64 newLen - 2) <<< 1
  let q := { q with pMask := newMask }
  let offOld := Gen.MpscIdx.modifiedCalcElementOffset pIndex oldMask
  let offNew := Gen.MpscIdx.modifiedCalcElementOffset pIndex newMask
  let q := setSlot q newBuf offNew (.elem x)
  let q := setSlot q oldBuf (Gen.MpscIdx.nextArrayOffset oldMask) (.link newBuf)
  let avail := Gen.MpscIdx.availableInQueue q.maxCap pIndex q.cIndex
  if avail == 0 then .error (.panic "availableInQueue") else
  let q := { q with pLimit := pIndex + Bv.umin newMask avail, pIndex := pIndex + 2 }
  .ok (setSlot q oldBuf offOld .jump)

/-- TryPush, single-threaded: returns the new queue and whether the element was accepted -/
def tryPush (q : Q) (x : Nat) : Except Err (Q × Bool) :=
  let pIndex := q.pIndex
  let mask := q.pMask
  let buffer := q.pBuf
  if BitVec.ule q.pLimit pIndex then
    -- pushSlowPath
    let cIndex := q.cIndex
    let cap := Gen.MpscIdx.getCurrentBufferCapacity q.maxCap mask
    if BitVec.ult pIndex (cIndex + cap) then
      let q := { q with pLimit := cIndex + cap, pIndex := pIndex + 2 }
      .ok (setSlot q buffer (Gen.MpscIdx.modifiedCalcElementOffset pIndex mask) (.elem x), true)
    else if Gen.MpscIdx.availableInQueue q.maxCap pIndex cIndex == 0 then .ok (q, false)
    else
      -- CAS(pIndex, pIndex+1) then resize, which stores pIndex+2
      match resize q mask buffer pIndex x with
      | .ok q' => .ok (q', true)
      | .error e => .error e
  else
    let q := { q with pIndex := pIndex + 2 }
    .ok (setSlot q buffer (Gen.MpscIdx.modifiedCalcElementOffset pIndex mask) (.elem x), true)

/-- TryPop, single-threaded -/
def tryPop (q : Q) : Except Err (Q × Option Nat) :=
  let buffer := q.cBuf
  let index := q.cIndex
  let mask := q.cMask
  let off := Gen.MpscIdx.modifiedCalcElementOffset index mask
  match getSlot q buffer off with
  | .empty => if index == q.pIndex then .ok (q, none) else .error (.panic "consumer would spin forever (slot reserved but never published)")
  | .jump =>
    let nOff := Gen.MpscIdx.nextArrayOffset mask
    match getSlot q buffer nOff with
    | .link nb =>
      let q := setSlot q buffer nOff .empty
      let newMask : BitVec 64 := (BitVec.ofNat 64 (bufLen q nb) - 2) <<< 1
      let q := { q with cBuf := nb, cMask := newMask }
      let offNew := Gen.MpscIdx.modifiedCalcElementOffset index newMask
      match getSlot q nb offNew with
      | .elem x => .ok ({ setSlot q nb offNew .empty with cIndex := index + 2 }, some x)
      | _ => .error (.panic "new buffer must have at least one element")
    | _ => .error (.panic "nextBuffer should be != nil")
  | .elem x => .ok ({ setSlot q buffer off .empty with cIndex := index + 2 }, some x)
  | .link _ => .error (.panic "link in element slot")

def size (q : Q) : Nat := ((q.pIndex - q.cIndex) >>> 1).toNat

/-- canonical state line compared with the implementation -/
def dump (q : Q) : String :=
  s!"pI={q.pIndex.toNat} pL={q.pLimit.toNat} pM={q.pMask.toNat} cI={q.cIndex.toNat} cM={q.cMask.toNat} plen={bufLen q q.pBuf} clen={bufLen q q.cBuf}"

end OtterVerif.Impl.Mpsc
