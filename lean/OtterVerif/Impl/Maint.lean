/-
  Impl.Maint — the glue of cache_impl.go between the write events and the two policies: runTask (add / update / delete),
  onAccess, as the list of calls they make on the size policy and the timer wheel.  The joint models (Proofs.CacheJoint,
  Proofs.WheelJoint) take exactly these calls as their steps; Props.C05Maint ties the guards to the regenerated conditions.
-/
import OtterVerif.Basic

namespace OtterVerif.Impl.Maint

inductive Reason where
  | add | delete | update
  deriving DecidableEq, Repr

/-- task.go: addReason = 1, deleteReason = 2, updateReason = 3 -/
def Reason.code : Reason → BitVec 8
  | .add => 1#8 | .delete => 2#8 | .update => 3#8

/-- a call on one of the two policies -/
inductive Call where
  | wheelAdd (n : Nat) | wheelDelete (n : Nat)
  | policyAdd (n : Nat) | policyUpdate (n old : Nat) | policyDelete (n : Nat) | policyAccess (n : Nat)
  | notifyDeletion (n : Nat)
  deriving DecidableEq, Repr

structure Flags where
  withExpiration : Bool
  withEviction : Bool

/-- runTask: what the replay of one write event does, in order (`alive` = n.IsAlive() at the time of the replay) -/
def runTask (f : Flags) (r : Reason) (n old : Nat) (alive : Bool) : List Call :=
  match r with
  | .add =>
    (if f.withExpiration && alive then [Call.wheelAdd n] else []) ++
    (if f.withEviction then [Call.policyAdd n] else [])
  | .update =>
    (if f.withExpiration then [Call.wheelDelete old] ++ (if alive then [Call.wheelAdd n] else []) else []) ++
    (if f.withEviction then [Call.policyUpdate n old] else []) ++ [Call.notifyDeletion old]
  | .delete =>
    (if f.withExpiration then [Call.wheelDelete n] else []) ++
    (if f.withEviction then [Call.policyDelete n] else []) ++ [Call.notifyDeletion n]

/-- onAccess: a drained read (`linked` = the node is linked in the timer wheel: !node.Equals(n.NextExp(), nil)) -/
def onAccess (f : Flags) (n : Nat) (linked alive : Bool) : List Call :=
  (if f.withEviction then [Call.policyAccess n] else []) ++
  (if f.withExpiration && linked then [Call.wheelDelete n] ++ (if alive then [Call.wheelAdd n] else []) else [])

end OtterVerif.Impl.Maint
