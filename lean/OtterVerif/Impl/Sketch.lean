/-
  Impl.Sketch — transcription of sketch.go (4-bit count-min sketch with periodic halving).
  The mixers `spread`/`rehash` and the masks come from the regenerated module Gen.SketchMix;
  the per-sketch `maphash` is a parameter (reported by the harness in executable runs).
  Core Lean only.
-/
import OtterVerif.Gen.SketchMix
import OtterVerif.Gen.Xmath

namespace OtterVerif.Impl.Sketch
open OtterVerif

structure Sketch where
  table : Array (BitVec 64) := #[]
  sampleSize : BitVec 64 := 0
  blockMask : BitVec 64 := 0
  size : BitVec 64 := 0
  initialized : Bool := false
  deriving Repr, Inhabited

/-- ensureCapacity (the hasher re-seed is external: the caller supplies the new hashes) -/
def ensureCapacity (s : Sketch) (maximumSize : BitVec 64) : Sketch × Bool :=
  if BitVec.ule maximumSize (BitVec.ofNat 64 s.table.size) then (s, false)
  else
    let newSize := Gen.Xmath.RoundUpPowerOf264 maximumSize
    let newSize := if BitVec.ult newSize 8 then 8 else newSize
    let sampleSize : BitVec 64 := if maximumSize != 0 then 10 * maximumSize else 10
    ({ table := Array.replicate newSize.toNat 0, sampleSize := sampleSize,
       blockMask := (newSize >>> 3) - 1, size := 0, initialized := true }, true)

/-- the counter (slot, nibble index) number `i` of a key with spread hash `blockHash` — loop form of `frequency` -/
def counterPos (s : Sketch) (blockHash : BitVec 64) (i : Nat) : BitVec 64 × BitVec 64 :=
  let counterHash := Gen.SketchMix.rehash blockHash
  let block := (blockHash &&& s.blockMask) <<< 3
  let h := counterHash >>> (i <<< 3)
  let index := (h >>> 1) &&& 15
  let offset := h &&& 1
  let slot := block + offset + BitVec.ofNat 64 (i <<< 1)
  (slot, index)

/-- the same four positions as computed by the unrolled code of `increment` -/
def counterPosUnrolled (s : Sketch) (blockHash : BitVec 64) : List (BitVec 64 × BitVec 64) :=
  let counterHash := Gen.SketchMix.rehash blockHash
  let block := (blockHash &&& s.blockMask) <<< 3
  let h0 := counterHash
  let h1 := counterHash >>> 8
  let h2 := counterHash >>> 16
  let h3 := counterHash >>> 24
  [(block + (h0 &&& 1), (h0 >>> 1) &&& 15),
   (block + (h1 &&& 1) + 2, (h1 >>> 1) &&& 15),
   (block + (h2 &&& 1) + 4, (h2 >>> 1) &&& 15),
   (block + (h3 &&& 1) + 6, (h3 >>> 1) &&& 15)]

def readCount (s : Sketch) (slot index : BitVec 64) : BitVec 64 :=
  (s.table.getD slot.toNat 0 >>> (index <<< 2).toNat) &&& 0xf

def frequencyH (s : Sketch) (blockHash : BitVec 64) : BitVec 64 :=
  if !s.initialized then 0
  else
    (List.range 4).foldl (fun (f : BitVec 64) i =>
      let (slot, index) := counterPos s blockHash i
      Bv.umin f (readCount s slot index)) (BitVec.allOnes 64)

/-- incrementAt: saturating 4-bit increment of nibble `j` of word `i` -/
def incrementAt (s : Sketch) (i j : BitVec 64) : Sketch × Bool :=
  let offset := j <<< 2
  let mask : BitVec 64 := (0xf : BitVec 64) <<< offset.toNat
  let w := s.table.getD i.toNat 0
  if (w &&& mask) != mask then
    ({ s with table := s.table.setIfInBounds i.toNat (w + ((1 : BitVec 64) <<< offset.toNat)) }, true)
  else (s, false)

def reset (s : Sketch) : Sketch :=
  let count : Nat := s.table.foldl (fun (c : Nat) (w : BitVec 64) => c + (Bv.onesCount64 (w &&& Gen.SketchMix.oneMask)).toNat) 0
  let table := s.table.map (fun (w : BitVec 64) => (w >>> 1) &&& Gen.SketchMix.resetMask)
  { s with table := table, size := (s.size - (BitVec.ofNat 64 count >>> 2)) >>> 1 }

/-- the unrolled body of `increment`: one incrementAt per position, `added` is the disjunction of the results -/
def bumpAll (ps : List (BitVec 64 × BitVec 64)) (acc : Sketch × Bool) : Sketch × Bool :=
  ps.foldl (fun (acc : Sketch × Bool) p =>
      ((incrementAt acc.1 p.1 p.2).1, (incrementAt acc.1 p.1 p.2).2 || acc.2)) acc

/-- `size` counts the calls that added to at least one counter -/
def finishNR (r : Sketch × Bool) : Sketch := if r.2 then { r.1 with size := r.1.size + 1 } else r.1

/-- `increment` without the aging step (what happens within one sampling period) -/
def incrementNR (s : Sketch) (blockHash : BitVec 64) : Sketch :=
  if !s.initialized then s else finishNR (bumpAll (counterPosUnrolled s blockHash) (s, false))

def incrementH (s : Sketch) (blockHash : BitVec 64) : Sketch :=
  let s' := incrementNR s blockHash
  -- `size` changes exactly when a counter was added; the aging step runs when the sample is full
  if s.initialized && (bumpAll (counterPosUnrolled s blockHash) (s, false)).2 && s'.size == s'.sampleSize then reset s' else s'

/-- policy.admitDecision as a pure decision -/
def admitDecision (candidateFreq victimFreq : BitVec 64) (rand : BitVec 32) : Bool :=
  if BitVec.ult victimFreq candidateFreq then true
  else if BitVec.ule 6 candidateFreq then (rand &&& 127) == 0
  else false

/-- FNV-1a over the table words (canonical digest compared with the harness) -/
def digest (s : Sketch) : BitVec 64 :=
  s.table.foldl (fun (h : BitVec 64) w => (h ^^^ w) * 1099511628211) 14695981039346656037

end OtterVerif.Impl.Sketch
