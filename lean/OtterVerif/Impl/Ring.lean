/-
  Impl.Ring — transcription of internal/lossy/ring.go (16-slot lossy ring) at the level of its atomic steps, executed
  sequentially: `add` = load head, load tail, capacity test, one CAS on tail, publish; `drainTo` = load head/tail,
  consume the published prefix, store head.  Core Lean only.
-/
namespace OtterVerif.Impl.Ring

def bufferSize : Nat := 16

structure Ring where
  head : Nat := 0
  tail : Nat := 0
  slots : List (Option Nat) := List.replicate 16 none
  deriving Repr, Inhabited, DecidableEq

inductive Status where | success | failed | full
  deriving DecidableEq, Repr

/-- newRing: created holding its first element -/
def newRing (x : Nat) : Ring := { head := 0, tail := 1, slots := (List.replicate 16 none).set 0 (some x) }

/-- add without contention (the CAS succeeds) -/
def add (r : Ring) (x : Nat) : Ring × Status :=
  if r.tail - r.head ≥ bufferSize then (r, .full)
  else ({ r with tail := r.tail + 1, slots := r.slots.set (r.tail % 16) (some x) }, .success)

/-- drainTo: consume published elements from head until an unpublished slot or tail -/
def drainTo (r : Ring) : Ring × List Nat :=
  let rec go (r : Ring) (h : Nat) (acc : List Nat) (fuel : Nat) : Ring × List Nat :=
    match fuel with
    | 0 => ({ r with head := h }, acc)
    | fuel + 1 =>
      if h == r.tail then ({ r with head := h }, acc)
      else match r.slots.getD (h % 16) none with
        | none => ({ r with head := h }, acc)
        | some x => go { r with slots := r.slots.set (h % 16) none } (h + 1) (acc ++ [x]) fuel
  if r.tail - r.head == 0 then (r, []) else go r r.head [] 17

def len (r : Ring) : Nat := r.tail - r.head

end OtterVerif.Impl.Ring
