/-
  Impl.Table — transcription of the table-level decision code of cache_impl.go for ONE atomic step on one key, executed
  inside hashmap.Compute's critical section: getNode, newNode, calcExpiresAtAfterWrite, calcRefreshableAt (no load in
  flight: cl = nil), calcExpiresAtAfterRead / setExpiresAfterRead, getCause, atomicSet, atomicDelete, set (Set and
  SetIfAbsent), Invalidate, GetIfPresent.

  Nodes are immutable records replaced on update (the one mutable field, the expiration time stored by a read, is a new
  record here).  The user's calculators are parameters (`TCfg`): each gets what the Go calculator gets that matters — key,
  value and the entry's current duration `entry.ExpiresAfter()` = int64(expiresAt - now), WITH wrap-around, because the
  built-in calculators answer "keep" by returning exactly that number.  Time is Int; `wrapS 64` marks the int64 subtractions.
  Core Lean only.
-/
import OtterVerif.Basic
import OtterVerif.Spec.Core

namespace OtterVerif.Impl.Table
open OtterVerif
open OtterVerif.Spec (Cause Event Out)

structure TNode where
  key : Nat
  val : Nat
  weight : Nat
  exp : Int          -- expiresAt (maxI64 = unreachable)
  ref : Int          -- refreshableAt
  deriving DecidableEq, Repr, Inhabited

/-- configuration: which policies are on, the weigher and the calculators as functions of (key, value, current duration) -/
structure TCfg where
  withExp : Bool
  withRef : Bool
  weigh : Nat → Nat → Nat
  expCreate : Nat → Nat → Int → Int
  expUpdate : Nat → Nat → Int → Int
  expRead : Nat → Nat → Int → Int
  refCreate : Nat → Nat → Int → Int
  refUpdate : Nat → Nat → Int → Int
  refReload : Nat → Nat → Int → Int     -- RefreshAfterReload
  refFail : Nat → Nat → Int → Int       -- RefreshAfterReloadFailure

abbrev Tbl := List (Nat × TNode)

def lookup (t : Tbl) (k : Nat) : Option TNode := (t.find? (fun p => p.1 == k)).map (·.2)
def store (t : Tbl) (k : Nat) (n : TNode) : Tbl := (k, n) :: t.filter (fun p => p.1 != k)
def unlink (t : Tbl) (k : Nat) : Tbl := t.filter (fun p => p.1 != k)

/-- node.HasExpired (all six expiring layouts: `expiresAt <= now`, Gen.NodePred) -/
def hasExpired (n : TNode) (now : Int) : Bool := decide (n.exp ≤ now)

/-- deadlineAfter (cache_impl.go; Gen.Deadline / C12: saturating) -/
def deadlineAfter (now d : Int) : Int := if now > maxI64 - d then maxI64 else now + d

/-- entry.ExpiresAfter() / RefreshableAfter(): int64 subtraction -/
def durationTo (deadline now : Int) : Int := wrapS 64 (deadline - now)

/-- newNode: deadlines are inherited from the (visible) predecessor, else unreachable -/
def newNode (c : TCfg) (k v : Nat) (old : Option TNode) : TNode :=
  { key := k, val := v, weight := c.weigh k v,
    exp := match old with | some o => if c.withExp then o.exp else maxI64 | none => maxI64,
    ref := match old with | some o => if c.withRef then o.ref else maxI64 | none => maxI64 }

/-- calcExpiresAtAfterWrite -/
def calcExpiresAtAfterWrite (c : TCfg) (n : TNode) (old : Option TNode) (now : Int) : TNode :=
  if !c.withExp then n else
  let cur := durationTo n.exp now
  let d := match old with
    | none => c.expCreate n.key n.val cur
    | some o => if hasExpired o now then c.expCreate n.key n.val cur else c.expUpdate n.key n.val cur
  if d > 0 && cur != d then { n with exp := deadlineAfter now d } else n

/-- which calculator calcRefreshableAt asks: no call in hand or not a refresh (plain), a refresh call that succeeded
    (reload), a refresh call that failed (failure) — the last two only when there is a predecessor -/
inductive RefKind where
  | plain | reload | failure
  deriving DecidableEq, Repr

/-- calcRefreshableAt -/
def calcRefreshableAt (c : TCfg) (n : TNode) (old : Option TNode) (kind : RefKind) (now : Int) : TNode :=
  if !c.withRef then n else
  let cur := durationTo n.ref now
  let d := match kind, old with
    | .reload, some _ => c.refReload n.key n.val cur
    | .failure, some _ => c.refFail n.key n.val cur
    | _, some _ => c.refUpdate n.key n.val cur
    | _, none => c.refCreate n.key n.val cur
  if d > 0 && cur != d then { n with ref := deadlineAfter now d } else n

/-- calcExpiresAtAfterRead + setExpiresAfterRead (the CAS succeeds: nobody else touches the node inside the step) -/
def calcExpiresAtAfterRead (c : TCfg) (n : TNode) (now : Int) : TNode :=
  if !c.withExp then n else
  let d := c.expRead n.key n.val (durationTo n.exp now)
  if d ≤ 0 then n else
  let cur := durationTo n.exp now
  -- (until /repo 0d976a3 the test was xmath.Abs(int64(d - cur)) > 0, which is false for d - cur = MinInt64: finding F19)
  if d != cur then { n with exp := deadlineAfter now d } else n

def getCause (n : TNode) (now : Int) (c : Cause) : Cause := if hasExpired n now then .expiration else c

/-- the predecessor as atomicSet sees it: an expired entry is logically absent -/
def visiblePrev (old : Option TNode) (now : Int) : Option TNode :=
  match old with | some o => if hasExpired o now then none else some o | none => none

/-- atomicSet: the node that replaces `old`, and the atomic deletion event for `old` -/
def atomicSet (c : TCfg) (k v : Nat) (old : Option TNode) (now : Int) (kind : RefKind := .plain) : TNode × List Event :=
  let prev := visiblePrev old now
  let n := newNode c k v prev
  let n := calcExpiresAtAfterWrite c n prev now
  let n := calcRefreshableAt c n prev kind now
  let evs := match old with
    | some o => [{ key := o.key, val := o.val, cause := getCause o now .replacement : Event }]
    | none => []
  (n, evs)

/-- cache.set: Set (onlyIfAbsent = false) and SetIfAbsent -/
def set (c : TCfg) (t : Tbl) (k v : Nat) (onlyIfAbsent : Bool) (now : Int) : Tbl × Out × List Event :=
  let old := lookup t k
  let oldVisible := match old with | some o => !hasExpired o now | none => false
  if onlyIfAbsent && oldVisible then
    match old with
    | some o => (store t k (calcExpiresAtAfterRead c o now), .valOk o.val false, [])
    | none => (t, .valOk v true, [])
  else
    let (n, evs) := atomicSet c k v old now
    let t' := store t k n
    if onlyIfAbsent then (t', .valOk v true, evs)
    else match old with
      | some o => if oldVisible then (t', .valOk o.val false, evs) else (t', .valOk v true, evs)
      | none => (t', .valOk v true, evs)

/-- Invalidate: atomicDelete inside Compute; the result reports the value only if it was visible -/
def invalidate (t : Tbl) (k : Nat) (now : Int) : Tbl × Out × List Event :=
  match lookup t k with
  | some o =>
    (unlink t k, (if hasExpired o now then .valOk 0 false else .valOk o.val true),
     [{ key := o.key, val := o.val, cause := getCause o now .invalidation }])
  | none => (t, .valOk 0 false, [])

/-- doCompute's critical section, given what the remapping function answered for the value it was shown (visible value or
    "not found"): WriteOp = atomicSet, InvalidateOp = atomicDelete, CancelOp leaves a visible entry alone and removes an expired
    one; a panic or an invalid op changes nothing -/
def computeStep (c : TCfg) (t : Tbl) (k : Nat) (act : Spec.Act) (now : Int) : Tbl × Out × List Event :=
  let old := lookup t k
  match act with
  | .panic => (t, .panic, [])
  | .bad => (t, .panic, [])
  | .cancel =>
    match old with
    | some o =>
      if hasExpired o now then (unlink t k, .valOk 0 false, [{ key := o.key, val := o.val, cause := getCause o now .invalidation }])
      else (t, .valOk o.val true, [])
    | none => (t, .valOk 0 false, [])
  | .write v =>
    let (n, evs) := atomicSet c k v old now
    (store t k n, .valOk v true, evs)
  | .invalidate =>
    match old with
    | some o => (unlink t k, .valOk 0 false, [{ key := o.key, val := o.val, cause := getCause o now .invalidation }])
    | none => (t, .valOk 0 false, [])

/-- what a load produced -/
inductive LoadOut where
  | ok (v : Nat) | err | notFound
  deriving DecidableEq, Repr

/-- afterDeleteCall's critical section: `correct` = the call is still the registered one (or a volunteered key's fake
    call); a not-found outcome of a correct call removes the entry, an error leaves it (a failed REFRESH may move the refresh
    deadline of the node in place), a value is installed only by a correct call -/
def finishCall (c : TCfg) (t : Tbl) (k : Nat) (correct isRefresh : Bool) (o : LoadOut) (now : Int) : Tbl × List Event :=
  let old := lookup t k
  match o with
  | .notFound =>
    if correct then
      match old with
      | some x => (unlink t k, [{ key := x.key, val := x.val, cause := getCause x now .invalidation }])
      | none => (t, [])
    else (t, [])
  | .err =>
    match old with
    | some x =>
      -- calcRefreshableAt(oldNode, oldNode, cl, now) for a failed refresh, in place: the table changes only if it stores
      if isRefresh && c.withRef then
        let cur := durationTo x.ref now
        let d := c.refFail x.key x.val cur
        if d > 0 && cur != d then (store t k { x with ref := deadlineAfter now d }, []) else (t, [])
      else (t, [])
    | none => (t, [])
  | .ok v =>
    if correct then
      let (n, evs) := atomicSet c k v old now (if isRefresh then .reload else .plain)
      (store t k n, evs)
    else (t, [])

/-- SetExpiresAfter: only for a visible entry and a positive duration; setExpiresAfterRead stores unless the duration is the
    current one -/
def setExpiresAfter (c : TCfg) (t : Tbl) (k : Nat) (d : Int) (now : Int) : Tbl :=
  if !c.withExp || decide (d ≤ 0) then t else
  match lookup t k with
  | none => t
  | some n =>
    if hasExpired n now then t
    else if d != durationTo n.exp now then store t k { n with exp := deadlineAfter now d } else t

/-- SetRefreshableAfter: for the entry physically present (its expiry is not looked at) and a positive duration -/
def setRefreshableAfter (c : TCfg) (t : Tbl) (k : Nat) (d : Int) (now : Int) : Tbl :=
  if !c.withRef || decide (d ≤ 0) then t else
  match lookup t k with
  | none => t
  | some n =>
    if d > 0 && durationTo n.ref now != d then store t k { n with ref := deadlineAfter now d } else t

/-- what getNode (and doCompute with recordStats) tells the statistics recorder about one lookup: a hit iff a node was found
    and had not expired, a miss otherwise -/
def lookupIsHit (t : Tbl) (k : Nat) (now : Int) : Bool :=
  match lookup t k with
  | none => false
  | some n => !hasExpired n now

/-- GetIfPresent: getNode (miss for absent or expired) then the read's deadline -/
def getIfPresent (c : TCfg) (t : Tbl) (k : Nat) (now : Int) : Tbl × Out :=
  match lookup t k with
  | none => (t, .valOk 0 false)
  | some n =>
    if hasExpired n now then (t, .valOk 0 false)
    else (store t k (calcExpiresAtAfterRead c n now), .valOk n.val true)

/-- evictNode + deleteNodeFromMap (the removal the size policy and the timer wheel ask for): the caller proposes Expiration
    iff `n.HasExpired(now)`, else Overflow; inside the per-key computation the node is removed only if it is still the one
    mapped (`same` = the pointer comparison n.AsPointer() == current.AsPointer(), an input like `correct` in finishCall — when
    it holds the node handed in IS the current one), the reported cause goes through getCause once more -/
def evictNode (t : Tbl) (k : Nat) (same : Bool) (now : Int) : Tbl × List Event :=
  match lookup t k with
  | none => (t, [])
  | some cur =>
    if same then
      let proposed := if hasExpired cur now then Cause.expiration else Cause.overflow
      (unlink t k, [{ key := cur.key, val := cur.val, cause := getCause cur now proposed }])
    else (t, [])

/-- deleteNode (InvalidateAll's per-node step): the same critical section with Invalidation proposed -/
def deleteNode (t : Tbl) (k : Nat) (same : Bool) (now : Int) : Tbl × List Event :=
  match lookup t k with
  | none => (t, [])
  | some cur =>
    if same then (unlink t k, [{ key := cur.key, val := cur.val, cause := getCause cur now .invalidation }])
    else (t, [])

/-- InvalidateAll in single-goroutine use: every mapped node goes through deleteNode (the nodes collected by Range are all still
    mapped), one Invalidation report each — Expiration for an entry whose deadline has passed.  (Table order here; the code
    walks the collected nodes from the end, and C06 orders reports per key only.) -/
def invalidateAll (t : Tbl) (now : Int) : Tbl × List Event :=
  ([], t.map (fun p => { key := p.2.key, val := p.2.val, cause := getCause p.2 now .invalidation }))

/-- the loop InvalidateAll runs: deleteNode for each collected key in turn -/
def deleteAll (t : Tbl) (keys : List Nat) (now : Int) : Tbl × List Event :=
  keys.foldl (fun acc k => let r := deleteNode acc.1 k true now; (r.1, acc.2 ++ r.2)) (t, [])

/-- nodeToEntry as GetEntry / GetEntryQuietly return it: value, weight, the two deadlines (unreachable when the policy is
    off — the node layouts without the field answer MaxInt64, which is what newNode stores here) and the snapshot time
    (0 without any time-based policy) -/
def nodeToEntry (c : TCfg) (n : TNode) (now : Int) : Nat × Nat × Int × Int × Int :=
  (n.val, n.weight, (if c.withExp then n.exp else maxI64), (if c.withRef then n.ref else maxI64),
   (if c.withExp || c.withRef then now else 0))

/-- GetEntryQuietly: getNodeQuietly (absent, or expired: nothing) then the snapshot; no side effect at all -/
def getEntryQuietly (c : TCfg) (t : Tbl) (k : Nat) (now : Int) : Out :=
  match lookup t k with
  | none => .entry none
  | some n => if hasExpired n now then .entry none else .entry (some (nodeToEntry c n now))

/-- GetEntry: getNode (the read's deadline is stored first), then the snapshot of the node at the time of the lookup -/
def getEntry (c : TCfg) (t : Tbl) (k : Nat) (now : Int) : Tbl × Out :=
  match lookup t k with
  | none => (t, .entry none)
  | some n =>
    if hasExpired n now then (t, .entry none)
    else
      let n' := calcExpiresAtAfterRead c n now
      (store t k n', .entry (some (nodeToEntry c n' now)))

/-- cache.isStale for the node a read found mapped (it is alive): due for refresh iff refreshing is configured and the refresh
    deadline has been reached.  (The aliveness is read once, after the deadline: finding F16.) -/
def isStale (c : TCfg) (n : TNode) (now : Int) : Bool := c.withRef && decide (n.ref ≤ now)

end OtterVerif.Impl.Table
