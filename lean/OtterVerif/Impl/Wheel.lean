/-
  Impl.Wheel — transcription of internal/expiration/variable.go (hierarchical timer wheel).

  Times are on the wheel's unsigned time line (`wheelTime t = uint64(t) xor 2^63`, an order-preserving image
  of the int64 clock), as naturals below 2^64; `expiration - time` wraps exactly as in Go.
  Buckets are lists of node ids in link order (Add links at the tail).  Core Lean only.
-/
namespace OtterVerif.Impl.Wheel

def two64 : Nat := 18446744073709551616

def nBuckets : List Nat := [64, 64, 32, 4, 1]
def shifts : List Nat := [30, 36, 42, 47, 49]
/-- spans[i] = 2^shift[i]; spans[5] = spans[4] -/
def spans : List Nat := [2 ^ 30, 2 ^ 36, 2 ^ 42, 2 ^ 47, 2 ^ 49, 2 ^ 49]

def buckets (i : Nat) : Nat := nBuckets.getD i 1
def shift (i : Nat) : Nat := shifts.getD i 49
def span (i : Nat) : Nat := spans.getD i (2 ^ 49)

/-- the order-preserving map from int64 clock readings to the wheel's time line -/
def wheelTime (t : Int) : Nat := ((t + 9223372036854775808) % 18446744073709551616).toNat

/-- findBucket: level and slot for deadline `d` when the wheel is at `time` (uint64 arithmetic) -/
def findBucket (time d : Nat) : Nat × Nat :=
  let d := if d < time then time else d        -- already due: the current tick
  let duration := (d + two64 - time) % two64
  if duration < span 1 then (0, (d >>> shift 0) % buckets 0)
  else if duration < span 2 then (1, (d >>> shift 1) % buckets 1)
  else if duration < span 3 then (2, (d >>> shift 2) % buckets 2)
  else if duration < span 4 then (3, (d >>> shift 3) % buckets 3)
  else (4, 0)

/-- a scheduled timer event: the node, its deadline, and the time from which it counts as scheduled (`max deadline (wheel time
    at Add)`: a node added with a deadline already behind the wheel's clock goes to the current tick) -/
structure Ent where
  id : Nat
  d : Nat
  e : Nat
  deriving Repr, Inhabited, DecidableEq

structure Wheel where
  time : Nat := wheelTime 0
  /-- wheel[level][slot] = timer events in link order -/
  wheel : List (List (List Ent)) := nBuckets.map (fun b => List.replicate b [])
  deriving Repr, Inhabited

def Wheel.entries (w : Wheel) : List Ent := (w.wheel.map (fun lv => lv.flatten)).flatten

def Wheel.deadline (w : Wheel) (n : Nat) : Nat := ((w.entries.find? (·.id == n)).map (·.d)).getD 0
def Wheel.effective (w : Wheel) (n : Nat) : Nat := ((w.entries.find? (·.id == n)).map (·.e)).getD 0

def modifyAt {α} (l : List α) (i : Nat) (f : α → α) : List α :=
  l.zipIdx.map (fun (x, j) => if j == i then f x else x)

def Wheel.bucket (w : Wheel) (lvl slot : Nat) : List Ent := ((w.wheel.getD lvl []).getD slot [])

def Wheel.setBucket (w : Wheel) (lvl slot : Nat) (b : List Ent) : Wheel :=
  { w with wheel := modifyAt w.wheel lvl (fun lv => modifyAt lv slot (fun _ => b)) }

/-- Add: link the node at the tail of the bucket findBucket chooses -/
def add (w : Wheel) (n d : Nat) : Wheel :=
  w.setBucket (findBucket w.time d).1 (findBucket w.time d).2
    (w.bucket (findBucket w.time d).1 (findBucket w.time d).2 ++ [{ id := n, d := d, e := max d w.time }])

/-- Delete: unlink the node wherever it is linked -/
def delete (w : Wheel) (n : Nat) : Wheel :=
  { w with wheel := w.wheel.map (fun lv => lv.map (fun b => b.filter (·.id != n))) }

def isLinked (w : Wheel) (n : Nat) : Bool := w.wheel.any (fun lv => lv.any (fun b => b.any (·.id == n)))

/-- the per-node step of deleteExpiredFromBucket: expire or re-add -/
def sweepEnt (acc : Wheel × List Nat) (x : Ent) : Wheel × List Nat :=
  if x.d < acc.1.time then (acc.1, acc.2 ++ [x.id])      -- expireNode (the cache unlinks it; it is already unlinked here)
  else (add acc.1 x.id x.d, acc.2)

/-- one bucket of deleteExpiredFromBucket: take the list, reset the bucket, expire or re-add each node -/
def sweepBucket (w : Wheel) (lvl slot : Nat) : Wheel × List Nat :=
  (w.bucket lvl slot).foldl sweepEnt (w.setBucket lvl slot [], [])

/-- deleteExpiredFromBucket -/
def sweepLevel (w : Wheel) (lvl prevTicks delta : Nat) : Wheel × List Nat :=
  let b := buckets lvl
  let steps := min (delta + 1) b
  let start := prevTicks % b
  (List.range steps).foldl (fun (acc : Wheel × List Nat) k =>
    ((sweepBucket acc.1 lvl ((start + k) % b)).1, acc.2 ++ (sweepBucket acc.1 lvl ((start + k) % b)).2)) (w, [])

/-- DeleteExpired: levels in order, stop at the first level whose tick did not advance -/
def deleteExpired (w : Wheel) (now : Nat) : Wheel × List Nat :=
  let prev := w.time
  let w := { w with time := now }
  let rec go (w : Wheel) (ex : List Nat) (i fuel : Nat) : Wheel × List Nat :=
    match fuel with
    | 0 => (w, ex)
    | fuel + 1 =>
      if i ≥ 5 then (w, ex) else
      let pt := prev >>> shift i
      let ct := now >>> shift i
      let delta := (ct + two64 - pt) % two64
      if delta == 0 then (w, ex)
      else go (sweepLevel w i pt delta).1 (ex ++ (sweepLevel w i pt delta).2) (i + 1) fuel
  go w [] 0 5

/-- canonical dump of the non-empty buckets: "lvl:slot:id,id;..." -/
def dump (w : Wheel) : String :=
  let parts := (w.wheel.zipIdx.map (fun (lv, i) =>
    (lv.zipIdx.filter (fun (b, _) => !b.isEmpty)).map (fun (b, j) =>
      s!"{i}:{j}:" ++ ",".intercalate (b.map (fun x => toString x.id))))).flatten
  ";".intercalate parts

end OtterVerif.Impl.Wheel
