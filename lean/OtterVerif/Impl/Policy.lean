/-
  Impl.Policy — transcription of policy.go (window + probation + protected deques, weight counters, eviction loops,
  admission, hill climber) over Impl.Sketch.  Deques are lists of node ids (internal/deque/linked.go at the level of its
  observable behaviour, including the quirks: deleting an unlinked node is a no-op, UpdateNode with an unlinked `old`
  links nothing).  Counters are uint64 with wrap-around exactly as in Go.  Core Lean only.
-/
import OtterVerif.Impl.Sketch

namespace OtterVerif.Impl.Policy
open OtterVerif

inductive NState where
  | alive | retired | dead
  deriving DecidableEq, Repr, Inhabited

structure Node where
  id : Nat
  key : Nat
  weight : Nat
  st : NState := .alive
  qt : Nat := 0          -- 0 window, 1 probation, 2 protected
  deriving Repr, Inhabited

structure Policy where
  sketch : Sketch.Sketch := {}
  hashes : List (Nat × BitVec 64) := []     -- key ↦ raw maphash (reported by the harness after every re-seed)
  nextHashes : List (Nat × BitVec 64) := [] -- the hashes of the next seed, installed when ensureCapacity re-seeds
  nodes : List Node := []
  window : List Nat := []
  probation : List Nat := []
  prot : List Nat := []
  maximum : BitVec 64 := 0
  weightedSize : BitVec 64 := 0
  windowMaximum : BitVec 64 := 0
  windowWeightedSize : BitVec 64 := 0
  mainProtectedMaximum : BitVec 64 := 0
  mainProtectedWeightedSize : BitVec 64 := 0
  stepSize : Float := 0
  adjustment : Int := 0
  hitsInSample : BitVec 64 := 0
  missesInSample : BitVec 64 := 0
  previousSampleHitRate : Float := 0
  isWeighted : Bool := false
  /-- random draws for admit, consumed in order (reported by the harness) -/
  rands : List Nat := []
  /-- nodes handed to evictNode, in order -/
  evicted : List Nat := []
  /-- set when the sketch was re-seeded and new hashes are needed -/
  reseeded : Bool := false
  lastWasEvict : Bool := false
  /-- ghost (maintained by the driver only): nodes whose introducing event (add / update as the new node) was processed;
      the driver rejects a trace that introduces a node twice — the one hypothesis of Proofs.PolicyLink.Reach -/
  introduced : List Nat := []
  deriving Inhabited

def Policy.node (p : Policy) (id : Nat) : Node :=
  { (p.nodes.find? (·.id == id)).getD { id := id, key := 0, weight := 0 } with id := id }

def Policy.setNode (p : Policy) (n : Node) : Policy :=
  { p with nodes := n :: p.nodes.filter (·.id != n.id) }

def Policy.hashOf (p : Policy) (key : Nat) : BitVec 64 :=
  Gen.SketchMix.spread (((p.hashes.find? (·.1 == key)).map (·.2)).getD 0)

def Policy.freq (p : Policy) (key : Nat) : BitVec 64 := Sketch.frequencyH p.sketch (p.hashOf key)

def Policy.sketchIncr (p : Policy) (key : Nat) : Policy :=
  { p with sketch := Sketch.incrementH p.sketch (p.hashOf key) }

def Policy.ensure (p : Policy) (cap : BitVec 64) : Policy :=
  let (s, changed) := Sketch.ensureCapacity p.sketch cap
  { p with sketch := s, reseeded := p.reseeded || changed, hashes := if changed then p.nextHashes else p.hashes }

def w64 (n : Nat) : BitVec 64 := BitVec.ofNat 64 n

/-! ### deque helpers (observable behaviour of deque.Linked) -/

def dq (p : Policy) (q : Nat) : List Nat := if q == 0 then p.window else if q == 1 then p.probation else p.prot
def setDq (p : Policy) (q : Nat) (l : List Nat) : Policy :=
  if q == 0 then { p with window := l } else if q == 1 then { p with probation := l } else { p with prot := l }

/-- the deque a node is linked in, if any (a node is linked in at most one) -/
def linkedIn (p : Policy) (id : Nat) : Option Nat :=
  if p.window.contains id then some 0 else if p.probation.contains id then some 1 else if p.prot.contains id then some 2 else none

/-- n.Next(): successor in whatever deque links the node -/
def next (p : Policy) (id : Nat) : Option Nat :=
  match linkedIn p id with
  | none => none
  | some q =>
    let l := dq p q
    match l.dropWhile (· != id) with
    | _ :: x :: _ => some x
    | _ => none

def dqDelete (p : Policy) (q : Nat) (id : Nat) : Policy :=
  -- `d.Delete(n)` on the deque chosen by the node's queue type: unlinks the node if it is linked (the links are the
  -- node's own fields, so this is "wherever it is linked")
  match linkedIn p id with
  | some q' => let _ := q; setDq p q' ((dq p q').filter (· != id))
  | none => p

def dqPushBack (p : Policy) (q id : Nat) : Policy := setDq p q (dq p q ++ [id])
def dqPushFront (p : Policy) (q id : Nat) : Policy := setDq p q (id :: dq p q)
def dqContains (p : Policy) (_q id : Nat) : Bool := (linkedIn p id).isSome
def dqMoveToBack (p : Policy) (q id : Nat) : Policy :=
  if (dq p q).getLast? == some id then p else dqPushBack (dqDelete p q id) q id
def dqMoveToFront (p : Policy) (q id : Nat) : Policy :=
  if (dq p q).head? == some id then p else dqPushFront (dqDelete p q id) q id
/-- UpdateNode(n, old): n takes old's place; nothing happens if old is not linked -/
def dqUpdateNode (p : Policy) (_q n old : Nat) : Policy :=
  match linkedIn p old with
  | some q' => setDq p q' ((dq p q').map (fun x => if x == old then n else x))
  | none => p

/-! ### policy operations -/

def reorder (p : Policy) (q id : Nat) : Policy := if dqContains p q id then dqMoveToBack p q id else p

/-- discount: subtract the weight of a linked node from the counters -/
def discount (p : Policy) (id : Nat) : Policy :=
  let n := p.node id
  let w := w64 n.weight
  let p := if n.qt == 0 then { p with windowWeightedSize := p.windowWeightedSize - w }
           else if n.qt == 2 then { p with mainProtectedWeightedSize := p.mainProtectedWeightedSize - w } else p
  { p with weightedSize := p.weightedSize - w }

/-- makeDead: unlink the node if it is linked (its weight is accounted for exactly then), mark it dead -/
def makeDead (p : Policy) (id : Nat) : Policy :=
  let p := if dqContains p (p.node id).qt id then dqDelete (discount p id) (p.node id).qt id else p
  let n := p.node id
  if n.st != .dead then p.setNode { n with st := .dead } else p

/-- the table creates a node (before any event about it reaches the policy) -/
def mkNode (p : Policy) (id key w : Nat) (st : NState) : Policy := p.setNode { id := id, key := key, weight := w, st := st }

/-- the table removes an entry: its node goes from alive to retired (the delete event reaches the policy later) -/
def retire (p : Policy) (id : Nat) : Policy :=
  let n := p.node id
  if n.st == .alive then p.setNode { n with st := .retired } else p

/-- policy.delete -/
def delete (p : Policy) (id : Nat) : Policy := makeDead p id

/-- the eviction callback used by the unit harness: what cache.evictNode does to the policy -/
def evictNode (p : Policy) (id : Nat) : Policy :=
  let p := delete p id
  { p with evicted := p.evicted ++ [id] }

def reorderProbation (p : Policy) (id : Nat) : Policy :=
  let n := p.node id
  let w := w64 n.weight
  if !(dqContains p 1 id) then p
  else if BitVec.ult p.mainProtectedMaximum w then reorder p 1 id
  else
    let p := { p with mainProtectedWeightedSize := p.mainProtectedWeightedSize + w }
    let p := dqDelete p 1 id
    let p := dqPushBack p 2 id
    p.setNode { n with qt := 2 }

def access (p : Policy) (id : Nat) : Policy :=
  let n := p.node id
  let p := p.sketchIncr n.key
  let p := if n.qt == 0 then reorder p 0 id else if n.qt == 1 then reorderProbation p id else reorder p 2 id
  { p with hitsInSample := p.hitsInSample + 1 }

def add (p : Policy) (id : Nat) : Policy :=
  let n := p.node id
  let w := w64 n.weight
  -- the weight is accounted for exactly while the node is linked: an out-of-order write links nothing
  let p := if n.st == .alive then { p with weightedSize := p.weightedSize + w, windowWeightedSize := p.windowWeightedSize + w } else p
  let half : BitVec 64 := BitVec.ushiftRight p.maximum 1
  let p := if BitVec.ule half p.weightedSize then
      let cap : BitVec 64 := if p.isWeighted then w64 (p.window.length + p.probation.length + p.prot.length) else p.maximum
      p.ensure cap
    else p
  let p := p.sketchIncr n.key
  let p := { p with missesInSample := p.missesInSample + 1 }
  if n.st != .alive then p
  else if BitVec.ult p.maximum w then
    evictNode { p with weightedSize := p.weightedSize - w, windowWeightedSize := p.windowWeightedSize - w } id
  else if BitVec.ult p.windowMaximum w then dqPushFront p 0 id
  else dqPushBack p 0 id

/-- updateNode: n takes the position of old, which must be linked -/
def updateNode (p : Policy) (id old : Nat) : Policy :=
  let o := p.node old
  let n := { p.node id with qt := o.qt }
  let p := p.setNode n
  let p := discount p old
  let p := dqUpdateNode p n.qt id old
  p.setNode { p.node old with st := .dead }

def update (p : Policy) (id old : Nat) : Policy :=
  let w := w64 (p.node id).weight
  if (p.node id).st == .dead then delete p old          -- the removal of n has overtaken this event
  else if !(dqContains p (p.node old).qt old) then
    -- old is unknown to the policy: n is a new arrival
    let p := makeDead p old
    if (p.node id).st == .alive then add p id else p
  else
  let p := updateNode p id old
  let n := p.node id
  if n.qt == 0 then
    let p := { p with windowWeightedSize := p.windowWeightedSize + w }
    if BitVec.ult p.maximum w then evictNode { p with weightedSize := p.weightedSize + w } id
    else
      let p := if BitVec.ule w p.windowMaximum then access p id
               else if dqContains p 0 id then dqMoveToFront p 0 id else p
      { p with weightedSize := p.weightedSize + w }
  else if n.qt == 1 then
    if BitVec.ule w p.maximum then { access p id with weightedSize := (access p id).weightedSize + w }
    else evictNode { p with weightedSize := p.weightedSize + w } id
  else
    let p := { p with mainProtectedWeightedSize := p.mainProtectedWeightedSize + w }
    if BitVec.ule w p.maximum then { access p id with weightedSize := (access p id).weightedSize + w }
    else evictNode { p with weightedSize := p.weightedSize + w } id

def floatToU64 (f : Float) : BitVec 64 := w64 f.toUInt64.toNat

def setMaximumSize (p : Policy) (maximum : BitVec 64) : Policy :=
  if maximum == p.maximum then p
  else
    let mf := Float.ofNat maximum.toNat
    let window := maximum - floatToU64 (0.99 * mf)
    let mainProtected := floatToU64 (0.80 * Float.ofNat (maximum - window).toNat)
    let p := { p with maximum := maximum, windowMaximum := window, mainProtectedMaximum := mainProtected,
                      hitsInSample := 0, missesInSample := 0, stepSize := -0.0625 * mf }
    if !p.isWeighted && BitVec.ule (BitVec.ushiftRight maximum 1) p.weightedSize then p.ensure maximum else p

def evictFromWindow (p : Policy) : Policy × Option Nat :=
  let rec go (p : Policy) (n : Option Nat) (first : Option Nat) (fuel : Nat) : Policy × Option Nat :=
    match fuel with
    | 0 => (p, first)
    | fuel + 1 =>
      if !(BitVec.ult p.windowMaximum p.windowWeightedSize) then (p, first)
      else match n with
        | none => (p, first)
        | some id =>
          let nx := next p id
          let nd := p.node id
          if nd.weight != 0 then
            let p := (p.setNode { nd with qt := 1 })
            let p := dqDelete p 0 id
            let p := dqPushBack p 1 id
            let first := if first.isNone then some id else first
            let p := { p with windowWeightedSize := p.windowWeightedSize - w64 nd.weight }
            go p nx first fuel
          else go p nx first fuel
  go p p.window.head? none (p.window.length + 1)

/-- admit: consumes one random draw only when the jitter branch is reached -/
def admit (p : Policy) (candKey victKey : Nat) : Policy × Bool :=
  let vf := p.freq victKey
  let cf := p.freq candKey
  if BitVec.ult vf cf then (p, true)
  else if BitVec.ule 6 cf then
    match p.rands with
    | r :: rest => ({ p with rands := rest }, (r % 128) == 0)
    | [] => (p, false)
  else (p, false)

/-- evictFromMain, with a flag telling whether the model's loop bound (not present in the code, whose loop is unbounded) was hit;
    the driver rejects a run in which it is -/
def evictFromMainX (p : Policy) (candidate : Option Nat) : Policy × Bool :=
  let rec go (p : Policy) (victimQueue candidateQueue : Nat) (victim candidate : Option Nat) (fuel : Nat) : Policy × Bool :=
    match fuel with
    | 0 => (p, true)
    | fuel + 1 =>
      if !(BitVec.ult p.maximum p.weightedSize) then (p, false) else
      -- search the admission window for additional candidates
      let refill := candidate.isNone && candidateQueue == 1
      let candidate := if refill then p.window.head? else candidate
      let candidateQueue := if refill then 0 else candidateQueue
      if candidate.isNone && victim.isNone then
        if victimQueue == 1 then go p 2 candidateQueue p.prot.head? candidate fuel
        else if victimQueue == 2 then go p 0 candidateQueue p.window.head? candidate fuel
        else (p, false)
      else
      -- skip zero-weight entries
      match victim, candidate with
      | some v, _ =>
        if (p.node v).weight == 0 then go p victimQueue candidateQueue (next p v) candidate fuel
        else match candidate with
          | some c =>
            if (p.node c).weight == 0 then go p victimQueue candidateQueue victim (next p c) fuel
            else if c == v then
              let vn := next p v
              go (evictNode p c) victimQueue candidateQueue vn none fuel
            else if (p.node v).st != .alive then
              let vn := next p v
              go (evictNode p v) victimQueue candidateQueue vn candidate fuel
            else if (p.node c).st != .alive then
              let cn := next p c
              go (evictNode p c) victimQueue candidateQueue victim cn fuel
            else if BitVec.ult p.maximum (w64 (p.node c).weight) then
              let cn := next p c
              go (evictNode p c) victimQueue candidateQueue victim cn fuel
            else
              let (p, adm) := admit p (p.node c).key (p.node v).key
              if adm then
                let vn := next p v
                let p := evictNode p v
                go p victimQueue candidateQueue vn (next p c) fuel
              else
                let cn := next p c
                go (evictNode p c) victimQueue candidateQueue victim cn fuel
          | none =>
            let vn := next p v
            go (evictNode p v) victimQueue candidateQueue vn none fuel
      | none, some c =>
        if (p.node c).weight == 0 then go p victimQueue candidateQueue victim (next p c) fuel
        else
          let cn := next p c
          go (evictNode p c) victimQueue candidateQueue none cn fuel
      | none, none => (p, false)
  go p 1 1 p.probation.head? candidate (4 * (p.window.length + p.probation.length + p.prot.length) + 16)

def evictFromMain (p : Policy) (candidate : Option Nat) : Policy := (evictFromMainX p candidate).1

def evictNodes (p : Policy) : Policy :=
  let (p, cand) := evictFromWindow p
  evictFromMain p cand

/-- did the model's loop bound cut the eviction loop short? (checked to be false on every run by the driver) -/
def evictNodesRanOut (p : Policy) : Bool :=
  let (p, cand) := evictFromWindow p
  (evictFromMainX p cand).2

def demoteFromMainProtected (p : Policy) : Policy :=
  if BitVec.ule p.mainProtectedWeightedSize p.mainProtectedMaximum then p
  else
    let rec go (p : Policy) (sz : BitVec 64) (i : Nat) : Policy × BitVec 64 :=
      match i with
      | 0 => (p, sz)
      | i + 1 =>
        if BitVec.ule sz p.mainProtectedMaximum then (p, sz)
        else match p.prot with
          | [] => (p, sz)
          | d :: rest =>
            let nd := p.node d
            let p := { p with prot := rest }
            let p := (p.setNode { nd with qt := 1 })
            let p := dqPushBack p 1 d
            go p (sz - w64 nd.weight) i
    let (p, sz) := go p p.mainProtectedWeightedSize 1000
    { p with mainProtectedWeightedSize := sz }

def absF (a : Float) : Float := if a < 0 then -a else a

def determineAdjustment (p : Policy) : Policy :=
  if !p.sketch.initialized then { p with previousSampleHitRate := 0, missesInSample := 0, hitsInSample := 0 }
  else
    let requestCount := p.hitsInSample + p.missesInSample
    if BitVec.ult requestCount p.sketch.sampleSize then p
    else
      let hitRate := Float.ofNat p.hitsInSample.toNat / Float.ofNat requestCount.toNat
      let change := hitRate - p.previousSampleHitRate
      let amount := if change < 0 then -p.stepSize else p.stepSize
      let nextStep := if absF change >= 0.05 then
          0.0625 * Float.ofNat p.maximum.toNat * (if amount >= 0 then 1 else -1)
        else 0.98 * amount
      { p with previousSampleHitRate := hitRate, adjustment := amount.toInt64.toInt, stepSize := nextStep,
               missesInSample := 0, hitsInSample := 0 }

def iToU64 (i : Int) : BitVec 64 := BitVec.ofInt 64 i

/-- increaseWindow's choice of the next node to move: the probation head if it fits the quota, else the protected head -/
def incPick (p : Policy) (quota : Int) : Option Nat × Bool :=
  match p.probation.head? with
  | some c => if quota < ((p.node c).weight : Int) then (p.prot.head?, false) else (some c, true)
  | none => (p.prot.head?, false)

/-- move node `c` from the main space to the back of the window -/
def incMove (p : Policy) (c : Nat) (probation : Bool) : Policy :=
  let nd := p.node c
  let w := nd.weight
  let p := if probation then dqDelete p 1 c
    else dqDelete { p with mainProtectedWeightedSize := p.mainProtectedWeightedSize - w64 w } 2 c
  let p := { p with windowWeightedSize := p.windowWeightedSize + w64 w }
  let p := dqPushBack p 0 c
  p.setNode { nd with qt := 0 }

def increaseWindow (p : Policy) : Policy :=
  if p.mainProtectedMaximum == 0 then p
  else
    let quota : Int := if BitVec.ult p.mainProtectedMaximum (iToU64 p.adjustment) then (p.mainProtectedMaximum.toNat : Int) else p.adjustment
    let p := { p with mainProtectedMaximum := p.mainProtectedMaximum - iToU64 quota, windowMaximum := p.windowMaximum + iToU64 quota }
    let p := demoteFromMainProtected p
    let rec go (p : Policy) (quota : Int) (i : Nat) : Policy × Int :=
      match i with
      | 0 => (p, quota)
      | i + 1 =>
        match (incPick p quota).1 with
        | none => (p, quota)
        | some c =>
          let w := (p.node c).weight
          if quota < (w : Int) then (p, quota)
          else go (incMove p c (incPick p quota).2) (quota - w) i
    let (p, quota) := go p quota 1000
    { p with mainProtectedMaximum := p.mainProtectedMaximum + iToU64 quota, windowMaximum := p.windowMaximum - iToU64 quota,
             adjustment := quota }

/-- move node `c` from the window to the back of probation -/
def decMove (p : Policy) (c : Nat) : Policy :=
  let nd := p.node c
  let w : Int := nd.weight
  let p := { p with windowWeightedSize := p.windowWeightedSize - iToU64 w }
  let p := dqDelete p 0 c
  let p := dqPushBack p 1 c
  p.setNode { nd with qt := 1 }

def decreaseWindow (p : Policy) : Policy :=
  if BitVec.ule p.windowMaximum 1 then p
  else
    let wm := p.windowMaximum - 1
    let quota : Int := if BitVec.ult wm (iToU64 (-p.adjustment)) then (wm.toNat : Int) else -p.adjustment
    let p := { p with mainProtectedMaximum := p.mainProtectedMaximum + iToU64 quota, windowMaximum := p.windowMaximum - iToU64 quota }
    let rec go (p : Policy) (quota : Int) (i : Nat) : Policy × Int :=
      match i with
      | 0 => (p, quota)
      | i + 1 =>
        match p.window.head? with
        | none => (p, quota)
        | some c =>
          let w : Int := (p.node c).weight
          if quota < w then (p, quota)
          else go (decMove p c) (quota - w) i
    let (p, quota) := go p quota 1000
    { p with mainProtectedMaximum := p.mainProtectedMaximum - iToU64 quota, windowMaximum := p.windowMaximum + iToU64 quota,
             adjustment := -quota }

def climb (p : Policy) : Policy :=
  let p := determineAdjustment p
  let p := demoteFromMainProtected p
  if p.adjustment == 0 then p
  else if p.adjustment > 0 then increaseWindow p else decreaseWindow p

def dump (p : Policy) : String :=
  let l (x : List Nat) := ",".intercalate (x.map toString)
  s!"w=[{l p.window}] p=[{l p.probation}] q=[{l p.prot}] ws={p.weightedSize.toNat} wws={p.windowWeightedSize.toNat} pws={p.mainProtectedWeightedSize.toNat} max={p.maximum.toNat} wmax={p.windowMaximum.toNat} pmax={p.mainProtectedMaximum.toNat} adj={p.adjustment} ev=[{l p.evicted}]"

end OtterVerif.Impl.Policy
