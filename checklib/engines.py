"""Correspondence engines used by /verif/check."""
import os, re, subprocess, hashlib, json, glob, time, concurrent.futures

V = os.environ.get('VERIF_HOME', '/verif')
LEAN = V + '/lean'
SEQDRV = LEAN + '/.lake/build/bin/seqdrv'
OTTERDRV = LEAN + '/.lake/build/bin/otterdrv'


def _run(cmd, inp=None, timeout=600):
    p = subprocess.run(cmd, stdout=subprocess.PIPE, stderr=subprocess.STDOUT, input=inp, timeout=timeout)
    return p.returncode, p.stdout


def match_known(pid, v, known):
    for k in known:
        if pid not in k.get('property', '').split(','):
            continue
        if k.get('engine') and k['engine'] != v.get('engine'):
            continue
        conds = [c for c in k.get('match', '').split(',') if c]
        ok = True
        for c in conds:
            f, val = c.split(':', 1)
            if str(v.get(f)) not in val.split('|'):
                ok = False
        if ok and conds:
            return k
    return None


# ---------------------------------------------------------------- SEQ

FAIL_RE = re.compile(r'^FAIL script=(\S+) line=(\d+) class=(\S+) op=(\S+) dead=(\d) nested=(\d) k1risk=(\d) :: (.*?) :: (.*)$')


def parse_fail(line):
    m = FAIL_RE.match(line)
    if not m:
        return None
    cls, op = m.group(3), m.group(4)
    if op in ('op_hottest', 'op_coldest', 'op_size', 'op_wsize'):
        cls = 'C05'
    return {'script': m.group(1), 'line': int(m.group(2)), 'class': cls, 'op': op, 'dead': int(m.group(5)),
            'nested': int(m.group(6)), 'k1risk': int(m.group(7)), 'msg': m.group(8), 'at': m.group(9), 'engine': 'seq',
            'durwrap': int('remaining lifetime not representable as a duration' in m.group(8))}


def seq_judge(transcript):
    rc, out = _run([SEQDRV], inp=transcript)
    fails, summary = [], {}
    for l in out.decode('utf-8', 'replace').splitlines():
        if l.startswith('FAIL '):
            f = parse_fail(l)
            if f:
                fails.append(f)
            else:
                fails.append({'script': '?', 'line': 0, 'class': 'result', 'op': '?', 'dead': 0, 'nested': 0, 'k1risk': 0,
                              'msg': l, 'at': '', 'engine': 'seq'})
        elif l.startswith('summary '):
            summary = dict(kv.split('=') for kv in l.split()[1:])
    if rc != 0 or not summary:
        raise RuntimeError('seqdrv failed: ' + out.decode('utf-8', 'replace')[-400:])
    return fails, summary


def seq_run_script(harness, path):
    rc, out = _run([harness, 'seq', '-script', path], timeout=120)
    return out


def seq_relevant(eng, f):
    acc = eng.get('accept')
    if acc is None:
        return True
    return acc(f)


def seq_shrink(harness, eng, header, ops, cls, budget=120):
    """ddmin on the op lines; keeps a failure of the same class"""
    tmp = os.path.join(os.path.dirname(harness), 'shrink.script')

    def fails(cand):
        with open(tmp, 'w') as f:
            f.write('\n'.join(header + cand + ['quiesce']) + '\n')
        try:
            fl, _ = seq_judge(seq_run_script(harness, tmp))
        except Exception:
            return False
        return any(x['class'] == cls for x in fl)
    n = 2
    runs = 0
    cur = list(ops)
    while len(cur) >= 2 and runs < budget:
        chunk = max(1, len(cur) // n)
        reduced = False
        for i in range(0, len(cur), chunk):
            cand = cur[:i] + cur[i + chunk:]
            runs += 1
            if cand and fails(cand):
                cur = cand
                n = max(n - 1, 2)
                reduced = True
                break
            if runs >= budget:
                break
        if not reduced:
            if chunk == 1:
                break
            n = min(len(cur), n * 2)
    return cur


def engine_seq(ctx, harness, eng, replay, pr):
    pid = ctx.pid
    info = ctx.cov['engines'].setdefault('seq', {'scripts': 0, 'ops': 0, 'evictions': 0, 'deadtouch': 0, 'loads': 0,
                                                 'profiles': {}, 'corpus': 0, 'fails_other_properties': 0})
    if not pr.get('seqdrv'):
        raise RuntimeError('seqdrv (Spec judge) does not build')

    def handle(fails, get_script, origin):
        for f in fails:
            if not seq_relevant(eng, f):
                info['fails_other_properties'] += 1
                continue
            if any(v.get('script') == f['script'] for v in ctx.violations):
                continue
            script = get_script(f['script'])
            header = [l for l in script if l.split()[:1] and l.split()[0] in ('cfg', 'tbl', 'wt')]
            ops = [l for l in script if l.strip() and not l.startswith('#') and l not in header]
            small = ops
            if origin != 'replay' and len(ops) > 3 and len(ctx.violations) < 3:
                small = seq_shrink(harness, eng, header, ops, f['class'])
            path = f"{V}/out/{pid}.seq.{re.sub('[^A-Za-z0-9_.-]', '_', f['script'])}.replay"
            tmp = os.path.join(ctx.scratch, 'final.script')
            with open(tmp, 'w') as fh:
                fh.write('\n'.join(header + small + ['quiesce']) + '\n')
            tr = seq_run_script(harness, tmp).decode('utf-8', 'replace')
            try:
                fl2, _ = seq_judge(tr.encode())
            except Exception:
                fl2 = []
            with open(path, 'w') as fh:
                fh.write(f'# replay for property {pid}, engine seq, origin {origin} ({f["script"]})\n')
                fh.write(f'# failure: class={f["class"]} op={f["op"]} dead={f["dead"]} :: {f["msg"]}\n')
                fh.write('# re-run: ./check %s --replay %s\n' % (pid, path))
                fh.write('--- script (shrunk) ---\n' + '\n'.join(header + small + ['quiesce']) + '\n')
                fh.write('--- transcript of the implementation on the shrunk script ---\n' + tr)
                fh.write('--- judgement ---\n' + '\n'.join(json.dumps(x) for x in fl2) + '\n')
            v = dict(f)
            v['replay'] = path
            ctx.violations.append(v)

    if replay:
        txt = open(replay).read()
        if '--- script (shrunk) ---' in txt:
            txt = txt.split('--- script (shrunk) ---\n', 1)[1].split('--- transcript', 1)[0]
        p = os.path.join(ctx.scratch, 'replay.script')
        open(p, 'w').write(txt)
        tr = seq_run_script(harness, p)
        fails, summ = seq_judge(tr)
        ctx.cov['evaluations'] += 1
        handle(fails, lambda _id: txt.splitlines(), 'replay')
        return
    # corpus first
    for sc in sorted(glob.glob(V + '/corpus/seq/*.script')):
        # a script that reproduces an open known finding names the properties whose checks run it ("# only: C19 C01")
        only = [l.split()[2:] for l in open(sc).read().splitlines() if l.startswith('# only:')]
        if only and pid not in only[0]:
            continue
        tr = seq_run_script(harness, sc)
        fails, summ = seq_judge(tr)
        info['corpus'] += 1
        ctx.cov['evaluations'] += 1
        ctx.distinct.add(hashlib.sha1(tr).hexdigest())
        handle(fails, lambda _id, sc=sc: open(sc).read().splitlines(), 'corpus:' + os.path.basename(sc))
    # generated scripts
    n_total = eng[ctx.tier]
    profiles = eng['profiles']
    per = max(1, n_total // len(profiles))
    jobs = []
    chunk = 50
    for p in profiles:
        for start in range(0, per, chunk):
            jobs.append((p, start, min(chunk, per - start)))

    def job(j):
        p, start, n = j
        rc, tr = _run([harness, 'seq', '-seed', str(ctx.seed), '-profile', p, '-from', str(start), '-n', str(n)], timeout=1800)
        fails, summ = seq_judge(tr)
        return j, tr, fails, summ
    with concurrent.futures.ThreadPoolExecutor(max_workers=12) as ex:
        results = list(ex.map(job, jobs))
    for (p, start, n), tr, fails, summ in results:
        info['scripts'] += int(summ.get('scripts', 0))
        for k in ('ops', 'evictions', 'deadtouch', 'loads'):
            info[k] += int(summ.get(k, 0))
        info['profiles'][p] = info['profiles'].get(p, 0) + int(summ.get('scripts', 0))
        ctx.cov['evaluations'] += int(summ.get('scripts', 0))
        # distinct non-trivial scripts: >= 10 operation lines and at least one deletion event or loader call
        for block in tr.split(b'script ')[1:]:
            lines = block.split(b'\n')
            nops = sum(1 for l in lines if l.startswith((b'op ', b'begin ')))
            busy = any((b'| A:' in l) or l.startswith(b'call ') for l in lines)
            if nops >= 10 and busy:
                ctx.distinct.add(hashlib.sha1(block.split(b'\n', 1)[1] if b'\n' in block else block).hexdigest())
        if not ctx.cov['samples'] and tr:
            ctx.cov['samples'].append({'engine': 'seq', 'transcript_head': tr.decode('utf-8', 'replace').splitlines()[:14]})

        def get_script(sid, p=p):
            m = re.match(r'(\w+)-(\d+)-(\d+)$', sid)
            rc, out = _run([harness, 'seq', '-print', '-seed', m.group(2), '-profile', m.group(1), '-from', m.group(3), '-n', '1'])
            return [l for l in out.decode().splitlines() if not l.startswith('# script')]
        handle(fails, get_script, f'generated profile={p}')


# ---------------------------------------------------------------- UNIT engines (component models)

def engine_unit(ctx, harness, eng, replay, pr):
    """white-box differential of one component against its Lean model: harness `unit-<name>` | otterdrv <name>"""
    name = eng['name']
    pid = ctx.pid
    info = ctx.cov['engines'].setdefault('unit-' + name, {'scripts': 0, 'lines': 0, 'failed': 0})
    if not pr.get('otterdrv'):
        raise RuntimeError('otterdrv (component models) does not build: ' + pr.get('otterdrv_err', ''))

    def judge(tr):
        rc, out = _run([OTTERDRV, eng.get('dcmd', name)] + eng.get('drv_args', []), inp=tr, timeout=3000)
        fails, summ = [], {}
        for l in out.decode('utf-8', 'replace').splitlines():
            if l.startswith('FAIL '):
                m = re.match(r'FAIL script=(\S+) line=(\d+) :: (.*?) :: (.*)$', l)
                fails.append({'script': m.group(1) if m else '?', 'line': int(m.group(2)) if m else 0,
                              'msg': m.group(3) if m else l, 'at': m.group(4) if m else '', 'engine': 'unit-' + name,
                              'class': 'unit'})
            elif l.startswith('summary '):
                summ = dict(kv.split('=') for kv in l.split()[1:] if '=' in kv)
        if rc != 0 or not summ:
            raise RuntimeError(f'otterdrv {name} failed: ' + out.decode('utf-8', 'replace')[-400:])
        return fails, summ

    def record(fails, tr, origin):
        for f in fails:
            if eng.get('accept') and f.get('class') != 'hang' and not eng['accept'](f):
                continue
            if len([v for v in ctx.violations if v.get('engine') == f['engine']]) >= 3:
                break
            # cut the failing script's transcript out of the stream: it is self-contained (hashes are reported in it)
            blocks = tr.decode('utf-8', 'replace').split('script ')
            blk = next((b for b in blocks if b.startswith(f['script'] + '\n')), '')
            lines = blk.split('\n')[: f['line'] + 2]
            path = f"{V}/out/{pid}.unit-{name}.{re.sub('[^A-Za-z0-9_.-]', '_', f['script'])}.replay"
            with open(path, 'w') as fh:
                fh.write(f'# replay for property {pid}, engine unit-{name}, origin {origin}\n# failure: {f["msg"]}\n')
                fh.write(f'# judge again with: {OTTERDRV} {name} < <this file from the line "script ..." on>\n')
                if f.get('rerun'):
                    fh.write(f'# reproduce with: {f["rerun"]}   (transcript up to the point where it stopped follows)\n')
                fh.write('script ' + '\n'.join(lines) + '\n')
            v = dict(f)
            v['replay'] = path
            ctx.violations.append(v)

    if replay:
        txt = open(replay).read()
        tr = txt[txt.index('script '):].encode()
        fails, summ = judge(tr)
        ctx.cov['evaluations'] += 1
        record(fails, tr, 'replay')
        return
    n_total = eng[ctx.tier]
    chunk = eng.get('chunk', 10)
    jobs = [(s, min(chunk, n_total - s)) for s in range(0, n_total, chunk)]

    def job(j):
        start, n = j
        cmd = [harness, eng.get('hcmd', 'unit-' + name), '-seed', str(ctx.seed), '-from', str(start), '-n', str(n)] + eng.get('args', [])
        limit = eng.get('timeout', 300)
        # the harness runs the real code in-process: a hang or a crash of a chunk is a failure of the implementation
        # (or of the harness) on that chunk, reported with the command that reproduces it
        try:
            rc, tr = _run(cmd, timeout=limit)
            what = None if rc == 0 else 'crashed (exit %d): %s' % (rc, tr.decode('utf-8', 'replace')[-300:].replace('\n', ' | '))
        except subprocess.TimeoutExpired as e:
            tr, what = (e.output or b''), 'did not terminate within %d s' % limit
        if what is not None:
            last = tr.decode('utf-8', 'replace').rsplit('script ', 1)[-1].split('\n')[0] if b'script ' in tr else f'{name}-{ctx.seed}-{start}'
            return tr, [{'script': last, 'line': 10 ** 9, 'msg': f'the run on the real code {what}', 'at': ' '.join(cmd), 'engine': 'unit-' + name,
                         'class': 'hang', 'rerun': ' '.join(cmd)}], {'scripts': '0', 'lines': '0', 'failed': '1'}
        fails, summ = judge(tr)
        return tr, fails, summ
    with concurrent.futures.ThreadPoolExecutor(max_workers=14) as ex:
        results = list(ex.map(job, jobs))
    for tr, fails, summ in results:
        info['scripts'] += int(summ.get('scripts', 0))
        info['lines'] += int(summ.get('lines', 0))
        info['failed'] += int(summ.get('failed', 0))
        for k, v in summ.items():
            if k not in ('scripts', 'lines', 'failed'):
                info[k] = info.get(k, 0) + int(v)
        ctx.cov['evaluations'] += int(summ.get('scripts', 0))
        for block in tr.split(b'script ')[1:]:
            if block.count(b'\n') >= 10:
                ctx.distinct.add(hashlib.sha1(block).hexdigest())
        if not any(s.get('engine') == 'unit-' + name for s in ctx.cov['samples']) and tr:
            ctx.cov['samples'].append({'engine': 'unit-' + name, 'transcript_head': tr.decode('utf-8', 'replace').splitlines()[:10]})
        record(fails, tr, 'generated')
