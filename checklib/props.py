"""Per-property configuration of /verif/check (which theorem modules, which engines, which failures count)."""

SEQ_TRUST = ["translator /verif/tools/gen (Go AST -> Lean, integer leaf code and call-site expressions)",
             "correspondence: /verif/harness (Go, public API, manual clock, same-goroutine executor) + Spec.Check judge (Lean executable)",
             "modelled, not verified: Go runtime, hash table internals, user callbacks as script data"]


def any_fail(f):
    return True


PROPS = {
    'C12': {
        'modules': ['OtterVerif.Props.C12'],
        'engines': [{'kind': 'seq', 'profiles': ['huge', 'expiry'], 'quick': 200, 'thorough': 6000,
                     'accept': lambda f: f['class'] in ('entry', 'result', 'events') and f['op'] not in ('end', 'call')}],
        'rule': 'SEQ scripts (profiles huge/expiry: durations up to MaxInt64, clock origins incl. today and near MaxInt64) judged against Spec; '
                'distinct = distinct transcripts; non-trivial = >= 10 operations and at least one deletion event or loader call',
        'trusted': SEQ_TRUST,
        'assumptions': ['int64 arithmetic of Go modelled as Int with explicit two\'s-complement wrap (wrapS 64)'],
    },
}
