"""Per-property configuration of /verif/check (which theorem modules, which engines, which failures count)."""

SEQ_TRUST = ["translator /verif/tools/gen (Go AST -> Lean, integer leaf code and call-site expressions)",
             "correspondence: /verif/harness (Go, in-module via go build -overlay, public API, manual clock, same-goroutine or manually pumped executor) "
             "+ Spec.Check judge (Lean executable seqdrv); strength bounded by the script generators",
             "modelled, not verified: Go runtime, hash table internals (C15), user callbacks/loaders/calculators as script data"]
SEQ_RULE = ('SEQ scripts generated from VERIF_SEED (profiles listed under coverage.engines.seq.profiles) executed on the real cache and judged against Spec; '
            'corpus of minimised past failures runs first; distinct = distinct transcripts; non-trivial = >= 10 operations and at least one deletion event or loader call')
ITER_OPS = ('op_all', 'op_keys', 'op_values', 'op_hottest', 'op_coldest', 'op_iteradv')


def seq(profiles, quick, thorough, accept):
    return {'kind': 'seq', 'profiles': profiles, 'quick': quick, 'thorough': thorough, 'accept': accept}


def any_fail(f):
    return True


PROPS = {
    'C01': {
        'modules': ['OtterVerif.Props.C01', 'OtterVerif.Props.C03', 'OtterVerif.Props.C06', 'OtterVerif.Props.C07'],
        'engines': [seq(['mix', 'load', 'expiry', 'bound', 'persist', 'huge', 'deferred'], 420, 14000,
                        any_fail),
                    # key types whose == is not bit equality (floats, strings, structs/arrays/interfaces of them): the map is keyed by ==
                    {'kind': 'unit', 'name': 'keys', 'hcmd': 'unit-keys', 'dcmd': 'keys', 'quick': 40, 'thorough': 2000, 'chunk': 10, 'args': []}],
    },
    'C03': {
        'modules': ['OtterVerif.Props.C03'],
        'engines': [seq(['expiry', 'mix', 'persist', 'load'], 320, 10000,
                        lambda f: f['dead'] == 1 or 'C03' in f['msg'] or f['op'] in ITER_OPS or f['op'] == 'op_save')],
    },
    'C06': {
        'modules': ['OtterVerif.Props.C06', 'OtterVerif.Props.C06Conc'],
        'engines': [seq(['mix', 'bound', 'expiry', 'huge', 'deferred'], 400, 10000, lambda f: f['class'] in ('C06', 'events')),
                    # concurrent writers, changing maximum, both handlers logged: every written value reported exactly once by each
                    {'kind': 'unit', 'name': 'concevents', 'hcmd': 'conc-events', 'dcmd': 'concevents', 'quick': 120, 'thorough': 6000, 'chunk': 10, 'args': []}],
    },
    'C07': {
        'modules': ['OtterVerif.Props.C07', 'OtterVerif.Props.C06Conc', 'OtterVerif.Props.C04Gen', 'OtterVerif.Pin.Policy'],
        'engines': [seq(['bound', 'mix', 'expiry', 'huge'], 400, 12000, lambda f: f['class'] == 'events'),
                    # which entries the size policy removes, replayed on the model after every call (incl. weights near 2^32)
                    {'kind': 'unit', 'name': 'policy', 'hcmd': 'unit-policy', 'dcmd': 'policy', 'quick': 60, 'thorough': 3000, 'chunk': 5},
                    {'kind': 'unit', 'name': 'concevents', 'hcmd': 'conc-events', 'dcmd': 'concevents', 'quick': 120, 'thorough': 6000, 'chunk': 10, 'args': [],
                     'accept': lambda f: 'C07' in f['msg'] or 'more than once' in f['msg']}],
    },
    'C09': {
        'modules': ['OtterVerif.Props.C10', 'OtterVerif.Props.C09'],
        'engines': [seq(['load'], 300, 10000, lambda f: f['nested'] == 1 and f['class'] in ('result', 'events', 'entry', 'C10', 'C11')),
                    # real goroutines: load 1, invalidation, load 2, load 1 returns late - its result must not be installed
                    {'kind': 'unit', 'name': 'concflight', 'hcmd': 'conc-flight', 'dcmd': 'concflight', 'quick': 64, 'thorough': 3000, 'chunk': 8, 'args': [],
                     'accept': lambda f: 'C09' in f['msg']},
                    # directed windows: a write landing between a Get's miss and the registration of its load, a Compute holding the bucket when the loader returns
                    {'kind': 'unit', 'name': 'concwindow', 'hcmd': 'conc-window', 'dcmd': 'concwindow', 'quick': 40, 'thorough': 2000, 'chunk': 10, 'args': [],
                     'accept': lambda f: 'C09' in f['msg']}],
    },
    'C10': {
        'modules': ['OtterVerif.Props.C10'],
        'engines': [seq(['load', 'mix'], 300, 10000,
                        lambda f: f['class'] in ('C10', 'C08') or (f['op'] in ('end', 'call', 'ret') and f['class'] in ('result', 'events'))),
                    # callers that JOIN another caller's load must see the documented mapping too (CONC-flight)
                    {'kind': 'unit', 'name': 'concflight', 'hcmd': 'conc-flight', 'dcmd': 'concflight', 'quick': 64, 'thorough': 3000, 'chunk': 8, 'args': [],
                     'accept': lambda f: 'C10' in f['msg'] or 'caller' in f['msg'] or 'Get returned' in f['msg'] or 'BulkGet returned' in f['msg']}],
    },
    'C11': {
        'modules': ['OtterVerif.Props.C11', 'OtterVerif.Props.C10'],
        'engines': [seq(['load', 'deferred'], 480, 12000,
                        # (an entry whose deadlines are wrong after a refresh is a C11 matter too: "a failed reload leaves it and its expiry untouched")
                        lambda f: f['class'] in ('C11', 'entry') or (f['op'] in ('end', 'call', 'ret') and f['class'] in ('result', 'events'))),
                    # asynchronous executor, real goroutines: readers keep getting the old value while the reload is in flight, the swap happens once or not at all
                    {'kind': 'unit', 'name': 'concrefresh', 'hcmd': 'conc-refresh', 'dcmd': 'concrefresh', 'quick': 60, 'thorough': 3000, 'chunk': 10, 'args': []},
                    # "reads of fresh entries trigger nothing": loader-backed Gets racing overwrites of a fresh key
                    {'kind': 'unit', 'name': 'concwindow', 'hcmd': 'conc-window', 'dcmd': 'concwindow', 'quick': 40, 'thorough': 2000, 'chunk': 10, 'args': [],
                     'accept': lambda f: 'C11' in f['msg']}],
    },
    'C12': {
        'modules': ['OtterVerif.Props.C12'],
        'engines': [seq(['huge', 'expiry', 'load'], 360, 9000,
                        lambda f: f['class'] in ('entry', 'result', 'events') and f['op'] not in ('end', 'call', 'ret')),
                    # deadlines under concurrency: the deadline of a read made under the bucket lock, an override racing a failed reload's "keep"
                    {'kind': 'unit', 'name': 'concwindow', 'hcmd': 'conc-window', 'dcmd': 'concwindow', 'quick': 40, 'thorough': 2000, 'chunk': 10, 'args': [],
                     'accept': lambda f: 'C12' in f['msg']}],
        'assumptions': ["int64 arithmetic of Go modelled as Int with explicit two's-complement wrap (wrapS 64)"],
    },
    'C19': {
        'modules': ['OtterVerif.Props.C19'],
        'engines': [seq(['persist'], 200, 6000, lambda f: f['class'] == 'C19')],
        'assumptions': ['encoding/gob is the real encoder/decoder (not modelled)'],
    },
    'C20': {
        'modules': ['OtterVerif.Props.C20', 'OtterVerif.Props.C20Conc'],
        'engines': [seq(['mix', 'load', 'bound'], 300, 10000, lambda f: f['class'] == 'C20'),
                    {'kind': 'unit', 'name': 'conclin', 'hcmd': 'conc-lin', 'dcmd': 'conclin', 'quick': 120, 'thorough': 6000, 'chunk': 20, 'args': ['-target', 'cache'],
                     'accept': lambda f: 'C20' in f['msg']},
                    # loads recorded = loader invocations, also for callers that only joined a load (CONC-flight)
                    {'kind': 'unit', 'name': 'concflight', 'hcmd': 'conc-flight', 'dcmd': 'concflight', 'quick': 64, 'thorough': 3000, 'chunk': 8, 'args': [],
                     'accept': lambda f: 'C20' in f['msg']}],
    },
}
UNIT_TRUST = ["translator /verif/tools/gen (integer leaf code -> Lean BitVec definitions)",
              "correspondence: in-package white-box harness (go build -overlay) prints the component's exact state digest after every call; the Lean model (otterdrv) must reproduce it",
              "maphash values are reported by the harness and trusted as inputs of the model"]


def unit(name, quick, thorough, chunk=10, args=None):
    return {'kind': 'unit', 'name': name, 'quick': quick, 'thorough': thorough, 'chunk': chunk, 'args': args or []}


PROPS['C18'] = {
    'modules': ['OtterVerif.Props.C18', 'OtterVerif.Props.C04Gen', 'OtterVerif.Pin.Policy'],
    'engines': [unit('sketch', 42, 1400, chunk=3),
                # "a new arrival displaces the victim only if its estimate is strictly greater": the eviction decisions of the real
                # policy (which consults the real sketch) are replayed on the model after every call
                unit('policy', 60, 3000, chunk=5)],
    'rule': 'UNIT-policy: every eviction decision of the real policy equals the model\'s (admit = strictly greater estimate, or >= 6 and the random draw). UNIT-sketch: random ensureCapacity/increment/frequency sequences (capacities 0..4097 incl. non-powers of two, hot keys to cross saturation and reset) on the real sketch; '
            'the model must reproduce size and the FNV digest of the whole table after every call; distinct = distinct transcripts with >= 10 lines',
    'trusted': UNIT_TRUST,
}

PROPS['C13'] = {
    'modules': ['OtterVerif.Props.C13'],
    'engines': [unit('wheel', 300, 20000, chunk=25),
                seq(['expiry', 'huge'], 200, 6000, lambda f: f['class'] == 'C13' or (f['class'] == 'C06' and 'Expiration' in f['msg']))],
    'rule': 'UNIT-wheel: random Add/Delete/re-Add/DeleteExpired sequences (deadlines across all five levels and their boundaries, deadlines behind the clock, jumps over several revolutions, negative/huge clock origins); '
            'the model must reproduce every bucket in link order and the expired list; the C13 oracle (nothing scheduled is overdue by a full tick, nothing expired early) is evaluated on every sweep. '
            'SEQ: after every CleanUp no entry with deadline + 2^30 < now is physically present. distinct = distinct transcripts with >= 10 lines',
    'trusted': UNIT_TRUST + SEQ_TRUST[1:],
}

CONC_TRUST = ["translator /verif/tools/gen: skeleton extraction (ordered sync/atomic, mutex and executor operations with branch structure) from the Go AST",
              "modelling assumptions: sync/atomic operations are sequentially consistent single steps, sync.Mutex gives mutual exclusion, every started goroutine eventually runs, "
              "code between two shared operations of a thread touches only thread-local or lock-protected data",
              "CONC runs use the real Go scheduler: they sample schedules, they do not enumerate them"]

PROPS['C14'] = {
    'modules': ['OtterVerif.Props.C14'],
    'engines': [{'kind': 'unit', 'name': 'concdrain', 'hcmd': 'conc-drain', 'dcmd': 'concdrain', 'quick': 120, 'thorough': 3000, 'chunk': 8, 'args': []}],
    'rule': 'CONC-drain: rounds of concurrent writers (disjoint keys) with InvalidateAll / Hottest / Coldest / GetMaximum / read callers on a size-bounded cache with the default executor; after all calls returned and the '
            'cache-started goroutines settled, without any further cache call: drainStatus idle, write buffer empty, OnDeletion count = atomic count, size <= maximum. distinct = distinct transcripts with >= 10 quiescent points',
    'trusted': CONC_TRUST,
}

PROPS['C16'] = {
    'modules': ['OtterVerif.Props.C16'],
    'engines': [unit('mpsc', 120, 6000, chunk=10),
                {'kind': 'unit', 'name': 'concmpsc', 'hcmd': 'conc-mpsc', 'dcmd': 'concmpsc', 'quick': 120, 'thorough': 6000, 'chunk': 10, 'args': []},
                {'kind': 'unit', 'name': 'concpolicy', 'hcmd': 'conc-policy', 'dcmd': 'concpolicy', 'quick': 48, 'thorough': 2000, 'chunk': 4, 'args': []},
                # an update/delete event the buffer accepted and never delivered shows as a value that left the cache without OnDeletion
                {'kind': 'unit', 'name': 'concevents', 'hcmd': 'conc-events', 'dcmd': 'concevents', 'quick': 60, 'thorough': 3000, 'chunk': 10, 'args': [],
                 'accept': lambda f: 'without an OnDeletion event' in f['msg']},
                # the hand-over path of a writer whose offers were refused (child process with a processor count that is not a power of two)
                {'kind': 'unit', 'name': 'concdrain', 'hcmd': 'conc-drain', 'dcmd': 'concdrain', 'quick': 48, 'thorough': 1200, 'chunk': 8, 'args': [],
                 'accept': lambda f: 'C16' in f['msg']}],
    'rule': 'CONC-drain order runs: one goroutine rewrites one key 2-3 times the buffer capacity under a stalled executor; replaced values must reach OnDeletion in write order. CONC-policy (shared with C04/C05; every fourth script stalls the executor so that the write buffer fills up and writers hand their event over directly): no cache write is forgotten by the policy - table vs deques at quiescence. UNIT-mpsc: sequential push/pop phases over initial/maximum capacity pairs (2..100 / 4..2048), every chunk switch and the full/empty boundaries; model must reproduce the five index words and chunk lengths, oracle = bounded FIFO. '
            'CONC-mpsc: 1-12 real producers with (a) no consumer and offers that fit: no refusal allowed, (b) a consumer: delivery log exactly-once and in per-producer order. distinct = distinct transcripts with >= 10 lines',
    'trusted': UNIT_TRUST + CONC_TRUST,
}

POLICY_ENGINES = [unit('policy', 60, 3000, chunk=5),
                  {'kind': 'unit', 'name': 'policy', 'hcmd': 'unit-policy', 'dcmd': 'policy', 'quick': 60, 'thorough': 3000, 'chunk': 5, 'args': ['-ooo']},
                  {'kind': 'unit', 'name': 'concpolicy', 'hcmd': 'conc-policy', 'dcmd': 'concpolicy', 'quick': 84, 'thorough': 3000, 'chunk': 7, 'args': []}]
POLICY_RULE = ('UNIT-policy: add/update/delete/access/setMaximum/evictNodes/climb sequences on the real policy (weighted and unweighted, zero/oversized weights, SetMaximum incl. 0), in write order and with '
               'out-of-order events (add of a replaced node, update whose old node is unknown, delete before add); the model must reproduce the three deques, six counters and evicted nodes after every call; '
               'audit after every call: linked = mapped, no dead node linked, counters = weight sums, bound after evictNodes. CONC-policy: 2-8 goroutines rewriting/invalidating/reading 2-9 keys of a small cache, '
               'audit at every quiescent point. SEQ: bound/size/wsize/hottest/coldest oracles incl. deferred executor with rewrites before maintenance. distinct = distinct transcripts with >= 10 lines')
PROPS['C04'] = {
    'modules': ['OtterVerif.Props.C04', 'OtterVerif.Props.C04Gen', 'OtterVerif.Pin.Policy'],
    'engines': POLICY_ENGINES + [seq(['bound', 'deferredk1', 'mix'], 240, 9000, lambda f: f['class'] in ('C04',) or f['op'] == 'op_bound')],
    'rule': POLICY_RULE, 'trusted': UNIT_TRUST + CONC_TRUST + SEQ_TRUST[1:],
}
PROPS['C05'] = {
    'modules': ['OtterVerif.Props.C04', 'OtterVerif.Props.C05', 'OtterVerif.Props.C04Gen', 'OtterVerif.Pin.Policy'],
    'engines': POLICY_ENGINES + [seq(['bound', 'deferredk1', 'deferred'], 240, 9000, lambda f: f['class'] in ('C05',)),
                                 # "no entry present but unknown to the expiration policy": an entry the timer wheel does not know is never swept
                                 seq(['huge', 'expiry'], 160, 6000, lambda f: f['class'] in ('C05', 'C13'))],
    'rule': POLICY_RULE, 'trusted': UNIT_TRUST + CONC_TRUST + SEQ_TRUST[1:],
}

PROPS['C17'] = {
    'modules': ['OtterVerif.Props.C17'],
    'engines': [unit('ring', 120, 6000, chunk=10),
                {'kind': 'unit', 'name': 'concring', 'hcmd': 'conc-ring', 'dcmd': 'concring', 'quick': 96, 'thorough': 4000, 'chunk': 8, 'args': []},
                {'kind': 'unit', 'name': 'hookring', 'hcmd': 'hook-ring', 'dcmd': 'concring', 'quick': 200, 'thorough': 8000, 'chunk': 20, 'args': []},
                # at the cache level: after quiescence and maintenance no recorded read is left in the buffer (also after SetMaximum changes)
                {'kind': 'unit', 'name': 'concpolicy', 'hcmd': 'conc-policy', 'dcmd': 'concpolicy', 'quick': 48, 'thorough': 3000, 'chunk': 4, 'args': [],
                 'accept': lambda f: 'C17' in f['msg']},
                seq(['mix', 'bound'], 120, 4000, any_fail)],
    'rule': 'HOOK-ring: the striped buffer with another goroutine\'s action (expansion, another recording, a drain) placed exactly at a producer\'s publication point through a hooked node: accepted = delivered. UNIT-ring: add/drain phases on one ring incl. full and empty boundaries. CONC-ring: 1-16 recorders racing one draining consumer on the striped buffer (maximum stripes 1..64): accepted vs delivered sets, capacity, quiescent delivery. '
            'SEQ (mix/bound): cache results are exact against Spec, which has no read buffer, with read-heavy scripts that saturate the buffer. distinct = distinct transcripts with >= 10 lines',
    'trusted': UNIT_TRUST + CONC_TRUST + SEQ_TRUST[1:],
}

def conc(name, hcmd, quick, thorough, chunk, args=None):
    return {'kind': 'unit', 'name': name, 'hcmd': hcmd, 'dcmd': name, 'quick': quick, 'thorough': thorough, 'chunk': chunk, 'args': args or []}


LIN_RULE = ('CONC-lin: 2-8 real goroutines, 1-5 keys, unique written values, every write stamped inside its critical section, automatic removals entered at the atomic deletion handler; '
            'the Lean judge Lin.checkKey decides linearizability of every key\'s history exactly, that each compute callback ran once, and (cache) hits+misses = counted lookups, (table) Size = keys = Range. distinct = distinct histories with >= 10 operations')
RESIZE_RULE = ('; CONC-resize: 1-4 Computes whose remapping function is blocked inside the bucket critical section (present and absent keys, '
               'empty and full chains) while 1-3 goroutines grow or shrink the table across the serial/parallel copy threshold (0..2000 entries): '
               'the function runs exactly once, its write is readable afterwards, iteration/size/All agree with what was written, nobody hangs')
PROPS['C02'] = {
    'modules': ['OtterVerif.Props.C02', 'OtterVerif.Props.C15'],
    'engines': [conc('conclin', 'conc-lin', 240, 12000, 20, ['-target', 'cache']), conc('conclin', 'conc-lin', 120, 6000, 20, ['-target', 'table']),
                conc('concresize', 'conc-resize', 120, 6000, 10),
                # each operation behaves as on a sequential map keyed by == (floats, strings, interfaces ...); callbacks run once also when the insert grows the table
                {'kind': 'unit', 'name': 'keys', 'hcmd': 'unit-keys', 'dcmd': 'keys', 'quick': 40, 'thorough': 2000, 'chunk': 10, 'args': []},
                # a loader-backed Get racing overwrites of a key that is present throughout never loads
                {'kind': 'unit', 'name': 'concwindow', 'hcmd': 'conc-window', 'dcmd': 'concwindow', 'quick': 40, 'thorough': 2000, 'chunk': 10, 'args': [],
                 'accept': lambda f: 'C02' in f['msg']},
                # a value returned by Get (also to a caller that only joined the load) is readable by the same goroutine afterwards
                {'kind': 'unit', 'name': 'concflight', 'hcmd': 'conc-flight', 'dcmd': 'concflight', 'quick': 64, 'thorough': 3000, 'chunk': 8, 'args': [],
                 'accept': lambda f: 'C02' in f['msg']}],
    'rule': LIN_RULE + RESIZE_RULE, 'trusted': CONC_TRUST + ['Lin.checkKey (Lean executable) is the judge; the in-critical-section stamps come from user callbacks the cache invokes under the bucket lock'],
}
PROPS['C15'] = {
    'modules': ['OtterVerif.Props.C15'],
    'engines': [conc('conclin', 'conc-lin', 240, 12000, 20, ['-target', 'table']), conc('conclin', 'conc-lin', 120, 6000, 20, ['-target', 'cache']),
                conc('concresize', 'conc-resize', 120, 6000, 10),
                {'kind': 'unit', 'name': 'keys', 'hcmd': 'unit-keys', 'dcmd': 'keys', 'quick': 40, 'thorough': 2000, 'chunk': 10, 'args': []},
                seq(['mix', 'bound'], 120, 4000, any_fail)],
    'rule': LIN_RULE + RESIZE_RULE + '; SEQ drives the table through the cache with InitialCapacity 1..1000 (iteration = exactly the live entries, each once)',
    'trusted': CONC_TRUST + SEQ_TRUST[1:],
}
PROPS['C08'] = {
    'modules': ['OtterVerif.Props.C08'],
    'engines': [conc('concflight', 'conc-flight', 96, 4000, 8),
                {'kind': 'unit', 'name': 'concrefresh', 'hcmd': 'conc-refresh', 'dcmd': 'concrefresh', 'quick': 40, 'thorough': 2000, 'chunk': 10, 'args': [],
                 'accept': lambda f: 'C08' in f['msg']},
                {'kind': 'unit', 'name': 'concwindow', 'hcmd': 'conc-window', 'dcmd': 'concwindow', 'quick': 40, 'thorough': 2000, 'chunk': 10, 'args': [],
                 'accept': lambda f: 'C08' in f['msg']},
                seq(['load'], 200, 8000, lambda f: f['class'] in ('C08', 'C10') or f['op'] in ('hang', 'call', 'ret', 'end'))],
    'rule': 'CONC-flight: rounds of 2-9 concurrent Get/BulkGet callers over 1-3 absent keys behind loaders blocked on a gate, outcomes value/error/not-found/panic: loader executions per key never overlap, one execution per successful round, '
            'callers receive the joined load\'s outcome, no hang, no in-flight record at quiescence. SEQ load profile with a watchdog for operations that never return. distinct = distinct transcripts with >= 10 lines',
    'trusted': CONC_TRUST + SEQ_TRUST[1:],
}

for _p in PROPS.values():
    _p.setdefault('rule', SEQ_RULE)
    _p.setdefault('trusted', SEQ_TRUST)


# ---- pinned pure computations (Gen.* regenerated from the Go source on every run; Pin.* = what each one is expected to mean, with
# the operand names and per-function site counts): charged to the properties whose anchored code they belong to
PINS = {
    'C01': ['CacheRead', 'CacheWrite', 'CacheMisc', 'OptSites', 'NodeSites'],
    'C02': ['MapSites'],
    'C03': ['CacheRead', 'NodeSites'],
    'C04': ['Policy', 'DequeSites'],
    'C05': ['Policy', 'DequeSites', 'NodeSites'],
    'C06': ['CacheWrite'],
    'C07': ['CacheWrite', 'Policy'],
    'C08': ['CacheLoad', 'FlightSites'],
    'C09': ['CacheLoad', 'FlightSites'],
    'C10': ['CacheLoad', 'FlightSites'],
    'C11': ['CacheLoad', 'CacheRead', 'CalcSites'],
    'C12': ['CacheRead', 'CalcSites'],
    'C13': ['Wheel'],
    'C14': ['CacheMaint'],
    'C15': ['MapSites'],
    'C16': ['MpscSites', 'CacheMaint'],
    'C17': ['LossySites'],
    'C18': ['SketchSites', 'Policy'],
    'C19': ['PersistSites'],
    'C20': ['StatsSites', 'AdderSites'],
}
# Impl.Table refines Spec (per-key decision code of cache_impl.go): charged to the properties it speaks about
for _pid in ('C01', 'C03', 'C06', 'C12', 'C20'):
    if 'OtterVerif.Props.C01Refine' not in PROPS[_pid]['modules']:
        PROPS[_pid]['modules'].append('OtterVerif.Props.C01Refine')
for _pid in ('C09', 'C10', 'C11'):
    if 'OtterVerif.Props.C10Refine' not in PROPS[_pid]['modules']:
        PROPS[_pid]['modules'].append('OtterVerif.Props.C10Refine')
# automatic removals inside the refinement (evictNode + deleteNodeFromMap): truthful cause, justified-removal input of the spec
for _pid in ('C01', 'C06', 'C07', 'C09', 'C13', 'C20'):
    if 'OtterVerif.Props.C07Evict' not in PROPS[_pid]['modules']:
        PROPS[_pid]['modules'].append('OtterVerif.Props.C07Evict')
# observers inside the refinement: GetEntry / GetEntryQuietly snapshots, iteration filter
for _pid in ('C01', 'C03', 'C11'):
    if 'OtterVerif.Props.C03Read' not in PROPS[_pid]['modules']:
        PROPS[_pid]['modules'].append('OtterVerif.Props.C03Read')
# conservation (written = present + reported) over every history of Impl.Table, removals included
for _pid in ('C06', 'C01'):
    if 'OtterVerif.Props.C06Conserve' not in PROPS[_pid]['modules']:
        PROPS[_pid]['modules'].append('OtterVerif.Props.C06Conserve')
# policy and table composed at quiescence: WeightedSize = total weight of the entries present, bound and eviction guard at the table
for _pid in ('C04', 'C05', 'C07'):
    if 'OtterVerif.Props.C04Table' not in PROPS[_pid]['modules']:
        PROPS[_pid]['modules'].append('OtterVerif.Props.C04Table')
# InvalidateAll inside the refinement; one history theorem over every modelled operation (simulation + conservation)
for _pid in ('C06', 'C01'):
    if 'OtterVerif.Props.C06All' not in PROPS[_pid]['modules']:
        PROPS[_pid]['modules'].append('OtterVerif.Props.C06All')
# table and size policy jointly over every sequential history: mapped <=> introduced and alive is an invariant; bound after every operation
for _pid in ('C04', 'C05', 'C07'):
    if 'OtterVerif.Props.C04Joint' not in PROPS[_pid]['modules']:
        PROPS[_pid]['modules'].append('OtterVerif.Props.C04Joint')
# timer wheel and table jointly: every mapped node is scheduled, the sweep loses nothing, C13 stated on the mapped nodes
for _pid in ('C13', 'C05'):
    if 'OtterVerif.Props.C13Joint' not in PROPS[_pid]['modules']:
        PROPS[_pid]['modules'].append('OtterVerif.Props.C13Joint')
# the glue between write events and the two policies (runTask / onAccess) = the steps of the joint models; guards regenerated
for _pid in ('C05', 'C13', 'C06'):
    if 'OtterVerif.Props.C05Maint' not in PROPS[_pid]['modules']:
        PROPS[_pid]['modules'].append('OtterVerif.Props.C05Maint')
# size policy, timer wheel and table in one joint state (insertion with eviction)
for _pid in ('C05', 'C13', 'C04'):
    if 'OtterVerif.Props.C05All' not in PROPS[_pid]['modules']:
        PROPS[_pid]['modules'].append('OtterVerif.Props.C05All')
for _pid, _mods in PINS.items():
    for _m in _mods:
        _name = 'OtterVerif.Pin.' + _m
        if _name not in PROPS[_pid]['modules']:
            PROPS[_pid]['modules'].append(_name)
