#!/usr/bin/env python3
"""regenerate /verif/seeded/SEEDS.md from the meta.json / trial.json of every archived seeded change"""
import json, glob, os
rows = []
for d in sorted(glob.glob('/verif/seeded/[CRSTUVWXYZ]???')):
    n = os.path.basename(d)
    meta = json.load(open(d + '/meta.json')) if os.path.exists(d + '/meta.json') else {}
    tr = json.load(open(d + '/trial.json')) if os.path.exists(d + '/trial.json') else {}
    summ = (meta.get('summary') or '').replace('\n', ' ').replace('|', '/')
    if len(summ) > 230:
        summ = summ[:227] + '...'
    caught = []
    for p, r in tr.get('checks', {}).items():
        if r['rc'] == 1:
            caught.append(p + (' (proof/skeleton obligation only, no-failing-input-found)' if r['no_failing_input'] and r['no_failing_input'] >= r['violations'] else ' (failing input)'))
        else:
            caught.append(p + ' (silent: not this property)')
    ok = tr.get('applies') and tr.get('suite_pass') and tr.get('demo_fails_with') and tr.get('demo_passes_without')
    rows.append((n, ', '.join(meta.get('files_changed', [])), summ, 'yes' if ok else 'NO: ' + json.dumps({k: tr.get(k) for k in ('applies', 'suite_pass', 'demo_fails_with', 'demo_passes_without')}),
                 '; '.join(caught), tr.get('head', '?'), tr.get('verif', '?')))
out = ['# Seeded changes', '',
       'Each directory holds `patch.diff` (applies to /repo HEAD with `git -C /repo apply`), the demonstration (`demo.sh` + test file),',
       '`meta.json` (the sub-agent\'s own description; it saw only the property text and a scratch worktree) and `trial.json`, the record of',
       '`tools/trialseed.sh`: the change applies, the whole existing suite passes with it (up to three attempts: the unmodified tree has three',
       'timing-dependent tests), the demonstration fails with it and passes without it, and the listed checks were run against it in an',
       'isolated copy of /verif (quick tier). `patch.orig.diff`, where present, is the sub-agent\'s patch against the tree before later `fix:`',
       'commits; `patch.diff` is the same change ported to HEAD. None of these changes is ever committed to /repo.', '',
       '| seed | files | change (sub-agent\'s summary) | confirmed | checks run against it | /repo | /verif |', '|---|---|---|---|---|---|---|']
for r in rows:
    out.append('| ' + ' | '.join(r) + ' |')
n_ok = sum(1 for r in rows if r[3] == 'yes')
n_caught = sum(1 for r in rows if '(failing input)' in r[4] or 'obligation only' in r[4])
out += ['', f'{len(rows)} seeds, {n_ok} confirmed, {n_caught} reported by at least one check; '
        f'{sum(1 for r in rows if "(failing input)" in r[4])} with a concrete failing input as the replay.']
open('/verif/seeded/SEEDS.md', 'w').write('\n'.join(out) + '\n')
print(out[-1])
