#!/bin/bash
# usage: tryseed.sh <seed-dir> <property>... : apply patch to /repo, run demo + checks, revert
D=$1; shift
cd /repo
if ! git apply --check $D/patch.diff 2>/dev/null; then echo "PATCH DOES NOT APPLY: $D"; exit 3; fi
git apply $D/patch.diff
echo "--- demo:"; (bash $D/demo.sh >/tmp/demo.out 2>&1; echo "demo rc=$?"; tail -3 /tmp/demo.out)
cd /verif
for p in "$@"; do echo "--- check $p:"; ./check $p --tier quick 2>&1 | grep -v "^\[" | head -3; ./check $p --tier quick >/dev/null 2>&1; echo "rc=$?"; done
cd /repo && git checkout -- . && git status --short | head -3
