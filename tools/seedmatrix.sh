#!/bin/bash
# usage: seedmatrix.sh [jobs]  — trial of every archived seed against its property's check (plus related ones) from a
# snapshot of /verif (so that edits in /verif during the run do not matter). Results: /verif/seeded/<name>/trial.json
J=${1:-4}
SNAP=/tmp/vsnap
rm -rf $SNAP; rsync -a --exclude .git --exclude out --exclude .scratch --exclude seeded /verif/ $SNAP/
rel() { case $(echo $1 | sed "s/^[RSTUV]/C/") in
  C01*) echo "C01 C03";; C02*) echo "C02 C15";; C03*) echo "C03 C01";; C04*) echo "C04 C05";; C05*) echo "C05 C04";;
  C06*) echo "C06 C01";; C07*) echo "C07 C13";; C08*) echo "C08";; C09*) echo "C09 C10";; C10*) echo "C10";; C11*) echo "C11";;
  C12*) echo "C12 C01";; C13*) echo "C13 C06";; C14*) echo "C14";; C15*) echo "C15 C02";; C16*) echo "C16 C14";; C17*) echo "C17";;
  C18*) echo "C18";; C19*) echo "C19";; C20*) echo "C20";; esac; }
export -f rel
ls -d /verif/seeded/${SEEDS:-C???} | xargs -P $J -I{} bash -c 'n=$(basename {}); VERIF_SRC=/tmp/vsnap /verif/tools/trialseed.sh {} $n $(rel $n) 2>&1 | tail -1'
rm -rf $SNAP
