#!/bin/bash
# usage: devseq.sh <seed-name> <profile> [n] [seed]
# Runs the SEQ engine (one profile) against a seeded change in a scratch worktree (/tmp/wt/dev) - never touches /repo's working tree.
S=$1; P=$2; N=${3:-100}; SD=${4:-1}
WT=/tmp/wt/dev
[ -d $WT ] || git -C /repo worktree add -q --detach $WT HEAD
git -C $WT checkout -q -- . ; git -C $WT clean -fdq
git -C $WT apply /verif/seeded/$S/patch.diff || exit 2
VERIF_REPO=$WT /verif/harness/build.sh /verif/.scratch/verifh_dev >/dev/null 2>&1 || { echo "build failed"; exit 3; }
/verif/.scratch/verifh_dev seq -seed $SD -profile $P -from 0 -n $N 2>/dev/null | /verif/lean/.lake/build/bin/seqdrv | grep -v "^ok" | cut -c1-360 | awk '{c[$4]++; if (c[$4]<=2) print} END {for (k in c) print k, c[k]}'
git -C $WT checkout -q -- . ; rm -f /verif/.scratch/verifh_dev
