#!/usr/bin/env python3
"""mkpins.py <Mod> [<Mod> ...] — write /verif/lean/OtterVerif/Pin/<Mod>.lean from the CURRENT Gen/<Mod>.lean.

Run by hand when the model is (re)validated against a source tree, never by a check: the Pin files are committed and
hand-owned.  A pin states, for all values of the identifiers a generated definition mentions, that the regenerated
definition equals the expression recorded here — i.e. that a pure computation of the Go source still means what it
meant when the hand-written models were written against it and validated by the correspondence engines.  The names of
the identifiers (siteParams) and the number of sites per function (shape) are pinned too, so that swapping one operand
for another of the same type is seen.
"""
import re, sys
V = '/verif/lean/OtterVerif'
for mod in sys.argv[1:]:
    src = open(f'{V}/Gen/{mod}.lean').read()
    out = [f'''/-
  Pin.{mod} — HAND-OWNED (bootstrapped once by tools/mkpins.py, then reviewed): what every pure computation that
  the translator extracts into Gen.{mod} is expected to mean.  Re-checked against the regenerated Gen.{mod} on every
  run; a pin that no longer proves names the Go expression whose meaning changed.
-/
import OtterVerif.Gen.{mod}

namespace OtterVerif.Pin.{mod}
open OtterVerif OtterVerif.Gen.{mod}

/-- `rfl` when the regenerated term is the recorded one; otherwise try to see through a harmless rewrite
    (operand order of commutative operators) -/
local macro "pin_tac" d:ident : tactic =>
  `(tactic| first
    | rfl
    | (simp only [$d:ident]; ac_rfl)
    | (simp [$d:ident, BitVec.add_comm, BitVec.and_comm, BitVec.or_comm, BitVec.xor_comm, BitVec.mul_comm, Bool.and_comm, Bool.or_comm]))
''']
    for m in re.finditer(r'^def (\w+)((?: \([^)]*\))*) +: ([^\n]*?) :=\n((?:  [^\n]*\n)+)', src, re.M):
        name, params, ty, body = m.groups()
        if name in ('siteParams', 'shape'):
            continue
        if ty.startswith('List'):
            continue
        args = ' '.join(re.findall(r'\((\w+) :', params))
        body = body.rstrip('\n')
        if '\n' in body:
            body = '(\n' + '\n'.join('    ' + l for l in body.split('\n')) + ')'
        else:
            body = body.strip()
        out.append(f'theorem {name}_pin{params} :\n    Gen.{mod}.{name} {args} = {body} := by pin_tac Gen.{mod}.{name}\n')
    for tbl in ('siteParams', 'shape'):
        m = re.search(r'^def ' + tbl + r' : ([^\n]*?) := (\[.*?\])\n\n', src + '\n', re.M | re.S)
        if m:
            out.append(f'theorem {tbl}_pin : Gen.{mod}.{tbl} = {m.group(2)} := by rfl\n')
    out.append(f'end OtterVerif.Pin.{mod}\n')
    open(f'{V}/Pin/{mod}.lean', 'w').write('\n'.join(out))
    print(mod, len(out) - 2, 'pins')
