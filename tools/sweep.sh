#!/bin/bash
# usage (from any copy of /verif, e.g. a `vp run` snapshot): tools/sweep.sh <tier> <seed>...
# Builds the framework in this copy and runs every check for every seed; prints the summary and VIOLATION lines only.
H=$(cd "$(dirname "$0")/.." && pwd)
export VERIF_HOME=$H GOFLAGS=-mod=mod GOPROXY=off; unset GOSUMDB
TIER=$1; shift
cd $H; mkdir -p .bin .scratch out evidence
(cd tools/gen && go build -o $H/.bin/verifgen .) || exit 2
(cd /repo && $H/.bin/verifgen $H/lean/OtterVerif/Gen) || exit 2
(cd lean && lake build OtterVerif seqdrv otterdrv >/dev/null 2>&1) || { echo "lake build failed"; exit 2; }
for seed in "$@"; do
  for p in $(python3 -c "import json;print(' '.join(c['property_id'] for c in json.load(open('MANIFEST.json'))['checks']))"); do
    VERIF_SEED=$seed ./check $p --tier $TIER 2>&1 | grep "^VIOLATION\|^KNOWN\|^\[C" 
  done
done
echo "sweep done"
