#!/bin/bash
# run every registered check (quick by default) on the current tree and validate the evidence files
TIER=${1:-quick}
cd /verif
[ -n "$(git -C /repo status --short | grep -v "^??")" ] && echo "WARNING: /repo has local modifications"
fail=0
for p in $(python3 -c "import json;print(' '.join(c['property_id'] for c in json.load(open('MANIFEST.json'))['checks']))"); do
  ./check $p --tier $TIER > /tmp/runall_$p.log 2>&1; rc=$?
  tail -1 /tmp/runall_$p.log
  if [ $rc -ne 0 ]; then fail=1; grep "VIOLATION\|KNOWN" /tmp/runall_$p.log | head -3; fi
done
/opt/veriftools/pyvenv/bin/python - <<'PY'
import json,jsonschema,glob
sch=json.load(open('/root/.vp/EVIDENCE.schema.json'))
for f in sorted(glob.glob('/verif/evidence/*.json')):
    e=json.load(open(f))
    try:
        jsonschema.validate(e,sch)
        c=e['coverage']
        assert c['obligations']==c['discharged'] and c['discharged']>=1, 'discharged'
        assert e['violations']==0, 'violations'
    except Exception as ex:
        print('BAD EVIDENCE',f,str(ex)[:100])
jsonschema.validate(json.load(open('/verif/MANIFEST.json')),json.load(open('/root/.vp/MANIFEST.schema.json')))
print('evidence + manifest validated')
PY
exit $fail
