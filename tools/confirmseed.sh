#!/bin/bash
# usage: confirmseed.sh <seed-dir> <name> : confirm a seeded change in a scratch worktree of /repo's HEAD:
#   (1) applies, builds, whole test suite passes with it; (2) demo fails with it; (3) demo passes without it.
# writes <seed-dir>/confirm.json ; copies nothing.
D=$1; NAME=$2
export GOFLAGS=-mod=mod GOPROXY=off
WT=/tmp/wt/confirm_$NAME
rm -rf $WT; git -C /repo worktree prune; git -C /repo worktree add -q --detach $WT HEAD || exit 2
cd $WT
res() { echo "{\"name\":\"$NAME\",\"applies\":$1,\"suite_pass\":$2,\"demo_fails_with\":$3,\"demo_passes_without\":$4,\"head\":\"$(git -C /repo rev-parse --short HEAD)\"}" > $D/confirm.json; cat $D/confirm.json; }
if ! git apply $D/patch.diff 2>/dev/null; then res false null null null; cd /; git -C /repo worktree remove --force $WT; exit 3; fi
go build ./... >/dev/null 2>&1 || { res true false null null; cd /; git -C /repo worktree remove --force $WT; exit 4; }
SUITE=true
timeout 600 go test -vet=off -count=1 -timeout 300s ./... >/tmp/confirm_$NAME.log 2>&1 || SUITE=false
bash $D/demo.sh >/tmp/confirm_demo_$NAME.log 2>&1 && DW=false || DW=true
git checkout -q -- . ; git clean -fdq -e _seeded -e _seeded2 >/dev/null 2>&1
bash $D/demo.sh >/tmp/confirm_demo2_$NAME.log 2>&1 && DO=true || DO=false
res true $SUITE $DW $DO
cd /; git -C /repo worktree remove --force $WT
