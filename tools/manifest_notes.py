HOOK_COMMITS = []

SEQ_NOTE = ('Trusted: Lean kernel (+ propext, Quot.sound, Classical.choice where #print axioms shows them); the Go->Lean translator for the regenerated parts; '
            'the SEQ correspondence (differential testing: its reach is bounded by the generators; distribution in evidence). '
            'Modelled, not verified: Go runtime, hash table (C15), gob, user callbacks. The theorems are about Spec; the tie Spec<->code is the per-run correspondence.')

NOTES = {
    'C01': {'technique': 'Lean 4 proof (abstract map laws + per-operation characterisation of Spec) + correspondence check',
            'text': 'Theorems: Spec is a map with deadlines (finite-map laws, distinct keys preserved, each operation characterised pointwise on the abstraction, iteration sound and complete) for all states/keys/values. '
                    'Tie: every public operation of the real cache is executed on generated scripts over all feature combinations and judged against Spec by the Lean executable; any unexplained result or event is a violation with a shrunk replay.',
            'note': SEQ_NOTE},
    'C03': {'technique': 'Lean 4 proof (dead entries unobservable, no resurrection) + regenerated predicates + correspondence check',
            'text': 'Theorems for every state/key/config: no operation returns, reports or iterates an entry whose deadline has passed; no non-write operation (reads, deadline setters, invalidation, eviction, clock advance) revives one; '
                    'regenerated: all 6 expiring node layouts compare expiresAt <= now, persistence filter is <=. Tie: SEQ scripts aimed at expired-but-unswept keys (deadtouch count in evidence).',
            'note': SEQ_NOTE + ' Schedules quantifier: covered only for single-goroutine interleavings of operations with clock advances; concurrent reads are C02 (not claimed yet).'},
    'C06': {'technique': 'Lean 4 proof (interleaving model Conc.Events: exactly-once reporting under every schedule; multiset conservation per operation, truthful cause) + skeleton equality + correspondence check + concurrent event tally',
            'engine': 'proof+gen-skeleton+seq+conc-events',
            'text': 'Conc.Events (any number of concurrent writers, invalidations, evictions by the maintenance, task executions in any order): OnDeletion and OnAtomicDeletion each report a node at most once; OnDeletion only what left the table and was reported atomically; nothing invented, nothing installed reported; an unreported departure is carried by exactly one pending task; at quiescence every departed node reported exactly once by both. 12 skeleton equalities tie the steps to atomicSet/atomicDelete/deleteNodeFromMap/afterWrite/afterDelete/deleteNode/evictNode/runTask/notify*/makeRetired/makeDead (callers, arguments of getTask and notifyDeletion, branches). Theorems for every state with distinct keys: present-after + reported = present-before + written (multisets) for write/remove/invalidateAll/eviction; cause is Expiration iff the deadline had passed. '
                    'Tie: judge demands OnAtomicDeletion events exactly as predicted and OnDeletion deliveries equal to them event for event (sync executor: per operation; deferred executor: at quiescence).',
            'note': SEQ_NOTE + ' The concurrent model abstracts values and causes (node identities only); causes are decided sequentially (Spec) and per recorded concurrent run (CONC-events). Asynchronous delivery through the default executor is exercised by CONC-events, not modelled.'},
    'C07': {'technique': 'Lean 4 proof (the eviction-acceptance oracle admits only justified removals) + correspondence check',
            'text': 'Theorems for every state/config/event: the oracle accepts Overflow only if total weight > maximum or the entry alone exceeds it, never for zero-weight entries or unbounded caches; Expiration only if the deadline passed; only these two causes. '
                    'Tie: every automatic removal the real cache reports in a SEQ run must be accepted by that oracle at that moment.',
            'note': SEQ_NOTE},
    'C09': {'technique': 'Lean 4 proof (interleaving model Conc.Flight: under every schedule a call whose record a write/invalidation/eviction removed never writes its result; spec level: install only by the registered call, every write unregisters) + correspondence with writes executed inside the loader + concurrent supersede rounds',
            'text': 'Theorems for every state: a superseded call installs nothing; Set/Compute/Invalidate/eviction unregister the in-flight call; hence a write between registration and completion wins. Conc.Flight (Props.C09): for every reachable state of the single-flight protocol (unboundedly many callers, writers, call objects), installed i implies the call was never removed by a writer and its loader has returned; the result is written exactly in the step that finds the call still registered. '
                    'Tie: SEQ scripts run Set/Invalidate/Compute/clock advances from inside loader callbacks (single and bulk, load and refresh).',
            'note': SEQ_NOTE + ' The window between loader return and installation is exercised by the clock hook (SEQ) and by CONC-flight supersede rounds with real goroutines (load 1, invalidation, load 2, load 1 returns late: its value must never be cached).'},
    'C10': {'technique': 'Lean 4 proof (outcome rules of load completion; shape of BulkGet for every request list and loader answer, over the functions the judge itself uses) + correspondence check over loader result shapes + concurrent single-flight judge',
            'text': 'BulkGet shape (Spec.Bulk): the request is partitioned into hits and misses, each distinct key once; the loader is asked for exactly the misses; the result holds requested keys only, each at most once, every value from the cache or from the loader for a key it was asked for; unsupplied keys are absent; volunteered keys are cached, not returned. Theorems for every state/outcome: ok caches exactly the loaded value, error leaves values and expirations unchanged, not-found removes, other keys untouched, single registration per key. '
                    'Tie: SEQ scripts with full/partial/extra/empty/error/not-found/panic loader results, duplicates, stale and expired keys; loader argument lists and results compared.',
            'note': SEQ_NOTE},
    'C11': {'technique': 'Lean 4 proof (reload outcome and refresh-deadline rules; Conc.Flight covers reloads as loads) + correspondence check (sync and deferred executor) + concurrent refresh rounds on the asynchronous executor',
            'engine': 'proof+seq+conc-refresh',
            'text': 'Theorems: a read returns the cached value stale or not; stale iff refresh deadline reached; reload ok/failed/not-found rules; refresh deadline per calculator kind. '
                    'Tie: judge requires exactly one reload (with the old value) per stale read, none for fresh reads, exactly one channel result per Refresh, no channel without refresh policy.',
            'note': SEQ_NOTE + ' CONC-refresh (real goroutines, one goroutine per executor task, manual clock): crowds of Get/GetIfPresent/GetEntry readers before and while a gated reload is in flight all get the old value, loader invocations never overlap, the outcome (ok / error / not-found in every errors.Is shape) is applied once, an explicit Refresh delivers exactly one result. A reload task queued by an earlier stale read may legitimately run after the first reload finished (the oracle demands non-overlap, not a single invocation).'},
    'C12': {'technique': 'Lean 4 proof over the regenerated deadline expressions (all int64 clock values and durations) + correspondence check',
            'text': 'Theorems over Gen.Deadline (translated from cache_impl.go on every run): each of the four deadline sites equals satAdd now d for every int64 now and every d in [1, MaxInt64]; never in the past; result in range; exactly four sites exist. '
                    'Spec theorems: per-calculator deadline rules, visibility iff now < expiresAt. Tie: SEQ with durations up to MaxInt64 and clock origins incl. negative, today, near MaxInt64.',
            'note': SEQ_NOTE},
    'C19': {'technique': 'Lean 4 proof (restored deadlines exact, nothing dead loaded, all loaded if fits) + regenerated filter + correspondence with the real gob encoder',
            'text': 'Theorems for every saved list/offset/limit: restored deadline = saved deadline when in the future, now+1 when passed; no dead entry attempted; sublist in file order; everything attempted when it fits. Regenerated: filter is <=. '
                    'Tie: save/loadfrom ops on arbitrary script-produced contents, equal/smaller/larger target maxima, all calculator kinds.',
            'note': SEQ_NOTE},
    'C20': {'technique': 'Lean 4 proof (interleaving model Conc.Adder of the striped counter: stripes sum to the total, a concurrent Value() is bracketed by the totals at its start and end; counter arithmetic of Spec) + skeleton equality + correspondence check of Stats() after generated histories + concurrent tallies',
            'engine': 'proof+gen-skeleton+seq+conc-flight+conc-lin',
            'text': 'Conc.Adder (any number of adding goroutines and overlapping Value() calls, n stripes): the stripes always sum to everything added (nothing lost, nothing twice); Value() returns a number between the total when it started and the total when it finished, exact when no Add overlaps; skeletons of Adder.Add/Adder.Value equal the snapshot. Theorems for every state: each counting lookup adds exactly one to hits+misses (hit iff live), writes/setters/quiet reads add none, each loader invocation adds one (not-found = success), each accepted eviction adds one and its weight, monotone. '
                    'Tie: Stats() compared with the Spec counters at audit points of every SEQ script.',
            'note': SEQ_NOTE + ' Counters are naturals in the model: wrap-around of the 64-bit stripes is out of scope. Which events are counted in concurrent histories is decided per recorded run (CONC-flight: loads recorded = loader invocations; CONC-lin: hits + misses = counting lookups).'},
}

NOTES['C18'] = {'technique': 'Lean 4 proof over a transcription of sketch.go (mixers and masks regenerated; bit-level bridges proven): never under-counts within a period for every recording sequence and capacity, aging halves, estimate <= 15, admission rule + exact white-box differential',
    'engine': 'proof+unit-sketch',
    'text': 'Theorems (Props.C18 over Proofs.SketchCount, no bound on sequence length, keys, capacity): for every table ensureCapacity builds (RoundUpPowerOf2 proven to give a multiple of 8 when >= 8, so every counter position is in bounds) and every recording sequence without an aging step, estimate(key) >= min(15, occurrences of key), whatever else was recorded; increment = record then age exactly when the sample is full; aging halves every counter and every estimate; estimate <= 15; zero and no-op before initialisation; increment (unrolled) and frequency (loop) address the same four counters; '
            'nibble lemmas (adding 16^j to a word whose j-th 4-bit counter is < 15 increments exactly that counter, all others unchanged); admission decision exactly (candidate > victim) or (candidate >= 6 and 1/128 draw). '
            'Tie: UNIT-sketch reproduces the real table digest and size after every call (saturation, resets, resizes, non-power-of-two capacities); spread/rehash are translated from the source.',
    'note': 'Trusted: Lean kernel; translator; the white-box differential (bounded by generated sequences; tables up to 8192 words). maphash itself is a parameter (the theorems hold for every hash function); the 1/128 random admission is modelled as an input.'}

NOTES['C13'] = {'technique': 'Lean 4 proof (inductive placement invariant of the timer wheel over every reachable wheel: after DeleteExpired(T) nothing scheduled lies in a tick before T; per-level window/visit/tick lemmas, race clause, order-preserving time map) + exact white-box differential + per-sweep oracle',
    'engine': 'proof+unit-wheel+seq',
    'text': 'Props.C13 over Proofs.WheelSweep (transcription of variable.go, exact in link order): for every wheel reachable by Add/Delete/DeleteExpired with a monotone clock (any deadlines, any clock jumps) every scheduled event sits at the level and bucket findBucket assigns to its effective time (level 0: current or later tick, higher levels: later ticks only), DeleteExpired(T) re-establishes this for T through all five levels and the cascade, hence no event whose deadline and Add lie more than one tick before T survives the sweep at T. Level lemmas for every tick size S, bucket count B, wheel time t, sweep time T and deadline: placement window, visit lemma (every tick in [tick t, tick T] has its bucket visited), unvisited buckets hold only future ticks, '
            'tick-behind implies deadline-behind (nothing expired early), an already due deadline is scheduled for the current tick which the next sweep visits first (race clause), int64 -> wheel time is order preserving. '
            'Tie: UNIT-wheel reproduces every bucket in link order after every call with constants reported by the code; oracle on every sweep; SEQ CleanUp oracle on the whole cache.',
    'note': 'Trusted: Lean kernel; white-box differential bounded by generated sequences. The wheel theorem is about the model; the step from the wheel to the whole cache (CleanUp drains the buffers, then sweeps) is checked by the SEQ CleanUp oracle. '
            'The interleaving of a write with maintenance is covered at wheel level (deadlines behind the wheel time) not with real goroutines; lossy read-buffer drops (reads that shorten deadlines) are excluded as the property states.'}

NOTES['C14'] = {'technique': 'Lean 4 proof (inductive invariant of the drain-status protocol as a counter machine over unboundedly many threads) + regenerated skeleton equality + concurrent quiescence oracle',
    'engine': 'proof+gen-skeleton+conc-drain',
    'text': 'Theorems over ALL interleavings and ANY number of writers/readers/schedulers/drainers/lock holders: 11-conjunct invariant is inductive (46 step kinds, omega); every reachable all-returned configuration has status idle and an empty write buffer; '
            'no deadlock; a write arriving during a maintenance is owned by a writer that will still mark the status or by a pending drain. Tie: the skeleton of 17 protocol functions is regenerated from cache_impl.go every run and must equal the snapshot the model was written against (decide); '
            'CONC-drain evaluates the conclusion on the real cache with real goroutines and the default executor.',
    'note': 'Trusted: Lean kernel; skeleton extractor; the reading of the snapshot into the model locations (manual, documented in Conc/Drain.lean); atomics sequentially consistent, mutex exclusion. '
            'PARTIAL: liveness is proved in safety form (no stranded quiescent state + progress); Go scheduler fairness is assumed; custom (non-default) executors do not reschedule by design and are outside the property.'}

NOTES['C16'] = {'technique': 'Lean 4 proof (interleaving model Conc.MpscConc at position level: all schedules of producers, consumer and growth steps — consumed = positions 0..C-1 each once in order, never more than the maximum, no two live positions nor a JUMP marker share a cell; index arithmetic of the regenerated MPSC offset/limit functions) + skeleton equality + exact sequential differential + concurrent delivery-log judge',
    'engine': 'proof+gen-skeleton+unit-mpsc+conc-mpsc+conc-policy',
    'text': 'Conc.MpscConc (Props.C16): for every reachable state under every interleaving of limit/reserve/publish/rzStart/rzBody/rzJump/cTake/cJump with unboundedly many producers and any number of growth steps: the consumed sequence is exactly the elements of positions 0..C-1 (exactly once, reservation order = every producer own order), P - C <= maximum, two reserved unconsumed positions of one chunk use different cells and none uses the cell of the JUMP marker (nothing overwritten or lost across growth), the refusal test is true only at exactly the maximum. An element offset is the position modulo the chunk size. Theorems for all 64-bit indices and masks over Gen.MpscIdx (translated from mpsc.go every run): element offsets stay inside the chunk and never hit the link slot; link slot = last slot; free-space and full test exact. '
            'Skeletons of TryPush/pushSlowPath/resize/TryPop/getNextBuffer/newBufferTryPush/newBufferAndOffset must equal the snapshot. '
            'Tie: UNIT-mpsc (exact index words + bounded-FIFO and refuse-iff-full oracle across all growth steps); CONC-mpsc (exactly once, per-producer order, no refusal below capacity with real goroutines).',
    'note': 'Trusted: Lean kernel; translator; differential/concurrent runs bounded by generation and the Go scheduler. PARTIAL: the position-level model is tied to mpsc.go by skeletons, index lemmas and CONC-mpsc, not by a refinement proof; index wrap-around at 2^64 is not modelled; the sequential refinement of the exact model Impl.Mpsc to a bounded FIFO is checked by the oracle, not proven; '
            'they are enforced by the oracles on every run and by skeleton equality (any reordering of the CAS/publish/jump steps breaks an obligation).'}

_POL_NOTE = ('Trusted: Lean kernel; translator (sketch mixers); exact white-box differential (bounded by generated sequences); Go scheduler for the concurrent runs. '
             'PARTIAL: the global statements (for every operation history the audit invariant holds and the bound is restored) are established by theorem only for the unlink/add/skip steps; the composition over whole '
             'histories and all event orders is enforced by the per-call audit of every run (exact model = implementation state) and at real quiescent points, not mechanised.')
NOTES['C04'] = {'technique': 'Lean 4 proof over an exact transcription of policy.go, for every state reachable by ANY event order: after evictNodes weightedSize (= sum of tracked weights) <= maximum or only zero-weight entries remain; zero-weight entries never evicted; oversized entry not retained; unlink/add accounting lemmas + exact white-box differential with per-call audit + concurrent quiescence audit + SEQ bound oracle',
    'engine': 'proof+unit-policy+conc-policy+seq',
    'text': 'Props.C04 over Proofs.PolicyBound/PolicyWeight/PolicyLink (Reach = any order of add/update/delete events, reads, SetMaximum, evictions, climbs): (1) after evictNodes, weightedSize.toNat <= maximum.toNat or every tracked entry has weight 0 - by the victim-pointer invariant of evictFromMain (everything the pointer passed was evicted or weighs zero), the model loop bound 4n+16 (the code loop is unbounded) is proven never to be reached (Proofs.PolicyFuel: a potential every iteration decreases), so the statement is unconditional; (2) weightedSize is the uint64 sum of the tracked weights; (3) evictNodes never hands a zero-weight node to the eviction callback; (4) an alive node heavier than the maximum is evicted by add and ends dead and unlinked. Also, for every policy state: an unknown (unlinked) node costs nothing on removal - no counter changes, no deque changes (no uint64 underflow); after makeDead a node is in no deque; an out-of-order add changes no deque and no counter; the eviction loop skips zero-weight entries before any eviction decision. '
            'Tie: UNIT-policy reproduces deques/counters/evictions exactly (in-order and out-of-order), audit incl. "weightedSize <= maximum after evictNodes unless only zero-weight entries remain"; CONC-policy audits real concurrent runs; SEQ checks the bound after CleanUp against Spec incl. SetMaximum and weight-changing updates.',
    'note': _POL_NOTE}
NOTES['C05'] = {'technique': 'Lean 4 proof by induction over ALL event orders (Reach: linked = introduced and alive, never dead, linked once; weightedSize = sum of linked weights in uint64) + exact white-box differential with per-call audit + concurrent quiescence audit + SEQ view oracles',
    'engine': 'proof+unit-policy+conc-policy+seq',
    'text': 'Props.C05 over Proofs.PolicyLink/PolicyWeight: for every state reachable by any sequence of node creations/removals, add/update/delete events in any order, reads, evictNodes, climb and SetMaximum (only hypothesis: a node is introduced once, checked on every real trace by the driver): a linked node is introduced and not dead, an introduced alive node is linked, no node is linked twice, at quiescence linked = introduced and alive, and weightedSize = sum of the linked weights mod 2^64. Plus the C04 theorems. Tie: per-call audit (linked nodes = mapped nodes, none dead, each counter = weight sum, queue types consistent) on exact states for in-order and out-of-order event sequences; '
            'CONC-policy: table vs deques vs counters vs Coldest/All at real quiescent points; SEQ: WeightedSize, EstimatedSize, Hottest/Coldest = All against Spec, incl. deferred executor with keys rewritten before maintenance (K1).',
    'note': _POL_NOTE}

NOTES['C17'] = {'technique': 'Lean 4 proof (interleaving model Conc.Striped of stripe creation and table expansion under the busy flag: every ring stays in the current table at exactly one index, rings reached through stale tables are live; interleaving model Conc.Ring: all schedules of unboundedly many producers with the single consumer — delivered = exactly the recorded prefix, each once, in order; capacity; quiescent drain delivers everything; plus ring arithmetic) + skeleton equality + sequential differential + concurrent delivery-log judge',
    'engine': 'proof+gen-skeleton+unit-ring+conc-ring+seq',
    'text': 'Theorems for every ring state: capacity 16 never exceeded; Full exactly at 16 buffered; the indices held at once occupy distinct slots; recording never moves the head; a refused entry changes nothing. Conc.Ring (every reachable state under every interleaving of reserve/publish/cStart/cTake/cStop): the delivered sequence is exactly the elements recorded at indices below the consumer index (nothing invented, nothing twice, recording order), tail - head <= 16, a newly reserved slot is empty, and from a state with nothing pending one consumer run ends with head = tail and everything delivered. Skeletons of ring.add, ring.drainTo, Striped.Add, expandOrRetry, DrainTo equal the snapshot. '
            'Tie: UNIT-ring exact; CONC-ring (real recorders vs draining consumer, stripe creation/expansion under contention): no invention, at most once, capacity, delivery at quiescence; independence of results: SEQ is exact against a Spec without any read buffer.',
    'note': 'Trusted: Lean kernel; skeleton extractor; Go scheduler for CONC-ring. Conc.Striped treats the CAS on busy together with the reload of the table pointer as one step (nothing else writes the pointer while busy is held) and abstracts the retry/rehash policy (which index a recorder tries, how often) — it decides performance, not safety; sync.Pool token reuse is runtime behaviour.'}

_CONC_NOTE = ('Trusted: Lean kernel; skeleton extractor; the Lean judges (executable, not themselves verified); the Go scheduler (schedules are sampled, not enumerated); atomics sequentially consistent, mutex exclusion. ')
NOTES['C02'] = {'technique': 'Lean 4 proof (interleaving model Conc.Bucket of lock-free Map.Get against the single stores of Map.Compute: reads linearizable under every schedule, one atomic point per write; per-key atomic-step semantics, commutation across keys) + skeleton equality + exact linearizability judgement of recorded concurrent histories',
    'engine': 'proof+gen-skeleton+conc-lin',
    'text': 'Conc.Bucket (one bucket chain of unbounded length, any number of readers, the writer under the bucket lock; steps = the individual atomic loads and stores of Map.Get and Map.Compute in source order: insertion meta-then-pointer, deletion meta-then-nil, in-place replacement, bucket append, table replacement; reader: table load, one meta-word load per bucket, pointer loads, next load): for every reachable state a finished Get returned what its key was mapped to in some state of its own search; a key is mapped by at most one slot; every store changes at most one key; insertion takes effect exactly at its pointer store and deletion exactly at its meta store (the other store of each is silent); a replaced table is frozen. Also: a write step changes no other key; writes to different keys commute on the abstraction; the compute step acts on exactly the state at its point. Structural obligations: skeletons of hashmap Get/Compute/resize/copyBucket* (Props.C15). '
            'Tie: CONC-lin on the real cache (all key-value operations incl. Compute*/SetIfAbsent, evicting and unbounded, table growing and shrinking): per-key linearizability decided exactly from in-critical-section stamps; callback ran once.',
    'note': _CONC_NOTE + 'PARTIAL: the table layer (Conc.Bucket, Conc.Resize) is proved for all schedules and tied to map.go by skeleton equality (order of loads and stores) and CONC-lin/CONC-resize; the composition with the cache layer (events, policies) over all schedules is decided per recorded history. The parallel bucket copy of resize and sync.Cond waiting are exercised, not modelled.'}
NOTES['C15'] = {'technique': 'Lean 4 proof (interleaving model Conc.Bucket of one bucket chain: lock-free readers consistent under every schedule, one slot per key; interleaving model Conc.Resize of the writer/resizer handshake: no completed write lost across any number of resizes under every schedule, copy excludes writers, one writer per bucket; finite-map laws; SWAR meta-byte facts over regenerated code) + skeleton equality of the table functions + exact linearizability judgement + sequential correspondence through the cache',
    'engine': 'proof+gen-skeleton+conc-lin+conc-resize+seq',
    'text': 'Conc.Bucket: chain invariant (no key in two slots, pointer/meta coherence, nothing beyond the last bucket) and reader consistency for every interleaving of readers with the writer\'s single stores. Conc.Resize (one key, unboundedly many writers, successive resizes; steps wLock/wCheck1/wCheck2/wApply/retreats and rStart/rCopy/rPublish/rDone/rGiveUp): in every reachable state the current table holds the value of the last completed write, a bucket is copied only while no writer is inside it and none enters until the flag is cleared, a storing writer works on the current table, at most one writer is inside a bucket. Also: read-your-write/frame/delete/distinct-keys laws; the stored 7-bit hash fragment is always below the empty marker 0x80; empty meta = broadcast(0x80). Skeletons of Get/Compute/resize/copyBucket/copyBucketWithDestLock/Range/waitForResize equal the snapshot. '
            'Tie: CONC-lin on the table alone with growth and shrink forced by side keys: per-key linearizability, callbacks once, Size = keys = Range at quiescence; SEQ: iteration yields exactly the live entries once.',
    'note': _CONC_NOTE + 'PARTIAL: the SWAR byte search is modelled as "the slots whose meta byte equals h2" (its bit tricks are covered by the regenerated Gen.Swar facts); the chain model has one lock (one root bucket) and the handshake model is per key, both and tied to map.go by the skeletons and CONC-resize (Computes blocked inside the critical section during growth/shrink, GOMAXPROCS varied); heavy in-bucket collisions are produced only by chance (maphash is seeded per table).'}
NOTES['C08'] = {'technique': 'Lean 4 proof (interleaving model Conc.Flight: all schedules of join/create/unregister/cancel/kill/resume for unboundedly many callers, writers and call objects; plus registration/completion rules of the specification) + skeleton equality + concurrent single-flight judge + sequential correspondence with hang watchdog',
    'engine': 'proof+gen-skeleton+conc-flight+seq',
    'text': 'Theorems for every state and outcome (value, error, not-found, panic): a second registration is refused; completion unregisters the call; a later Get registers afresh. Conc.Flight (every reachable state): two loads of one key are in progress at once only if a write/invalidation/eviction removed the registered call in between; once no load runs no record is registered; a waiter always has an enabled step of its leader or itself (leader unregisters BEFORE releasing the waiters). Skeletons of startCall/deleteCall/delete/doCall/doBulkCall/afterDeleteCall and of the callers Get/BulkGet/refreshKey/bulkRefreshKeys/wrapLoad/wait/cancel equal the snapshot (no return between registration and doCall/doBulkCall; cancel after the table critical section). '
            'Tie: CONC-flight (real callers joining blocked loads: no overlapping executions, one execution per successful load, joined callers get the outcome, no in-flight record left, nobody hangs); SEQ load profile incl. panics in the load part of a bulk refresh (F12).',
    'note': _CONC_NOTE + 'PARTIAL: sync.WaitGroup and panics crossing goroutines are runtime behaviour; a panic in a reload on the default executor terminates the process by design and is excluded.'}

NOT_APPLICABLE = {}


# ---- round 8: regenerated pure computations (Gen.*Sites / Gen.Policy / Gen.Wheel), pins, refinement (DESIGN 13.7, 13.8)
_GEN = ' + pinned regenerated pure computations of the anchored functions (Gen.*Sites: every condition/update/assignment/return/index of the Go source re-translated on every run; Pin.*: meaning, operand names, per-function site counts)'
_EXTRA = {
    'C01': ' + refinement theorem Impl.Table (transcription of the per-key decision code of cache_impl.go, calculators as parameters) to Spec for Set/SetIfAbsent/Invalidate/GetIfPresent/Compute',
    'C03': ' + Impl.Table visibility = Spec.live (refinement)',
    'C06': ' + Impl.Table events and causes = Spec (refinement)',
    'C12': ' + refinement of the write/read deadline code (inheritance, "keep" answers, currentDuration != d shortcut with int64 wrap) to Spec.expAfterWrite/refAfterWrite/expAfterRead',
    'C13': ' + theorems over the regenerated timer-wheel arithmetic (tables, findBucket, sweep) = Impl.Wheel for all 64-bit values',
    'C04': ' + Impl.Policy.add/update/discount/reorderProbation = control structure over the regenerated decisions of policy.go',
    'C05': ' + Impl.Policy.add/update/discount/reorderProbation = control structure over the regenerated decisions of policy.go',
    'C07': ' + regenerated eviction guards of policy.go (strict comparisons, which maximum)',
    'C15': ' + theorem over the regenerated chunk arithmetic of Map.resize: the parallel copy covers every source bucket exactly once for every table length and processor count',
    'C16': ' + theorem over the regenerated slow path of TryPush: refused only when pIndex - cIndex = capacity, for all (also stale) index values',
    'C17': ' + theorems over the regenerated ring/striped arithmetic (full test, slots, stripe index in range, growth only below the maximum, copy loop and DrainTo visit every stripe)',
    'C18': ' + Impl.Sketch = control structure over the regenerated arithmetic of sketch.go; admission decision over the regenerated comparisons',
    'C19': ' + theorems over the regenerated LoadCacheFrom arithmetic (restored duration = max 1 (saved - now) > 0, filter <=)',
}
for _pid in list(NOTES):
    NOTES[_pid]['technique'] = NOTES[_pid]['technique'] + _EXTRA.get(_pid, '') + _GEN


# ---- round 9: automatic removals, observers, InvalidateAll, conservation, policy/table composition (DESIGN 13.10)
_EXTRA9 = {
    'C01': ' + Impl.Table: evictNode/deleteNodeFromMap, GetEntry/GetEntryQuietly (nodeToEntry), iteration filter, InvalidateAll refine Spec; one history theorem over every modelled operation (simulation + conservation)',
    'C03': ' + Impl.Table observers refine Spec (snapshots only of live entries, iteration = live entries)',
    'C06': ' + automatic removals report a truthful cause exactly once (Impl.Table.evictNode); written = present + reported over every history incl. removals and InvalidateAll (Proofs.TableConserve / TableAll); InvalidateAll loop = model = Spec.invalidateAll',
    'C07': ' + Impl.Table.evictNode is the input the spec judges (truthful cause; expired always accepted; live accepted iff size pressure and non-zero weight); policy/table composed at quiescence: the eviction guard of Impl.Policy is the spec\'s size pressure (Proofs.CacheAgree, hypothesis: alive <=> mapped)',
    'C04': ' + policy/table composed at quiescence: WeightedSize = total weight of the entries present; the bound after evictNodes stated on the table (Proofs.CacheAgree, hypothesis: alive <=> mapped)',
    'C05': ' + at quiescence the deques hold exactly the mapped entries\' nodes (Proofs.CacheAgree, hypothesis: alive <=> mapped)',
    'C09': ' + an accepted automatic removal unregisters the key\'s in-flight load (Props.C07Evict)',
    'C11': ' + isStale of Impl.Table = the spec\'s and the regenerated test',
    'C13': ' + the removal of an entry whose deadline has passed is accepted by the spec unconditionally (Props.C07Evict)',
    'C19': '; the +-2^62 hypothesis of the restored-duration theorem is necessary: negation proven over the regenerated code for differences >= 2^63 (open known finding F20, reproduced on the code by corpus/seq/F20_* and SEQ persist wrapLoad scripts)',
}
for _pid, _t in _EXTRA9.items():
    NOTES[_pid]['technique'] = NOTES[_pid]['technique'] + _t

_EXTRA9B = {
    'C04': '; joint model of table and policy over every sequential history (Proofs.CacheJoint): the agreement is an invariant, the bound holds after every operation',
    'C05': '; joint model of table and policy over every sequential history (Proofs.CacheJoint): mapped <=> introduced and alive <=> linked, the policy only ever kills nodes',
    'C07': '; joint model (Proofs.CacheJoint) discharges the agreement hypothesis for sequential histories',
}
for _pid, _t in _EXTRA9B.items():
    NOTES[_pid]['technique'] = NOTES[_pid]['technique'] + _t

_EXTRA9C = {
    'C13': '; the wheel loses nothing (Add / Delete / DeleteExpired keep every other scheduled node scheduled or hand it to the expiration callback) and the sweep theorem on the mapped nodes over every history of the joint wheel/table model (Proofs.WheelJoint)',
    'C05': '; every mapped node with a deadline is scheduled in the timer wheel after every history of the joint wheel/table model (Proofs.WheelJoint)',
}
for _pid, _t in _EXTRA9C.items():
    NOTES[_pid]['technique'] = NOTES[_pid]['technique'] + _t

_EXTRA9D = {
    'C05': '; size policy, timer wheel and table in one joint state: both agreements after every history of insert / replace / remove / expire / sweep steps (Proofs.CacheAll); runTask / onAccess glue (Impl.Maint) tied to the regenerated guards',
    'C13': '; the sweep through both policies on the combined state (Proofs.CacheAll); dead nodes never scheduled (Impl.Maint)',
    'C06': '; one OnDeletion per replayed removal (Impl.Maint)',
    'C20': ' + an accepted automatic removal counts exactly one eviction with the entry\'s weight (Props.C07Evict)',
}
for _pid, _t in _EXTRA9D.items():
    NOTES[_pid]['technique'] = NOTES[_pid]['technique'] + _t
