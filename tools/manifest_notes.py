HOOK_COMMITS = []

SEQ_NOTE = ('Trusted: Lean kernel (+ propext, Quot.sound, Classical.choice where #print axioms shows them); the Go->Lean translator for the regenerated parts; '
            'the SEQ correspondence (differential testing: its reach is bounded by the generators; distribution in evidence). '
            'Modelled, not verified: Go runtime, hash table (C15), gob, user callbacks. The theorems are about Spec; the tie Spec<->code is the per-run correspondence.')

NOTES = {
    'C01': {'technique': 'Lean 4 proof (abstract map laws + per-operation characterisation of Spec) + correspondence check',
            'text': 'Theorems: Spec is a map with deadlines (finite-map laws, distinct keys preserved, each operation characterised pointwise on the abstraction, iteration sound and complete) for all states/keys/values. '
                    'Tie: every public operation of the real cache is executed on generated scripts over all feature combinations and judged against Spec by the Lean executable; any unexplained result or event is a violation with a shrunk replay.',
            'note': SEQ_NOTE},
    'C03': {'technique': 'Lean 4 proof (dead entries unobservable, no resurrection) + regenerated predicates + correspondence check',
            'text': 'Theorems for every state/key/config: no operation returns, reports or iterates an entry whose deadline has passed; no non-write operation (reads, deadline setters, invalidation, eviction, clock advance) revives one; '
                    'regenerated: all 6 expiring node layouts compare expiresAt <= now, persistence filter is <=. Tie: SEQ scripts aimed at expired-but-unswept keys (deadtouch count in evidence).',
            'note': SEQ_NOTE + ' Schedules quantifier: covered only for single-goroutine interleavings of operations with clock advances; concurrent reads are C02 (not claimed yet).'},
    'C06': {'technique': 'Lean 4 proof (multiset conservation per operation, truthful cause) + correspondence check',
            'text': 'Theorems for every state with distinct keys: present-after + reported = present-before + written (multisets) for write/remove/invalidateAll/eviction; cause is Expiration iff the deadline had passed. '
                    'Tie: judge demands OnAtomicDeletion events exactly as predicted and OnDeletion deliveries equal to them event for event (sync executor: per operation; deferred executor: at quiescence).',
            'note': SEQ_NOTE + ' Partial: concurrent orders of write events (all task orders) are not yet modelled; asynchronous default executor delivery is not exercised.'},
    'C07': {'technique': 'Lean 4 proof (the eviction-acceptance oracle admits only justified removals) + correspondence check',
            'text': 'Theorems for every state/config/event: the oracle accepts Overflow only if total weight > maximum or the entry alone exceeds it, never for zero-weight entries or unbounded caches; Expiration only if the deadline passed; only these two causes. '
                    'Tie: every automatic removal the real cache reports in a SEQ run must be accepted by that oracle at that moment.',
            'note': SEQ_NOTE},
    'C09': {'technique': 'Lean 4 proof (install only by the registered call; every write/invalidation/eviction unregisters) + correspondence with writes executed inside the loader',
            'text': 'Theorems for every state: a superseded call installs nothing; Set/Compute/Invalidate/eviction unregister the in-flight call; hence a write between registration and completion wins. '
                    'Tie: SEQ scripts run Set/Invalidate/Compute/clock advances from inside loader callbacks (single and bulk, load and refresh).',
            'note': SEQ_NOTE + ' Partial: only the interleavings reachable from one goroutine (operations nested in the loader); the window between loader return and installation under real concurrency is not yet exercised.'},
    'C10': {'technique': 'Lean 4 proof (outcome rules of load completion) + correspondence check over loader result shapes',
            'text': 'Theorems for every state/outcome: ok caches exactly the loaded value, error leaves values and expirations unchanged, not-found removes, other keys untouched, single registration per key. '
                    'Tie: SEQ scripts with full/partial/extra/empty/error/not-found/panic loader results, duplicates, stale and expired keys; loader argument lists and results compared.',
            'note': SEQ_NOTE},
    'C11': {'technique': 'Lean 4 proof (reload outcome and refresh-deadline rules) + correspondence check (sync and deferred executor)',
            'text': 'Theorems: a read returns the cached value stale or not; stale iff refresh deadline reached; reload ok/failed/not-found rules; refresh deadline per calculator kind. '
                    'Tie: judge requires exactly one reload (with the old value) per stale read, none for fresh reads, exactly one channel result per Refresh, no channel without refresh policy.',
            'note': SEQ_NOTE + ' Partial: asynchronous executors are represented by a manually pumped queue, not real goroutines.'},
    'C12': {'technique': 'Lean 4 proof over the regenerated deadline expressions (all int64 clock values and durations) + correspondence check',
            'text': 'Theorems over Gen.Deadline (translated from cache_impl.go on every run): each of the four deadline sites equals satAdd now d for every int64 now and every d in [1, MaxInt64]; never in the past; result in range; exactly four sites exist. '
                    'Spec theorems: per-calculator deadline rules, visibility iff now < expiresAt. Tie: SEQ with durations up to MaxInt64 and clock origins incl. negative, today, near MaxInt64.',
            'note': SEQ_NOTE},
    'C19': {'technique': 'Lean 4 proof (restored deadlines exact, nothing dead loaded, all loaded if fits) + regenerated filter + correspondence with the real gob encoder',
            'text': 'Theorems for every saved list/offset/limit: restored deadline = saved deadline when in the future, now+1 when passed; no dead entry attempted; sublist in file order; everything attempted when it fits. Regenerated: filter is <=. '
                    'Tie: save/loadfrom ops on arbitrary script-produced contents, equal/smaller/larger target maxima, all calculator kinds.',
            'note': SEQ_NOTE},
    'C20': {'technique': 'Lean 4 proof (counter arithmetic of Spec) + correspondence check of Stats() after generated histories',
            'text': 'Theorems for every state: each counting lookup adds exactly one to hits+misses (hit iff live), writes/setters/quiet reads add none, each loader invocation adds one (not-found = success), each accepted eviction adds one and its weight, monotone. '
                    'Tie: Stats() compared with the Spec counters at audit points of every SEQ script.',
            'note': SEQ_NOTE + ' Partial: concurrent histories and the striped adder are not yet covered.'},
}

NOTES['C18'] = {'technique': 'Lean 4 proof over a transcription of sketch.go (mixers and masks regenerated; bit-level bridges proven): never under-counts within a period for every recording sequence and capacity, aging halves, estimate <= 15, admission rule + exact white-box differential',
    'engine': 'proof+unit-sketch',
    'text': 'Theorems (Props.C18 over Proofs.SketchCount, no bound on sequence length, keys, capacity): for every table ensureCapacity builds (RoundUpPowerOf2 proven to give a multiple of 8 when >= 8, so every counter position is in bounds) and every recording sequence without an aging step, estimate(key) >= min(15, occurrences of key), whatever else was recorded; increment = record then age exactly when the sample is full; aging halves every counter and every estimate; estimate <= 15; zero and no-op before initialisation; increment (unrolled) and frequency (loop) address the same four counters; '
            'nibble lemmas (adding 16^j to a word whose j-th 4-bit counter is < 15 increments exactly that counter, all others unchanged); admission decision exactly (candidate > victim) or (candidate >= 6 and 1/128 draw). '
            'Tie: UNIT-sketch reproduces the real table digest and size after every call (saturation, resets, resizes, non-power-of-two capacities); spread/rehash are translated from the source.',
    'note': 'Trusted: Lean kernel; translator; the white-box differential (bounded by generated sequences; tables up to 8192 words). maphash itself is a parameter (the theorems hold for every hash function); the 1/128 random admission is modelled as an input.'}

NOTES['C13'] = {'technique': 'Lean 4 proof (inductive placement invariant of the timer wheel over every reachable wheel: after DeleteExpired(T) nothing scheduled lies in a tick before T; per-level window/visit/tick lemmas, race clause, order-preserving time map) + exact white-box differential + per-sweep oracle',
    'engine': 'proof+unit-wheel+seq',
    'text': 'Props.C13 over Proofs.WheelSweep (transcription of variable.go, exact in link order): for every wheel reachable by Add/Delete/DeleteExpired with a monotone clock (any deadlines, any clock jumps) every scheduled event sits at the level and bucket findBucket assigns to its effective time (level 0: current or later tick, higher levels: later ticks only), DeleteExpired(T) re-establishes this for T through all five levels and the cascade, hence no event whose deadline and Add lie more than one tick before T survives the sweep at T. Level lemmas for every tick size S, bucket count B, wheel time t, sweep time T and deadline: placement window, visit lemma (every tick in [tick t, tick T] has its bucket visited), unvisited buckets hold only future ticks, '
            'tick-behind implies deadline-behind (nothing expired early), an already due deadline is scheduled for the current tick which the next sweep visits first (race clause), int64 -> wheel time is order preserving. '
            'Tie: UNIT-wheel reproduces every bucket in link order after every call with constants reported by the code; oracle on every sweep; SEQ CleanUp oracle on the whole cache.',
    'note': 'Trusted: Lean kernel; white-box differential bounded by generated sequences. The wheel theorem is about the model; the step from the wheel to the whole cache (CleanUp drains the buffers, then sweeps) is checked by the SEQ CleanUp oracle. '
            'The interleaving of a write with maintenance is covered at wheel level (deadlines behind the wheel time) not with real goroutines; lossy read-buffer drops (reads that shorten deadlines) are excluded as the property states.'}

NOTES['C14'] = {'technique': 'Lean 4 proof (inductive invariant of the drain-status protocol as a counter machine over unboundedly many threads) + regenerated skeleton equality + concurrent quiescence oracle',
    'engine': 'proof+gen-skeleton+conc-drain',
    'text': 'Theorems over ALL interleavings and ANY number of writers/readers/schedulers/drainers/lock holders: 11-conjunct invariant is inductive (46 step kinds, omega); every reachable all-returned configuration has status idle and an empty write buffer; '
            'no deadlock; a write arriving during a maintenance is owned by a writer that will still mark the status or by a pending drain. Tie: the skeleton of 17 protocol functions is regenerated from cache_impl.go every run and must equal the snapshot the model was written against (decide); '
            'CONC-drain evaluates the conclusion on the real cache with real goroutines and the default executor.',
    'note': 'Trusted: Lean kernel; skeleton extractor; the reading of the snapshot into the model locations (manual, documented in Conc/Drain.lean); atomics sequentially consistent, mutex exclusion. '
            'PARTIAL: liveness is proved in safety form (no stranded quiescent state + progress); Go scheduler fairness is assumed; custom (non-default) executors do not reschedule by design and are outside the property.'}

NOTES['C16'] = {'technique': 'Lean 4 proof (index arithmetic of the regenerated MPSC offset/limit functions) + skeleton equality + exact sequential differential + concurrent delivery-log judge',
    'engine': 'proof+gen-skeleton+unit-mpsc+conc-mpsc',
    'text': 'Theorems for all 64-bit indices and masks over Gen.MpscIdx (translated from mpsc.go every run): element offsets stay inside the chunk and never hit the link slot; link slot = last slot; free-space and full test exact. '
            'Skeletons of TryPush/pushSlowPath/resize/TryPop/getNextBuffer/newBufferTryPush/newBufferAndOffset must equal the snapshot. '
            'Tie: UNIT-mpsc (exact index words + bounded-FIFO and refuse-iff-full oracle across all growth steps); CONC-mpsc (exactly once, per-producer order, no refusal below capacity with real goroutines).',
    'note': 'Trusted: Lean kernel; translator; differential/concurrent runs bounded by generation and the Go scheduler. PARTIAL: the sequential refinement to a bounded FIFO for every operation sequence and the concurrent exactly-once invariant (all interleavings) are not mechanised; '
            'they are enforced by the oracles on every run and by skeleton equality (any reordering of the CAS/publish/jump steps breaks an obligation).'}

_POL_NOTE = ('Trusted: Lean kernel; translator (sketch mixers); exact white-box differential (bounded by generated sequences); Go scheduler for the concurrent runs. '
             'PARTIAL: the global statements (for every operation history the audit invariant holds and the bound is restored) are established by theorem only for the unlink/add/skip steps; the composition over whole '
             'histories and all event orders is enforced by the per-call audit of every run (exact model = implementation state) and at real quiescent points, not mechanised.')
NOTES['C04'] = {'technique': 'Lean 4 proof over an exact transcription of policy.go, for every state reachable by ANY event order: after evictNodes weightedSize (= sum of tracked weights) <= maximum or only zero-weight entries remain; zero-weight entries never evicted; oversized entry not retained; unlink/add accounting lemmas + exact white-box differential with per-call audit + concurrent quiescence audit + SEQ bound oracle',
    'engine': 'proof+unit-policy+conc-policy+seq',
    'text': 'Props.C04 over Proofs.PolicyBound/PolicyWeight/PolicyLink (Reach = any order of add/update/delete events, reads, SetMaximum, evictions, climbs): (1) after evictNodes, weightedSize.toNat <= maximum.toNat or every tracked entry has weight 0 - by the victim-pointer invariant of evictFromMain (everything the pointer passed was evicted or weighs zero), the model loop bound 4n+16 (the code loop is unbounded) is proven never to be reached (Proofs.PolicyFuel: a potential every iteration decreases), so the statement is unconditional; (2) weightedSize is the uint64 sum of the tracked weights; (3) evictNodes never hands a zero-weight node to the eviction callback; (4) an alive node heavier than the maximum is evicted by add and ends dead and unlinked. Also, for every policy state: an unknown (unlinked) node costs nothing on removal - no counter changes, no deque changes (no uint64 underflow); after makeDead a node is in no deque; an out-of-order add changes no deque and no counter; the eviction loop skips zero-weight entries before any eviction decision. '
            'Tie: UNIT-policy reproduces deques/counters/evictions exactly (in-order and out-of-order), audit incl. "weightedSize <= maximum after evictNodes unless only zero-weight entries remain"; CONC-policy audits real concurrent runs; SEQ checks the bound after CleanUp against Spec incl. SetMaximum and weight-changing updates.',
    'note': _POL_NOTE}
NOTES['C05'] = {'technique': 'Lean 4 proof by induction over ALL event orders (Reach: linked = introduced and alive, never dead, linked once; weightedSize = sum of linked weights in uint64) + exact white-box differential with per-call audit + concurrent quiescence audit + SEQ view oracles',
    'engine': 'proof+unit-policy+conc-policy+seq',
    'text': 'Props.C05 over Proofs.PolicyLink/PolicyWeight: for every state reachable by any sequence of node creations/removals, add/update/delete events in any order, reads, evictNodes, climb and SetMaximum (only hypothesis: a node is introduced once, checked on every real trace by the driver): a linked node is introduced and not dead, an introduced alive node is linked, no node is linked twice, at quiescence linked = introduced and alive, and weightedSize = sum of the linked weights mod 2^64. Plus the C04 theorems. Tie: per-call audit (linked nodes = mapped nodes, none dead, each counter = weight sum, queue types consistent) on exact states for in-order and out-of-order event sequences; '
            'CONC-policy: table vs deques vs counters vs Coldest/All at real quiescent points; SEQ: WeightedSize, EstimatedSize, Hottest/Coldest = All against Spec, incl. deferred executor with keys rewritten before maintenance (K1).',
    'note': _POL_NOTE}

NOTES['C17'] = {'technique': 'Lean 4 proof (interleaving model Conc.Ring: all schedules of unboundedly many producers with the single consumer — delivered = exactly the recorded prefix, each once, in order; capacity; quiescent drain delivers everything; plus ring arithmetic) + skeleton equality + sequential differential + concurrent delivery-log judge',
    'engine': 'proof+gen-skeleton+unit-ring+conc-ring+seq',
    'text': 'Theorems for every ring state: capacity 16 never exceeded; Full exactly at 16 buffered; the indices held at once occupy distinct slots; recording never moves the head; a refused entry changes nothing. Conc.Ring (every reachable state under every interleaving of reserve/publish/cStart/cTake/cStop): the delivered sequence is exactly the elements recorded at indices below the consumer index (nothing invented, nothing twice, recording order), tail - head <= 16, a newly reserved slot is empty, and from a state with nothing pending one consumer run ends with head = tail and everything delivered. Skeletons of ring.add, ring.drainTo, Striped.Add, expandOrRetry, DrainTo equal the snapshot. '
            'Tie: UNIT-ring exact; CONC-ring (real recorders vs draining consumer, stripe creation/expansion under contention): no invention, at most once, capacity, delivery at quiescence; independence of results: SEQ is exact against a Spec without any read buffer.',
    'note': 'Trusted: Lean kernel; skeleton extractor; Go scheduler for CONC-ring. PARTIAL: the striped table above the rings (stripe creation, expansion) is covered by skeleton equality and CONC-ring only; sync.Pool token reuse is runtime behaviour.'}

_CONC_NOTE = ('Trusted: Lean kernel; skeleton extractor; the Lean judges (executable, not themselves verified); the Go scheduler (schedules are sampled, not enumerated); atomics sequentially consistent, mutex exclusion. ')
NOTES['C02'] = {'technique': 'Lean 4 proof (per-key atomic-step semantics, commutation across keys) + skeleton equality + exact linearizability judgement of recorded concurrent histories',
    'engine': 'proof+gen-skeleton+conc-lin',
    'text': 'Theorems: a write step changes no other key; writes to different keys commute on the abstraction; the compute step acts on exactly the state at its point. Structural obligations: skeletons of hashmap Get/Compute/resize/copyBucket* (Props.C15). '
            'Tie: CONC-lin on the real cache (all key-value operations incl. Compute*/SetIfAbsent, evicting and unbounded, table growing and shrinking): per-key linearizability decided exactly from in-critical-section stamps; callback ran once.',
    'note': _CONC_NOTE + 'PARTIAL: linearizability over all schedules is not a theorem about the code; it is decided for every recorded history. The parallel bucket copy of resize and sync.Cond waiting are exercised, not modelled.'}
NOTES['C15'] = {'technique': 'Lean 4 proof (interleaving model Conc.Resize of the writer/resizer handshake: no completed write lost across any number of resizes under every schedule, copy excludes writers, one writer per bucket; finite-map laws; SWAR meta-byte facts over regenerated code) + skeleton equality of the table functions + exact linearizability judgement + sequential correspondence through the cache',
    'engine': 'proof+gen-skeleton+conc-lin+conc-resize+seq',
    'text': 'Conc.Resize (one key, unboundedly many writers, successive resizes; steps wLock/wCheck1/wCheck2/wApply/retreats and rStart/rCopy/rPublish/rDone/rGiveUp): in every reachable state the current table holds the value of the last completed write, a bucket is copied only while no writer is inside it and none enters until the flag is cleared, a storing writer works on the current table, at most one writer is inside a bucket. Also: read-your-write/frame/delete/distinct-keys laws; the stored 7-bit hash fragment is always below the empty marker 0x80; empty meta = broadcast(0x80). Skeletons of Get/Compute/resize/copyBucket/copyBucketWithDestLock/Range/waitForResize equal the snapshot. '
            'Tie: CONC-lin on the table alone with growth and shrink forced by side keys: per-key linearizability, callbacks once, Size = keys = Range at quiescence; SEQ: iteration yields exactly the live entries once.',
    'note': _CONC_NOTE + 'PARTIAL: bucket chains and the SWAR search are not modelled; the handshake model is per key and tied to map.go by the skeletons and CONC-resize (Computes blocked inside the critical section during growth/shrink, GOMAXPROCS varied); heavy in-bucket collisions are produced only by chance (maphash is seeded per table).'}
NOTES['C08'] = {'technique': 'Lean 4 proof (interleaving model Conc.Flight: all schedules of join/create/unregister/cancel/kill/resume for unboundedly many callers, writers and call objects; plus registration/completion rules of the specification) + skeleton equality + concurrent single-flight judge + sequential correspondence with hang watchdog',
    'engine': 'proof+gen-skeleton+conc-flight+seq',
    'text': 'Theorems for every state and outcome (value, error, not-found, panic): a second registration is refused; completion unregisters the call; a later Get registers afresh. Conc.Flight (every reachable state): two loads of one key are in progress at once only if a write/invalidation/eviction removed the registered call in between; once no load runs no record is registered; a waiter always has an enabled step of its leader or itself (leader unregisters BEFORE releasing the waiters). Skeletons of startCall/deleteCall/delete/doCall/doBulkCall/afterDeleteCall and of the callers Get/BulkGet/refreshKey/bulkRefreshKeys/wrapLoad/wait/cancel equal the snapshot (no return between registration and doCall/doBulkCall; cancel after the table critical section). '
            'Tie: CONC-flight (real callers joining blocked loads: no overlapping executions, one execution per successful load, joined callers get the outcome, no in-flight record left, nobody hangs); SEQ load profile incl. panics in the load part of a bulk refresh (F12).',
    'note': _CONC_NOTE + 'PARTIAL: sync.WaitGroup and panics crossing goroutines are runtime behaviour; a panic in a reload on the default executor terminates the process by design and is excluded.'}

NOT_APPLICABLE = {}
