#!/bin/bash
# usage: devseed.sh <seed-name> <harness-cmd> <driver-cmd> [n] [seed] [extra harness args...]
# Runs one engine against a seeded change in a scratch worktree (/tmp/wt/dev) — never touches /repo's working tree.
S=$1; H=$2; D=$3; N=${4:-48}; SD=${5:-1}; shift 5 2>/dev/null
WT=/tmp/wt/dev
[ -d $WT ] || git -C /repo worktree add -q --detach $WT HEAD
git -C $WT checkout -q -- . ; git -C $WT clean -fdq
git -C $WT apply /verif/seeded/$S/patch.diff || exit 2
VERIF_REPO=$WT /verif/harness/build.sh /verif/.scratch/verifh_dev >/dev/null 2>&1 || { echo "build failed"; exit 3; }
/verif/.scratch/verifh_dev $H -n $N -seed $SD "$@" 2>/dev/null | /verif/lean/.lake/build/bin/otterdrv $D | grep -v "^ok" | tail -3 | cut -c1-330
git -C $WT checkout -q -- . ; rm -f /verif/.scratch/verifh_dev
