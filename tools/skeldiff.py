#!/usr/bin/env python3
"""show (and with --accept NAME..., adopt) differences between the regenerated protocol skeletons (Gen/Skeleton.lean) and
the committed snapshots (Conc/*Skeleton.lean).  Adopting a snapshot is a manual act: read the diff first."""
import re, sys, glob, difflib
g = open('/verif/lean/OtterVerif/Gen/Skeleton.lean').read()
gen = {m.group(1): m.group(2) for m in re.finditer(r'def (\w+) : List \(Nat × String\) :=\n(.*?)\n\n', g, re.S)}
accept = set(sys.argv[2:]) if len(sys.argv) > 1 and sys.argv[1] == '--accept' else set()
for f in sorted(glob.glob('/verif/lean/OtterVerif/Conc/*Skeleton.lean')):
    s = open(f).read(); changed = False
    for m in list(re.finditer(r'def (\w+) : List \(Nat × String\) :=\n(.*?)\n\n', s, re.S)):
        n, body = m.group(1), m.group(2)
        if n in gen and gen[n] != body:
            print(f'== {n} ({f.split("/")[-1]})')
            for l in difflib.unified_diff(body.splitlines(), gen[n].splitlines(), 'snapshot', 'regenerated', lineterm='', n=2):
                print('   ' + l)
            if n in accept:
                s = s.replace(m.group(0), f'def {n} : List (Nat × String) :=\n{gen[n]}\n\n'); changed = True; print('   ADOPTED')
    if changed:
        open(f, 'w').write(s)
