#!/bin/bash
# usage: trialseed.sh <seed-dir> <name> <property>...
# Confirms a seeded change and runs the given checks against it WITHOUT touching /repo or /verif:
# a scratch worktree of /repo's HEAD (/tmp/wt/trial_<name>) and a scratch copy of /verif (/tmp/vt_<name>).
D=$1; N=$2; shift; shift
export GOFLAGS=-mod=mod GOPROXY=off
WT=/tmp/wt/trial_$N; VT=/tmp/vt_$N
rm -rf $WT $VT; git -C /repo worktree prune
git -C /repo worktree add -q --detach $WT HEAD || exit 2
OUT=${TRIAL_OUT:-$D/trial.json}
cd $WT
if ! git apply $D/patch.diff 2>/dev/null; then echo "{\"name\":\"$N\",\"applies\":false}" > $OUT; cat $OUT; git -C /repo worktree remove --force $WT; exit 3; fi
go build ./... >/dev/null 2>&1 || { echo "{\"name\":\"$N\",\"applies\":true,\"builds\":false}" > $OUT; cat $OUT; git -C /repo worktree remove --force $WT; exit 4; }
# the suite, up to three attempts: the unmodified tree has three timing-dependent tests that fail now and then
#   TestSaveLoadCache/ok (hang in fakeSource.Sleep), TestCache_Scheduler/rescheduleDrainBuffers (the test blocks inside
#   OnAtomicDeletion while holding the bucket lock its own next Set needs when keys 1 and 2 share a bucket),
#   TestCache_GetWithSuppressedLoad (asserts exactly one load although its own comment allows more)
SUITE=false; FLAKES=""
for attempt in 1 2 3; do
  if timeout 900 go test -vet=off -count=1 -timeout 400s ./... >/tmp/trial_suite_$N.log 2>&1; then SUITE=true; break; fi
  bad=$(grep -o "^--- FAIL: [A-Za-z_]*\|running tests:\|Test[A-Za-z_]*/[A-Za-z_]* ([0-9]*m" /tmp/trial_suite_$N.log | tr '\n' ' ')
  FLAKES="$FLAKES attempt$attempt: $bad;"
  grep -q "TestSaveLoadCache\|rescheduleDrainBuffers\|TestCache_GetWithSuppressedLoad\|TestCache_Eviction\|TestCache_SetExpiresAfter" /tmp/trial_suite_$N.log || break
done
cp -r $D $WT/$(basename $D) 2>/dev/null
bash $D/demo.sh >/tmp/trial_demo_$N.log 2>&1 && DW=false || DW=true
# checks against the patched worktree, from a scratch copy of /verif
rsync -a --exclude .git --exclude out --exclude .scratch --exclude seeded ${VERIF_SRC:-/verif}/ $VT/
mkdir -p $VT/out $VT/.scratch
RES=""
for p in "$@"; do
  (cd $VT && VERIF_HOME=$VT VERIF_REPO=$WT ./check $p --tier quick > /tmp/trial_check_${N}_$p.log 2>&1); rc=$?
  viol=$(grep -c "^VIOLATION" /tmp/trial_check_${N}_$p.log)
  nf=$(grep -c "no-failing-input-found" /tmp/trial_check_${N}_$p.log)
  RES="$RES\"$p\":{\"rc\":$rc,\"violations\":$viol,\"no_failing_input\":$nf},"
done
git checkout -q -- . ; git clean -fdq >/dev/null 2>&1
cp -r $D $WT/$(basename $D) 2>/dev/null
bash $D/demo.sh >/tmp/trial_demo2_$N.log 2>&1 && DO=true || DO=false
echo "{\"name\":\"$N\",\"applies\":true,\"builds\":true,\"suite_pass\":$SUITE,\"suite_flakes\":\"$FLAKES\",\"demo_fails_with\":$DW,\"demo_passes_without\":$DO,\"head\":\"$(git -C /repo rev-parse --short HEAD)\",\"verif\":\"$(git -C /verif rev-parse --short HEAD)\",\"checks\":{${RES%,}}}" > $OUT
cat $OUT
cd /; git -C /repo worktree remove --force $WT; rm -rf $VT
