package main

// Skeleton extraction: for each protocol function, the ordered tree of operations on shared words
// (sync/atomic values, atomic.*Pointer calls), mutexes, the executor / go statements and calls to
// other listed functions, with branch structure, flattened to (depth, token) pairs.
// Everything else (pure computation on locals) is dropped.

import (
	"bytes"
	"fmt"
	"go/ast"
	"go/printer"
	"go/token"
	"strings"
)

type skel struct {
	p      *pkg
	out    []string
	listed map[string]bool // function names whose calls are recorded as "call f"
}

func (s *skel) src(n ast.Node) string {
	var b bytes.Buffer
	printer.Fprint(&b, s.p.fset, n)
	return strings.Join(strings.Fields(b.String()), "")
}

func (s *skel) emit(depth int, tok string) {
	s.out = append(s.out, fmt.Sprintf("(%d, \"%s\")", depth, strings.ReplaceAll(tok, "\"", "'")))
}

var atomicMeths = map[string]bool{"Load": true, "Store": true, "CompareAndSwap": true, "Add": true, "Swap": true}
var lockMeths = map[string]bool{"Lock": true, "Unlock": true, "TryLock": true, "Wait": true, "Broadcast": true, "Done": true}

// ops records the shared-memory operations inside an expression or simple statement, in evaluation order.
func (s *skel) ops(depth int, n ast.Node) {
	if n == nil {
		return
	}
	ast.Inspect(n, func(m ast.Node) bool {
		switch x := m.(type) {
		case *ast.FuncLit:
			s.emit(depth, "func{")
			s.block(depth+1, x.Body.List)
			s.emit(depth, "}")
			return false
		case *ast.CallExpr:
			// arguments first (evaluation order), then the call itself
			for _, a := range x.Args {
				s.ops(depth, a)
			}
			name := ""
			if fl, ok := x.Fun.(*ast.FuncLit); ok {
				s.emit(depth, "func{")
				s.block(depth+1, fl.Body.List)
				s.emit(depth, "}()")
				return false
			}
			switch f := x.Fun.(type) {
			case *ast.SelectorExpr:
				recv := s.src(f.X)
				meth := f.Sel.Name
				switch {
				case recv == "atomic":
					var args []string
					for _, a := range x.Args {
						args = append(args, s.src(a))
					}
					s.emit(depth, "atomic."+meth+" "+strings.Join(args, " "))
					return false
				case atomicMeths[meth] && isAtomicRecv(s.p, f.X):
					var args []string
					for _, a := range x.Args {
						args = append(args, s.src(a))
					}
					s.emit(depth, strings.TrimSpace(meth+" "+lastField(recv)+" "+strings.Join(args, " ")))
					return false
				case lockMeths[meth] && isSyncRecv(s.p, f.X):
					s.emit(depth, meth+" "+lastField(recv))
					return false
				case meth == "executor":
					s.emit(depth, "executor")
					return false
				}
				name = meth
				s.ops(depth, f.X)
			case *ast.Ident:
				name = f.Name
			}
			if s.listed[name] {
				if name == "getTask" || name == "notifyDeletion" {
					// which task / which cause: the arguments are part of the protocol
					var args []string
					for _, a := range x.Args {
						args = append(args, s.src(a))
					}
					s.emit(depth, "call "+name+" "+strings.Join(args, " "))
				} else {
					s.emit(depth, "call "+name)
				}
			}
			return false
		}
		return true
	})
}

func lastField(s string) string {
	if i := strings.LastIndex(s, "."); i >= 0 {
		return s[i+1:]
	}
	return s
}

func isAtomicRecv(p *pkg, e ast.Expr) bool {
	tv, ok := p.info.Types[e]
	if !ok || tv.Type == nil {
		return false
	}
	return strings.Contains(tv.Type.String(), "sync/atomic.")
}

func isSyncRecv(p *pkg, e ast.Expr) bool {
	tv, ok := p.info.Types[e]
	if !ok || tv.Type == nil {
		return false
	}
	t := tv.Type.String()
	return strings.Contains(t, "sync.Mutex") || strings.Contains(t, "sync.RWMutex") || strings.Contains(t, "sync.Cond") || strings.Contains(t, "sync.WaitGroup")
}

func (s *skel) block(depth int, stmts []ast.Stmt) {
	for _, st := range stmts {
		s.stmt(depth, st)
	}
}

func (s *skel) stmt(depth int, st ast.Stmt) {
	switch x := st.(type) {
	case *ast.IfStmt:
		if x.Init != nil {
			s.stmt(depth, x.Init)
		}
		s.emit(depth, "if "+s.condText(x.Cond))
		s.ops(depth+1, x.Cond)
		s.emit(depth, "then")
		s.block(depth+1, x.Body.List)
		if x.Else != nil {
			s.emit(depth, "else")
			if eb, ok := x.Else.(*ast.BlockStmt); ok {
				s.block(depth+1, eb.List)
			} else {
				s.stmt(depth+1, x.Else)
			}
		}
		s.emit(depth, "fi")
	case *ast.ForStmt:
		if x.Init != nil {
			s.stmt(depth, x.Init)
		}
		c := ""
		if x.Cond != nil {
			c = s.condText(x.Cond)
		}
		s.emit(depth, "for "+c)
		if x.Cond != nil {
			s.ops(depth+1, x.Cond)
		}
		s.block(depth+1, x.Body.List)
		if x.Post != nil {
			s.stmt(depth+1, x.Post)
		}
		s.emit(depth, "rof")
	case *ast.RangeStmt:
		s.emit(depth, "range")
		s.ops(depth+1, x.X)
		s.block(depth+1, x.Body.List)
		s.emit(depth, "egnar")
	case *ast.SwitchStmt:
		if x.Init != nil {
			s.stmt(depth, x.Init)
		}
		t := ""
		if x.Tag != nil {
			t = s.condText(x.Tag)
			s.ops(depth+1, x.Tag)
		}
		s.emit(depth, "switch "+t)
		for _, c := range x.Body.List {
			cc := c.(*ast.CaseClause)
			if cc.List == nil {
				s.emit(depth+1, "default")
			} else {
				var ls []string
				for _, e := range cc.List {
					ls = append(ls, s.condText(e))
				}
				s.emit(depth+1, "case "+strings.Join(ls, ","))
				for _, e := range cc.List {
					s.ops(depth+2, e)
				}
			}
			s.block(depth+2, cc.Body)
		}
		s.emit(depth, "hctiws")
	case *ast.ReturnStmt:
		for _, r := range x.Results {
			s.ops(depth, r)
		}
		s.emit(depth, "return")
	case *ast.BranchStmt:
		s.emit(depth, x.Tok.String())
	case *ast.BlockStmt:
		s.block(depth, x.List)
	case *ast.GoStmt:
		s.emit(depth, "go")
		s.ops(depth+1, x.Call)
	case *ast.DeferStmt:
		s.emit(depth, "defer")
		s.ops(depth+1, x.Call)
	case *ast.ExprStmt:
		s.ops(depth, x.X)
	case *ast.AssignStmt:
		for _, r := range x.Rhs {
			s.ops(depth, r)
		}
		for _, l := range x.Lhs {
			// writes to shared plain fields are not tracked; index/selector expressions may contain loads
			if _, ok := l.(*ast.Ident); !ok {
				s.ops(depth, l)
			}
		}
	case *ast.DeclStmt, *ast.IncDecStmt, *ast.EmptyStmt:
		if d, ok := st.(*ast.DeclStmt); ok {
			s.ops(depth, d)
		}
	case *ast.SendStmt:
		s.ops(depth, x.Value)
		s.emit(depth, "send "+s.src(x.Chan))
	case *ast.SelectStmt:
		s.emit(depth, "select")
	case *ast.LabeledStmt:
		s.stmt(depth, x.Stmt)
	default:
		fail("skeleton: unsupported statement %T at %s", st, s.p.fset.Position(st.Pos()))
	}
}

// condText keeps a condition's text only if it mentions shared state or protocol constants; pure-local
// conditions are summarised as "_" so that renaming a local changes nothing.
func (s *skel) condText(e ast.Expr) string {
	return s.src(e)
}

// skeletonOf returns the Lean list literal for the function's skeleton.
func skeletonOf(p *pkg, fn string, listed map[string]bool) string {
	fd := findFunc(p, fn)
	if fd == nil || fd.Body == nil {
		fail("skeleton: function %s not found in %s", fn, p.dir)
	}
	s := &skel{p: p, listed: listed}
	s.block(0, fd.Body.List)
	_ = token.NoPos
	return "[" + strings.Join(s.out, ",\n   ") + "]"
}
