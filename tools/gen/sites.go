// Pure-computation sites: expressions picked out of a function by role (the right-hand side of the one
// assignment to a named variable, the k-th branch/loop condition, an index expression) and translated to Lean
// as functions of the identifiers they mention.  Package-level tables of integers (var x = []uint64{...})
// are translated element by element and may be indexed inside sites.
//
// A pick that no longer exists, or exists more than once, is a broken tie (fail), never a silent skip.
package main

import (
	"fmt"
	"go/ast"
	"go/token"
	"go/types"
	"strings"
)

// tables known to expr(): Go identifier -> fully qualified Lean name of a List (BitVec 64)
var knownTables = map[string]string{}

// globalTable translates `var name = []T{e0, e1, ...}` (T a 64-bit integer type).
func globalTable(p *pkg, name, leanQual string, calls map[string]string) string {
	for _, f := range p.files {
		for _, d := range f.Decls {
			gd, ok := d.(*ast.GenDecl)
			if !ok || gd.Tok != token.VAR {
				continue
			}
			for _, sp := range gd.Specs {
				vs := sp.(*ast.ValueSpec)
				for i, n := range vs.Names {
					if n.Name != name || i >= len(vs.Values) {
						continue
					}
					cl, ok := vs.Values[i].(*ast.CompositeLit)
					if !ok {
						fail("table %s: initialiser is not a composite literal", name)
					}
					var elems []string
					for _, e := range cl.Elts {
						t := &tr{p: p, locals: map[string]bool{}, calls: calls, freeTy: map[string]ty{}, siteMod: true}
						s, tt := t.expr(e)
						if tt.w != 64 {
							fail("table %s: element of width %d", name, tt.w)
						}
						if len(t.free) != 0 {
							fail("table %s: element mentions %v", name, t.free)
						}
						elems = append(elems, s)
					}
					knownTables[name] = leanQual
					return fmt.Sprintf("/-- %s (%s) -/\ndef %s : List (BitVec 64) :=\n  [%s]\n", name, p.fset.Position(n.Pos()), name, strings.Join(elems, ",\n   "))
				}
			}
		}
	}
	fail("table %s not found in %s", name, p.dir)
	return ""
}

// assignSites returns the right-hand sides of all assignments (:=, =) to variable v in function fn, in source order.
func assignRHS(p *pkg, fn, v string) []ast.Expr {
	fd := findFunc(p, fn)
	if fd == nil {
		fail("function %s not found in %s", fn, p.dir)
	}
	var out []ast.Expr
	ast.Inspect(fd.Body, func(n ast.Node) bool {
		as, ok := n.(*ast.AssignStmt)
		if !ok || len(as.Lhs) != len(as.Rhs) {
			return true
		}
		if as.Tok != token.DEFINE && as.Tok != token.ASSIGN {
			return true
		}
		for i, l := range as.Lhs {
			if (&tr{p: p}).exprString(l) == v {
				out = append(out, as.Rhs[i])
			}
		}
		return true
	})
	return out
}

// conds returns the conditions of all if / for statements of fn in source order.
func conds(p *pkg, fn string) []ast.Expr {
	fd := findFunc(p, fn)
	if fd == nil {
		fail("function %s not found in %s", fn, p.dir)
	}
	var out []ast.Expr
	ast.Inspect(fd.Body, func(n ast.Node) bool {
		switch x := n.(type) {
		case *ast.IfStmt:
			out = append(out, x.Cond)
		case *ast.ForStmt:
			if x.Cond != nil {
				out = append(out, x.Cond)
			}
		}
		return true
	})
	return out
}

// returns returns the results of all single-value return statements of fn in source order.
func returnsOf(p *pkg, fn string) []ast.Expr {
	fd := findFunc(p, fn)
	if fd == nil {
		fail("function %s not found in %s", fn, p.dir)
	}
	var out []ast.Expr
	ast.Inspect(fd.Body, func(n ast.Node) bool {
		if _, ok := n.(*ast.FuncLit); ok {
			return false
		}
		if rs, ok := n.(*ast.ReturnStmt); ok && len(rs.Results) == 1 {
			out = append(out, rs.Results[0])
		}
		return true
	})
	return out
}

// indexArgs returns the index expressions of all x[...] in fn whose base prints as `base`, in source order.
func indexArgs(p *pkg, fn, base string) []ast.Expr {
	fd := findFunc(p, fn)
	if fd == nil {
		fail("function %s not found in %s", fn, p.dir)
	}
	var out []ast.Expr
	ast.Inspect(fd.Body, func(n ast.Node) bool {
		if ie, ok := n.(*ast.IndexExpr); ok && (&tr{p: p}).exprString(ie.X) == base {
			out = append(out, ie.Index)
		}
		return true
	})
	return out
}

type pick struct {
	lean string   // Lean name of the generated definition
	kind string   // "assign" | "cond" | "return" | "index" | "callarg"
	fn   string   // Go function (with receiver)
	what string   // variable / base expression (assign, index), callee (callarg)
	k    int      // which occurrence (0-based)
	of   int      // how many occurrences are expected in all
}

// callArgs returns, for every call in fn whose callee prints as `callee`, the argument number `argNo`.
func callArgs(p *pkg, fn, callee string, argNo int) []ast.Expr {
	fd := findFunc(p, fn)
	if fd == nil {
		fail("function %s not found in %s", fn, p.dir)
	}
	var out []ast.Expr
	ast.Inspect(fd.Body, func(n ast.Node) bool {
		if ce, ok := n.(*ast.CallExpr); ok && (&tr{p: p}).exprString(ce.Fun) == callee && len(ce.Args) > argNo {
			out = append(out, ce.Args[argNo])
		}
		return true
	})
	return out
}

func transPicks(p *pkg, picks []pick, calls map[string]string) string {
	s := ""
	var names []string
	sortSiteParams = true
	defer func() { sortSiteParams = false }()
	for _, pk := range picks {
		var es []ast.Expr
		switch pk.kind {
		case "assign":
			es = assignRHS(p, pk.fn, pk.what)
		case "cond":
			es = conds(p, pk.fn)
		case "return":
			es = returnsOf(p, pk.fn)
		case "index":
			es = indexArgs(p, pk.fn, pk.what)
		default:
			if strings.HasPrefix(pk.kind, "callarg") {
				argNo := 0
				fmt.Sscanf(pk.kind, "callarg%d", &argNo)
				es = callArgs(p, pk.fn, pk.what, argNo)
			} else {
				fail("bad pick kind %s", pk.kind)
			}
		}
		if len(es) != pk.of {
			fail("%s: expected %d %s site(s) %q, found %d (the function's pure computations changed shape)", pk.fn, pk.of, pk.kind, pk.what, len(es))
		}
		e := es[pk.k]
		def, free := transSite(p, pk.lean, e, calls, fmt.Sprintf("%s: %s %s #%d (%s)", pk.fn, pk.kind, pk.what, pk.k, p.fset.Position(e.Pos())))
		s += def + "\n"
		names = append(names, fmt.Sprintf("(\"%s\", [%s])", pk.lean, quoteAll(free)))
	}
	s += "/-- generated definitions and the identifiers each one mentions, in parameter order -/\ndef siteParams : List (String × List String) := [" + strings.Join(names, ",\n  ") + "]\n"
	return s
}

func quoteAll(xs []string) string {
	var q []string
	for _, x := range xs {
		q = append(q, "\""+x+"\"")
	}
	return strings.Join(q, ", ")
}

// siteIndex handles x[i] inside a site: only indexing of a known integer table.
func (t *tr) siteIndex(x *ast.IndexExpr) (string, ty) {
	base := t.exprString(x.X)
	ln, ok := knownTables[base]
	if !ok {
		fail("%s: index into %s, which is not a translated table", t.pos(x), base)
	}
	// a constant index is emitted as a literal natural number
	if tv, ok := t.p.info.Types[x.Index]; ok && tv.Value != nil {
		return fmt.Sprintf("(OtterVerif.Bv.tbl %s (%s#64))", ln, tv.Value.ExactString()), ty{64, false}
	}
	idx, it := t.expr(x.Index)
	if it.w != 64 {
		fail("%s: index of width %d", t.pos(x), it.w)
	}
	et := ty{64, false}
	if tvv, ok := t.p.info.Types[x]; ok {
		et = goTy(tvv.Type, t.pos(x))
	}
	return fmt.Sprintf("(OtterVerif.Bv.tbl %s %s)", ln, idx), et
}

var _ = types.Typ
