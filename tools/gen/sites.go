// Pure-computation sites: expressions picked out of a function by role (the right-hand side of the one
// assignment to a named variable, the k-th branch/loop condition, an index expression) and translated to Lean
// as functions of the identifiers they mention.  Package-level tables of integers (var x = []uint64{...})
// are translated element by element and may be indexed inside sites.
//
// A pick that no longer exists, or exists more than once, is a broken tie (fail), never a silent skip.
package main

import (
	"fmt"
	"go/ast"
	"go/importer"
	"go/token"
	"go/types"
	"sort"
	"strings"
)

// tables known to expr(): Go identifier -> fully qualified Lean name of a List (BitVec 64)
var knownTables = map[string]string{}

// globalTable translates `var name = []T{e0, e1, ...}` (T a 64-bit integer type).
func globalTable(p *pkg, name, leanQual string, calls map[string]string) string {
	for _, f := range p.files {
		for _, d := range f.Decls {
			gd, ok := d.(*ast.GenDecl)
			if !ok || gd.Tok != token.VAR {
				continue
			}
			for _, sp := range gd.Specs {
				vs := sp.(*ast.ValueSpec)
				for i, n := range vs.Names {
					if n.Name != name || i >= len(vs.Values) {
						continue
					}
					cl, ok := vs.Values[i].(*ast.CompositeLit)
					if !ok {
						fail("table %s: initialiser is not a composite literal", name)
					}
					var elems []string
					for _, e := range cl.Elts {
						t := &tr{p: p, locals: map[string]bool{}, calls: calls, freeTy: map[string]ty{}, siteMod: true}
						s, tt := t.expr(e)
						if tt.w != 64 {
							fail("table %s: element of width %d", name, tt.w)
						}
						if len(t.free) != 0 {
							fail("table %s: element mentions %v", name, t.free)
						}
						elems = append(elems, s)
					}
					knownTables[name] = leanQual
					return fmt.Sprintf("/-- %s (%s) -/\ndef %s : List (BitVec 64) :=\n  [%s]\n", name, p.fset.Position(n.Pos()), name, strings.Join(elems, ",\n   "))
				}
			}
		}
	}
	fail("table %s not found in %s", name, p.dir)
	return ""
}

// assignSites returns the right-hand sides of all assignments (:=, =) to variable v in function fn, in source order.
func assignRHS(p *pkg, fn, v string) []ast.Expr {
	fd := findFunc(p, fn)
	if fd == nil {
		fail("function %s not found in %s", fn, p.dir)
	}
	var out []ast.Expr
	ast.Inspect(fd.Body, func(n ast.Node) bool {
		as, ok := n.(*ast.AssignStmt)
		if !ok || len(as.Lhs) != len(as.Rhs) {
			return true
		}
		if as.Tok != token.DEFINE && as.Tok != token.ASSIGN {
			return true
		}
		for i, l := range as.Lhs {
			if (&tr{p: p}).exprString(l) == v {
				out = append(out, as.Rhs[i])
			}
		}
		return true
	})
	return out
}

// conds returns the conditions of all if / for statements of fn in source order.
func conds(p *pkg, fn string) []ast.Expr {
	fd := findFunc(p, fn)
	if fd == nil {
		fail("function %s not found in %s", fn, p.dir)
	}
	var out []ast.Expr
	ast.Inspect(fd.Body, func(n ast.Node) bool {
		switch x := n.(type) {
		case *ast.IfStmt:
			out = append(out, x.Cond)
		case *ast.ForStmt:
			if x.Cond != nil {
				out = append(out, x.Cond)
			}
		case *ast.SwitchStmt:
			if x.Tag == nil {
				for _, c := range x.Body.List {
					out = append(out, c.(*ast.CaseClause).List...)
				}
			}
		}
		return true
	})
	return out
}

// compound assignments `v op= e` of fn in source order
type compound struct {
	op  token.Token
	lhs ast.Expr
	rhs ast.Expr
}

func compoundAssigns(p *pkg, fn, v string) []compound {
	fd := findFunc(p, fn)
	if fd == nil {
		fail("function %s not found in %s", fn, p.dir)
	}
	var out []compound
	ast.Inspect(fd.Body, func(n ast.Node) bool {
		switch as := n.(type) {
		case *ast.AssignStmt:
			if len(as.Lhs) == 1 && len(as.Rhs) == 1 && as.Tok != token.DEFINE && as.Tok != token.ASSIGN && (&tr{p: p}).exprString(as.Lhs[0]) == v {
				out = append(out, compound{as.Tok, as.Lhs[0], as.Rhs[0]})
			}
		case *ast.IncDecStmt:
			if (&tr{p: p}).exprString(as.X) == v {
				out = append(out, compound{as.Tok, as.X, nil})
			}
		}
		return true
	})
	return out
}

// returns returns the results of all single-value return statements of fn in source order.
func returnsOf(p *pkg, fn string) []ast.Expr {
	fd := findFunc(p, fn)
	if fd == nil {
		fail("function %s not found in %s", fn, p.dir)
	}
	var out []ast.Expr
	ast.Inspect(fd.Body, func(n ast.Node) bool {
		if _, ok := n.(*ast.FuncLit); ok {
			return false
		}
		if rs, ok := n.(*ast.ReturnStmt); ok && len(rs.Results) == 1 {
			out = append(out, rs.Results[0])
		}
		return true
	})
	return out
}

// indexArgs returns the index expressions of all x[...] in fn whose base prints as `base`, in source order.
func indexArgs(p *pkg, fn, base string) []ast.Expr {
	fd := findFunc(p, fn)
	if fd == nil {
		fail("function %s not found in %s", fn, p.dir)
	}
	var out []ast.Expr
	ast.Inspect(fd.Body, func(n ast.Node) bool {
		if ie, ok := n.(*ast.IndexExpr); ok && (&tr{p: p}).exprString(ie.X) == base {
			out = append(out, ie.Index)
		}
		return true
	})
	return out
}

type pick struct {
	lean string   // Lean name of the generated definition
	kind string   // "assign" | "cond" | "return" | "index" | "callarg"
	fn   string   // Go function (with receiver)
	what string   // variable / base expression (assign, index), callee (callarg)
	k    int      // which occurrence (0-based)
	of   int      // how many occurrences are expected in all
}

// callArgs returns, for every call in fn whose callee prints as `callee`, the argument number `argNo`.
func callArgs(p *pkg, fn, callee string, argNo int) []ast.Expr {
	fd := findFunc(p, fn)
	if fd == nil {
		fail("function %s not found in %s", fn, p.dir)
	}
	var out []ast.Expr
	ast.Inspect(fd.Body, func(n ast.Node) bool {
		if ce, ok := n.(*ast.CallExpr); ok && (&tr{p: p}).exprString(ce.Fun) == callee && len(ce.Args) > argNo {
			out = append(out, ce.Args[argNo])
		}
		return true
	})
	return out
}

func transPicks(p *pkg, picks []pick, calls map[string]string) string {
	s := ""
	var names []string
	sortSiteParams = true
	defer func() { sortSiteParams = false }()
	for _, pk := range picks {
		var es []ast.Expr
		switch pk.kind {
		case "assign":
			es = assignRHS(p, pk.fn, pk.what)
		case "cond":
			es = conds(p, pk.fn)
		case "return":
			es = returnsOf(p, pk.fn)
		case "index":
			es = indexArgs(p, pk.fn, pk.what)
		case "update":
			cs := compoundAssigns(p, pk.fn, pk.what)
			if len(cs) != pk.of {
				fail("%s: expected %d compound assignment(s) to %q, found %d (the function's pure computations changed shape)", pk.fn, pk.of, pk.what, len(cs))
			}
			c := cs[pk.k]
			t := &tr{p: p, locals: map[string]bool{}, calls: calls, freeTy: map[string]ty{}, siteMod: true}
			l, lt := t.expr(c.lhs)
			r := "(1#" + fmt.Sprint(lt.w) + ")"
			if c.rhs != nil {
				r, _ = t.expr(c.rhs)
			}
			ops := map[token.Token]string{token.ADD_ASSIGN: "+", token.SUB_ASSIGN: "-", token.INC: "+", token.DEC: "-", token.MUL_ASSIGN: "*",
				token.AND_ASSIGN: "&&&", token.OR_ASSIGN: "|||", token.XOR_ASSIGN: "^^^"}
			op, ok := ops[c.op]
			if !ok {
				fail("%s: compound operator %s", pk.fn, c.op)
			}
			sort.Strings(t.free)
			var ps []string
			for _, fv := range t.free {
				ps = append(ps, fmt.Sprintf("(%s : %s)", fv, t.freeTy[fv].lean()))
			}
			s += fmt.Sprintf("/-- %s: new value of %s after its compound assignment #%d (%s) -/\ndef %s %s : %s :=\n  (%s %s %s)\n\n", pk.fn, pk.what, pk.k,
				p.fset.Position(c.lhs.Pos()), pk.lean, strings.Join(ps, " "), lt.lean(), l, op, r)
			names = append(names, fmt.Sprintf("(\"%s\", [%s])", pk.lean, quoteAll(t.free)))
			continue
		default:
			if strings.HasPrefix(pk.kind, "callarg") {
				argNo := 0
				fmt.Sscanf(pk.kind, "callarg%d", &argNo)
				es = callArgs(p, pk.fn, pk.what, argNo)
			} else {
				fail("bad pick kind %s", pk.kind)
			}
		}
		if len(es) != pk.of {
			fail("%s: expected %d %s site(s) %q, found %d (the function's pure computations changed shape)", pk.fn, pk.of, pk.kind, pk.what, len(es))
		}
		e := es[pk.k]
		def, free := transSite(p, pk.lean, e, calls, fmt.Sprintf("%s: %s %s #%d (%s)", pk.fn, pk.kind, pk.what, pk.k, p.fset.Position(e.Pos())))
		s += def + "\n"
		names = append(names, fmt.Sprintf("(\"%s\", [%s])", pk.lean, quoteAll(free)))
	}
	s += "/-- generated definitions and the identifiers each one mentions, in parameter order -/\ndef siteParams : List (String × List String) := [" + strings.Join(names, ",\n  ") + "]\n"
	return s
}

func quoteAll(xs []string) string {
	var q []string
	for _, x := range xs {
		q = append(q, "\""+x+"\"")
	}
	return strings.Join(q, ", ")
}

// siteIndex handles x[i] inside a site: only indexing of a known integer table.
func (t *tr) siteIndex(x *ast.IndexExpr) (string, ty) {
	base := t.exprString(x.X)
	ln, ok := knownTables[base]
	if !ok {
		fail("%s: index into %s, which is not a translated table", t.pos(x), base)
	}
	// a constant index is emitted as a literal natural number
	if tv, ok := t.p.info.Types[x.Index]; ok && tv.Value != nil {
		return fmt.Sprintf("(OtterVerif.Bv.tbl %s (%s#64))", ln, tv.Value.ExactString()), ty{64, false}
	}
	idx, it := t.expr(x.Index)
	if it.w != 64 {
		fail("%s: index of width %d", t.pos(x), it.w)
	}
	et := ty{64, false}
	if tvv, ok := t.p.info.Types[x]; ok {
		et = goTy(tvv.Type, t.pos(x))
	}
	return fmt.Sprintf("(OtterVerif.Bv.tbl %s %s)", ln, idx), et
}

var _ = types.Typ

func importerForSurvey() types.Importer { return importer.ForCompiler(fset, "source", nil) }

// survey prints every condition, assignment and return of the named functions with its index and translation (or the
// reason it is outside the subset): a development aid for choosing picks.
func survey(dir string, fns []string) {
	imp = importerForSurvey()
	p := loadPkg(dir)
	surveyMode = true
	sortSiteParams = true
	try := func(e ast.Expr) (res string) {
		defer func() {
			if r := recover(); r != nil {
				res = fmt.Sprintf("-- NOT TRANSLATABLE: %v", r)
			}
		}()
		t := &tr{p: p, locals: map[string]bool{}, calls: map[string]string{}, freeTy: map[string]ty{}, siteMod: true}
		body, _ := t.expr(e)
		return fmt.Sprintf("%v => %s", t.free, body)
	}
	for _, fn := range fns {
		fd := findFunc(p, fn)
		if fd == nil {
			fmt.Println("no function", fn)
			continue
		}
		fmt.Println("==", fn)
		for i, c := range conds(p, fn) {
			fmt.Printf("  cond %d @%s: %s\n", i, p.fset.Position(c.Pos()), try(c))
		}
		seen := map[string]int{}
		ast.Inspect(fd.Body, func(n ast.Node) bool {
			as, ok := n.(*ast.AssignStmt)
			if !ok || len(as.Lhs) != len(as.Rhs) {
				return true
			}
			for i, l := range as.Lhs {
				v := (&tr{p: p}).exprString(l)
				fmt.Printf("  assign %s #%d (%s) @%s: %s\n", v, seen[v], as.Tok, p.fset.Position(as.Pos()), try(as.Rhs[i]))
				seen[v]++
			}
			return true
		})
		for i, r := range returnsOf(p, fn) {
			fmt.Printf("  return %d: %s\n", i, try(r))
		}
	}
}

// autoSites translates EVERY pure computation of fn that lies in the subset: each branch / loop / case condition
// (`<prefix>_c<k>`), each compound assignment or ++/-- as the new value of its target (`<prefix>_u<k>`), each plain
// assignment (`<prefix>_a<k>`) and each single-value return (`<prefix>_r<k>`); k counts ALL sites of that kind in the
// function, translatable or not, so that a definition keeps its name when a neighbour changes.  It returns the Lean
// text, the (name, parameters) rows and the shape row (how many sites of each kind the function has).
func autoSites(p *pkg, fn, prefix string, calls map[string]string) (string, []string, string) {
	fd := findFunc(p, fn)
	if fd == nil {
		fail("function %s not found in %s", fn, p.dir)
	}
	sortSiteParams = true
	opaqueBoolCalls = true
	saved := surveyMode
	surveyMode = true
	defer func() { sortSiteParams = false; opaqueBoolCalls = false; surveyMode = saved }()
	var out strings.Builder
	var rows []string
	emit := func(name, doc string, build func(t *tr) (string, ty)) {
		defer func() { recover() }() // outside the subset: no definition (the shape row still counts the site)
		t := &tr{p: p, locals: map[string]bool{}, calls: calls, freeTy: map[string]ty{}, siteMod: true}
		body, rt := build(t)
		sort.Strings(t.free)
		var ps []string
		for _, fv := range t.free {
			ps = append(ps, fmt.Sprintf("(%s : %s)", fv, t.freeTy[fv].lean()))
		}
		fmt.Fprintf(&out, "/-- %s -/\ndef %s %s : %s :=\n  %s\n\n", doc, name, strings.Join(ps, " "), rt.lean(), body)
		rows = append(rows, fmt.Sprintf("(\"%s\", [%s])", name, quoteAll(t.free)))
	}
	cs := conds(p, fn)
	for k, c := range cs {
		c := c
		emit(fmt.Sprintf("%s_c%d", prefix, k), fmt.Sprintf("%s: condition #%d (%s)", fn, k, p.fset.Position(c.Pos())), func(t *tr) (string, ty) { return t.expr(c) })
	}
	nu, na := 0, 0
	ops := map[token.Token]string{token.ADD_ASSIGN: "+", token.SUB_ASSIGN: "-", token.INC: "+", token.DEC: "-", token.MUL_ASSIGN: "*",
		token.AND_ASSIGN: "&&&", token.OR_ASSIGN: "|||", token.XOR_ASSIGN: "^^^", token.SHL_ASSIGN: "<<<", token.SHR_ASSIGN: ">>>", token.AND_NOT_ASSIGN: "&^"}
	ng := 0
	goArgs := func(call *ast.CallExpr, what string) {
		k := ng
		ng++
		for j, a := range call.Args {
			a := a
			emit(fmt.Sprintf("%s_g%d_%d", prefix, k, j), fmt.Sprintf("%s: argument %d of the %s call #%d (%s)", fn, j, what, k, p.fset.Position(a.Pos())), func(t *tr) (string, ty) { return t.expr(a) })
		}
	}
	// `switch tag { case a, b: ... }`: one definition per label, `tag == label`, in source order
	nsw := 0
	ast.Inspect(fd.Body, func(n ast.Node) bool {
		sw, ok := n.(*ast.SwitchStmt)
		if !ok || sw.Tag == nil {
			return true
		}
		for _, cc := range sw.Body.List {
			for _, lab := range cc.(*ast.CaseClause).List {
				lab := lab
				k := nsw
				nsw++
				emit(fmt.Sprintf("%s_s%d", prefix, k), fmt.Sprintf("%s: switch label #%d (%s)", fn, k, p.fset.Position(lab.Pos())), func(t *tr) (string, ty) {
					a, ta := t.expr(sw.Tag)
					b, tb := t.expr(lab)
					if ta.w != tb.w {
						fail("switch label width")
					}
					return fmt.Sprintf("(%s == %s)", a, b), ty{0, false}
				})
			}
		}
		return true
	})
	// arithmetic that is neither assigned nor tested: index expressions, call arguments, composite-literal fields
	nx := 0
	arith := func(e ast.Expr) bool {
		for {
			pe, ok := e.(*ast.ParenExpr)
			if !ok {
				break
			}
			e = pe.X
		}
		switch x := e.(type) {
		case *ast.BinaryExpr:
			return true
		case *ast.UnaryExpr:
			return x.Op != token.AND && x.Op != token.ARROW
		}
		return false
	}
	extra := func(e ast.Expr, what string) {
		if !arith(e) {
			return
		}
		if tv, ok := p.info.Types[e]; ok && tv.Value != nil {
			return // a constant expression
		}
		k := nx
		nx++
		emit(fmt.Sprintf("%s_x%d", prefix, k), fmt.Sprintf("%s: %s (%s)", fn, what, p.fset.Position(e.Pos())), func(t *tr) (string, ty) { return t.expr(e) })
	}
	ast.Inspect(fd.Body, func(n ast.Node) bool {
		switch x := n.(type) {
		case *ast.IndexExpr:
			extra(x.Index, "index into "+(&tr{p: p}).exprString(x.X))
		case *ast.CallExpr:
			if ftv, ok := p.info.Types[x.Fun]; ok && ftv.IsType() {
				return true // a conversion, not a call
			}
			for j, a := range x.Args {
				extra(a, fmt.Sprintf("argument %d of %s", j, (&tr{p: p}).exprString(x.Fun)))
			}
		case *ast.KeyValueExpr:
			extra(x.Value, "field "+(&tr{p: p}).exprString(x.Key))
		}
		return true
	})
	ast.Inspect(fd.Body, func(n ast.Node) bool {
		switch as := n.(type) {
		case *ast.GoStmt:
			goArgs(as.Call, "go")
		case *ast.DeferStmt:
			goArgs(as.Call, "defer")
		case *ast.IncDecStmt:
			k := nu
			nu++
			emit(fmt.Sprintf("%s_u%d", prefix, k), fmt.Sprintf("%s: %s after %s (%s)", fn, (&tr{p: p}).exprString(as.X), as.Tok, p.fset.Position(as.Pos())), func(t *tr) (string, ty) {
				l, lt := t.expr(as.X)
				return fmt.Sprintf("(%s %s (1#%d))", l, ops[as.Tok], lt.w), lt
			})
		case *ast.AssignStmt:
			if len(as.Lhs) != len(as.Rhs) {
				return true
			}
			for i := range as.Lhs {
				i := i
				target := (&tr{p: p}).exprString(as.Lhs[i])
				if as.Tok == token.DEFINE || as.Tok == token.ASSIGN {
					k := na
					na++
					emit(fmt.Sprintf("%s_a%d", prefix, k), fmt.Sprintf("%s: value assigned to %s (%s)", fn, target, p.fset.Position(as.Pos())), func(t *tr) (string, ty) { return t.expr(as.Rhs[i]) })
				} else {
					k := nu
					nu++
					emit(fmt.Sprintf("%s_u%d", prefix, k), fmt.Sprintf("%s: %s after %s (%s)", fn, target, as.Tok, p.fset.Position(as.Pos())), func(t *tr) (string, ty) {
						op, ok := ops[as.Tok]
						if !ok {
							fail("operator %s", as.Tok)
						}
						l, lt := t.expr(as.Lhs[i])
						r, _ := t.expr(as.Rhs[i])
						if as.Tok == token.SHL_ASSIGN || as.Tok == token.SHR_ASSIGN {
							r = t.shiftCount(as.Rhs[i])
						}
						if op == "&^" {
							return fmt.Sprintf("(%s &&& ~~~%s)", l, r), lt
						}
						return fmt.Sprintf("(%s %s %s)", l, op, r), lt
					})
				}
			}
		}
		return true
	})
	rs := returnsOf(p, fn)
	for k, r := range rs {
		r := r
		emit(fmt.Sprintf("%s_r%d", prefix, k), fmt.Sprintf("%s: returned value #%d (%s)", fn, k, p.fset.Position(r.Pos())), func(t *tr) (string, ty) { return t.expr(r) })
	}
	shape := fmt.Sprintf("(\"%s\", [%d, %d, %d, %d, %d, %d, %d])", prefix, len(cs), nu, na, len(rs), ng, nx, nsw)
	return out.String(), rows, shape
}

// autoModule writes Gen/<mod>.lean with the sites of all listed functions (fn -> prefix).
func autoModule(out, mod string, p *pkg, fns [][2]string, calls map[string]string, preamble string, imports ...string) {
	s := header(mod, imports...) + preamble
	var rows, shapes []string
	onDemandDone = map[string]bool{}
	mark := len(onDemandDefs)
	body := ""
	for _, f := range fns {
		txt, r, sh := autoSites(p, f[0], f[1], calls)
		body += txt
		rows = append(rows, r...)
		shapes = append(shapes, sh)
	}
	// helper functions of the package that the sites call (translated on demand, whole)
	for _, d := range onDemandDefs[mark:] {
		s += d + "\n"
	}
	s += body
	s += "/-- generated definitions and the identifiers each one mentions, in parameter order -/\ndef siteParams : List (String × List String) := [" + strings.Join(rows, ",\n  ") + "]\n\n"
	s += "/-- per function: number of conditions, compound assignments, plain assignments, single-value returns, go/defer statements, further arithmetic expressions (indices, call arguments, literal fields), labels of tagged switches in the source -/\ndef shape : List (String × List Nat) := [" + strings.Join(shapes, ",\n  ") + "]\n"
	s += footer(mod)
	write(out, mod, s)
}

// allFuncs lists every function with a body declared in the named files of p, as (Go name, Lean prefix).
func allFuncs(p *pkg, files ...string) [][2]string {
	var out [][2]string
	seen := map[string]bool{}
	for _, f := range p.files {
		name := p.fset.Position(f.Pos()).Filename
		match := false
		for _, w := range files {
			if strings.HasSuffix(name, "/"+w) || name == w {
				match = true
			}
		}
		if !match {
			continue
		}
		for _, d := range f.Decls {
			fd, ok := d.(*ast.FuncDecl)
			if !ok || fd.Body == nil {
				continue
			}
			gn := enclosingName(fd)
			pre := sanitize(strings.Replace(gn, ".", "_", 1))
			if seen[pre] {
				continue
			}
			seen[pre] = true
			out = append(out, [2]string{gn, pre})
		}
	}
	return out
}
