// Command verifgen regenerates /verif/lean/OtterVerif/Gen/*.lean from the Go sources of
// the repository it is run in (cwd = repository root).
//
// It translates a deliberately tiny subset of Go: straight-line fixed-width integer code
// (leaf functions), selected *expressions* at named call sites (deadline arithmetic,
// persistence filter), and the bodies of node predicates.  Anything outside the subset
// aborts with a message naming the construct: a broken tie, never a silent skip.
//
// Usage: verifgen <outdir>
package main

import (
	"fmt"
	"go/ast"
	"go/constant"
	"go/importer"
	"go/parser"
	"go/token"
	"go/types"
	"math/big"
	"os"
	"path/filepath"
	"sort"
	"strings"
)

type pkg struct {
	dir   string
	fset  *token.FileSet
	files []*ast.File
	info  *types.Info
	tpkg  *types.Package
}

var fset = token.NewFileSet()
var onDemandDefs []string

// picks (sites.go) order the parameters of a generated definition alphabetically, so that swapping operands in the
// source does not change the definition's signature; the older deadline sites keep order of first use
var sortSiteParams bool
var onDemandDone = map[string]bool{}
var imp types.Importer

func loadPkg(dir string) *pkg {
	ents, err := os.ReadDir(dir)
	if err != nil {
		fail("read dir %s: %v", dir, err)
	}
	p := &pkg{dir: dir, fset: fset}
	for _, e := range ents {
		n := e.Name()
		if e.IsDir() || !strings.HasSuffix(n, ".go") || strings.HasSuffix(n, "_test.go") || strings.HasPrefix(n, "zz_verif") {
			continue
		}
		f, err := parser.ParseFile(fset, filepath.Join(dir, n), nil, parser.ParseComments)
		if err != nil {
			fail("parse %s: %v", n, err)
		}
		p.files = append(p.files, f)
	}
	p.info = &types.Info{
		Types: map[ast.Expr]types.TypeAndValue{},
		Uses:  map[*ast.Ident]types.Object{},
		Defs:  map[*ast.Ident]types.Object{},
	}
	conf := types.Config{Importer: imp, Error: func(err error) {}}
	tp, _ := conf.Check(dir, fset, p.files, p.info)
	p.tpkg = tp
	return p
}

var surveyMode bool

func fail(f string, a ...any) {
	if surveyMode {
		panic(fmt.Sprintf(f, a...))
	}
	fmt.Fprintf(os.Stderr, "verifgen: UNSUPPORTED/BROKEN: "+f+"\n", a...)
	os.Exit(3)
}

// ---------- types ----------

type ty struct {
	w      int // bit width; 0 = bool
	signed bool
}

var intModeGlobal bool

func (t ty) lean() string {
	if t.w == 0 {
		return "Bool"
	}
	if intModeGlobal {
		return "Int"
	}
	return fmt.Sprintf("BitVec %d", t.w)
}

func wrapName(t ty) string {
	if t.signed {
		return fmt.Sprintf("OtterVerif.wrapS %d", t.w)
	}
	return fmt.Sprintf("OtterVerif.wrapU %d", t.w)
}

func goTy(t types.Type, where string) ty {
	b, ok := t.Underlying().(*types.Basic)
	if !ok {
		fail("%s: non-basic type %s", where, t)
	}
	switch b.Kind() {
	case types.Bool, types.UntypedBool:
		return ty{0, false}
	case types.Int, types.Int64, types.UntypedInt:
		return ty{64, true}
	case types.Uint, types.Uint64, types.Uintptr:
		return ty{64, false}
	case types.Int32:
		return ty{32, true}
	case types.Uint32:
		return ty{32, false}
	case types.Int8:
		return ty{8, true}
	case types.Uint8:
		return ty{8, false}
	case types.Int16:
		return ty{16, true}
	case types.Uint16:
		return ty{16, false}
	}
	fail("%s: unsupported basic type %s", where, t)
	return ty{}
}

// ---------- expression translation ----------

type tr struct {
	p       *pkg
	free    []string          // free variables in order of first use (site mode)
	freeTy  map[string]ty     //
	locals  map[string]bool   // names bound by let in function mode
	calls   map[string]string // Go func name -> Lean name (for calls to translated functions)
	siteMod bool
	intMode bool // emit Int-level semantics with explicit wrap (arithmetic theorems via omega)
}

func (t *tr) pos(n ast.Node) string { return t.p.fset.Position(n.Pos()).String() }

func constLit(v constant.Value, tt ty, where string) string {
	if tt.w == 0 {
		if constant.BoolVal(v) {
			return "true"
		}
		return "false"
	}
	iv := constant.ToInt(v)
	if iv.Kind() != constant.Int {
		fail("%s: non-integer constant %s", where, v)
	}
	bi, ok := new(big.Int).SetString(iv.ExactString(), 10)
	if !ok {
		fail("%s: bad constant %s", where, v)
	}
	if intModeGlobal {
		return fmt.Sprintf("(%s : Int)", bi.String())
	}
	mod := new(big.Int).Lsh(big.NewInt(1), uint(tt.w))
	bi.Mod(bi, mod)
	return fmt.Sprintf("(%s#%d)", bi.String(), tt.w)
}

var opaqueBoolCalls bool

func sanitizeFull(s string) string {
	var b strings.Builder
	for _, r := range s {
		if (r >= 'a' && r <= 'z') || (r >= 'A' && r <= 'Z') || (r >= '0' && r <= '9') {
			b.WriteRune(r)
		} else if r == '!' {
			b.WriteString("not")
		} else if r != ' ' {
			b.WriteRune('_')
		}
	}
	return strings.Trim(b.String(), "_")
}

var leanKeywords = map[string]bool{"end": true, "at": true, "from": true, "have": true, "show": true, "then": true, "else": true, "do": true, "in": true, "fun": true, "let": true, "match": true, "with": true, "open": true, "where": true, "by": true, "if": true, "for": true, "local": true, "prefix": true, "instance": true, "class": true, "structure": true, "def": true, "theorem": true, "example": true, "mutual": true, "namespace": true, "section": true, "variable": true, "universe": true, "import": true, "export": true, "private": true, "protected": true, "macro": true, "syntax": true, "notation": true, "infix": true, "deriving": true, "extends": true, "return": true, "unless": true, "try": true, "catch": true, "finally": true, "mut": true, "Type": true, "Prop": true, "Sort": true, "using": true, "calc": true, "suffices": true, "obtain": true, "abbrev": true, "inductive": true, "axiom": true, "opaque": true, "attribute": true, "set_option": true, "nomatch": true, "nofun": true, "forall": true, "exists": true}

func sanitize(s string) string {
	r := strings.NewReplacer(".", "_", "(", "", ")", "", "[", "_", "]", "", "*", "", " ", "")
	s = r.Replace(s)
	if leanKeywords[s] {
		s += "_"
	}
	return s
}

func (t *tr) exprString(e ast.Expr) string {
	switch x := e.(type) {
	case *ast.Ident:
		return x.Name
	case *ast.SelectorExpr:
		return t.exprString(x.X) + "." + x.Sel.Name
	case *ast.CallExpr:
		return t.exprString(x.Fun)
	case *ast.ParenExpr:
		return t.exprString(x.X)
	case *ast.IndexExpr:
		return t.exprString(x.X) + "[" + t.exprString(x.Index) + "]"
	case *ast.BasicLit:
		return x.Value
	}
	return "expr"
}

func (t *tr) useFree(name string, tt ty) string {
	name = sanitize(name)
	if _, ok := t.freeTy[name]; !ok {
		t.free = append(t.free, name)
		t.freeTy[name] = tt
	}
	return name
}

// expr returns Lean term and its type.
func (t *tr) expr(e ast.Expr) (string, ty) {
	tv, ok := t.p.info.Types[e]
	if ok && tv.Value != nil {
		tt := goTy(tv.Type, t.pos(e))
		return constLit(tv.Value, tt, t.pos(e)), tt
	}
	switch x := e.(type) {
	case *ast.ParenExpr:
		return t.expr(x.X)
	case *ast.Ident:
		tt := goTy(tv.Type, t.pos(e)+" ident "+x.Name)
		if t.locals[x.Name] {
			return x.Name, tt
		}
		if t.siteMod {
			return t.useFree(x.Name, tt), tt
		}
		fail("%s: unbound identifier %s", t.pos(e), x.Name)
	case *ast.SelectorExpr:
		// field read, treated as a free variable in site mode
		if t.siteMod {
			tt := goTy(tv.Type, t.pos(e))
			return t.useFree(t.exprString(x), tt), tt
		}
		fail("%s: selector %s outside site mode", t.pos(e), t.exprString(x))
	case *ast.UnaryExpr:
		s, tt := t.expr(x.X)
		switch x.Op {
		case token.SUB:
			if intModeGlobal {
				return "(" + wrapName(tt) + " (-" + s + "))", tt
			}
			return "(-" + s + ")", tt
		case token.XOR:
			return "(~~~" + s + ")", tt
		case token.NOT:
			return "(!" + s + ")", tt
		case token.ADD:
			return s, tt
		}
		fail("%s: unary %s", t.pos(e), x.Op)
	case *ast.BinaryExpr:
		return t.binary(x)
	case *ast.CallExpr:
		return t.call(x, tv)
	case *ast.IndexExpr:
		if t.siteMod {
			if _, known := knownTables[t.exprString(x.X)]; !known && opaqueBoolCalls {
				// an element of a slice that is not a translated table (s.table[i], buffer[offset]): an opaque value named
				// after the whole printed expression
				if b, ok := tv.Type.Underlying().(*types.Basic); ok && b.Info()&(types.IsInteger|types.IsBoolean) != 0 {
					tt := goTy(tv.Type, t.pos(e))
					return t.useFree(sanitizeFull(types.ExprString(x)), tt), tt
				}
			}
			return t.siteIndex(x)
		}
	}
	fail("%s: unsupported expression %T (%s)", t.pos(e), e, t.exprString(e))
	return "", ty{}
}

func (t *tr) shiftCount(e ast.Expr) string {
	tv := t.p.info.Types[e]
	if tv.Value != nil {
		iv := constant.ToInt(tv.Value)
		return iv.ExactString()
	}
	s, _ := t.expr(e)
	return s + ".toNat"
}

func (t *tr) binary(x *ast.BinaryExpr) (string, ty) {
	switch x.Op {
	case token.SHL, token.SHR:
		if intModeGlobal {
			fail("%s: shift in Int mode", t.pos(x))
		}
		a, ta := t.expr(x.X)
		n := t.shiftCount(x.Y)
		if x.Op == token.SHL {
			return fmt.Sprintf("(%s <<< %s)", a, n), ta
		}
		if ta.signed {
			return fmt.Sprintf("(BitVec.sshiftRight %s (%s))", a, n), ta
		}
		return fmt.Sprintf("(%s >>> %s)", a, n), ta
	case token.LAND, token.LOR:
		a, _ := t.expr(x.X)
		b, _ := t.expr(x.Y)
		op := "&&"
		if x.Op == token.LOR {
			op = "||"
		}
		return fmt.Sprintf("(%s %s %s)", a, op, b), ty{0, false}
	}
	if opaqueBoolCalls && t.siteMod && (x.Op == token.EQL || x.Op == token.NEQ) {
		if xt, ok := t.p.info.Types[x.X]; ok {
			if _, basic := xt.Type.Underlying().(*types.Basic); !basic || xt.IsNil() {
				// pointer / interface / nil comparison: an opaque boolean named after the printed comparison
				return t.useFree(sanitizeFull(types.ExprString(x)), ty{0, false}), ty{0, false}
			}
		}
	}
	a, ta := t.expr(x.X)
	b, tb := t.expr(x.Y)
	if ta.w != tb.w {
		fail("%s: width mismatch in %s", t.pos(x), x.Op)
	}
	arith := map[token.Token]string{token.ADD: "+", token.SUB: "-", token.MUL: "*", token.AND: "&&&", token.OR: "|||", token.XOR: "^^^"}
	if op, ok := arith[x.Op]; ok {
		if ta.w == 0 {
			fail("%s: arithmetic on bool", t.pos(x))
		}
		if intModeGlobal {
			if x.Op != token.ADD && x.Op != token.SUB && x.Op != token.MUL {
				fail("%s: bit operation %s in Int mode", t.pos(x), x.Op)
			}
			return fmt.Sprintf("(%s (%s %s %s))", wrapName(ta), a, op, b), ta
		}
		return fmt.Sprintf("(%s %s %s)", a, op, b), ta
	}
	switch x.Op {
	case token.AND_NOT:
		return fmt.Sprintf("(%s &&& ~~~%s)", a, b), ta
	case token.EQL:
		return fmt.Sprintf("(%s == %s)", a, b), ty{0, false}
	case token.NEQ:
		return fmt.Sprintf("(%s != %s)", a, b), ty{0, false}
	case token.QUO:
		if ta.signed {
			return fmt.Sprintf("(BitVec.sdiv %s %s)", a, b), ta
		}
		return fmt.Sprintf("(%s / %s)", a, b), ta
	case token.REM:
		if ta.signed {
			return fmt.Sprintf("(BitVec.srem %s %s)", a, b), ta
		}
		return fmt.Sprintf("(%s %% %s)", a, b), ta
	}
	cmp := map[token.Token][2]string{
		token.LSS: {"BitVec.ult", "BitVec.slt"}, token.LEQ: {"BitVec.ule", "BitVec.sle"},
	}
	if intModeGlobal {
		ops := map[token.Token]string{token.LSS: "<", token.LEQ: "≤", token.GTR: ">", token.GEQ: "≥"}
		if o, ok := ops[x.Op]; ok {
			return fmt.Sprintf("(decide (%s %s %s))", a, o, b), ty{0, false}
		}
	}
	if c, ok := cmp[x.Op]; ok {
		f := c[0]
		if ta.signed {
			f = c[1]
		}
		return fmt.Sprintf("(%s %s %s)", f, a, b), ty{0, false}
	}
	cmpR := map[token.Token][2]string{
		token.GTR: {"BitVec.ult", "BitVec.slt"}, token.GEQ: {"BitVec.ule", "BitVec.sle"},
	}
	if c, ok := cmpR[x.Op]; ok {
		f := c[0]
		if ta.signed {
			f = c[1]
		}
		return fmt.Sprintf("(%s %s %s)", f, b, a), ty{0, false}
	}
	fail("%s: binary operator %s", t.pos(x), x.Op)
	return "", ty{}
}

func convert(s string, from, to ty) string {
	if intModeGlobal {
		if from == to {
			return s
		}
		return "(" + wrapName(to) + " " + s + ")"
	}
	if from.w == to.w {
		return s
	}
	if from.w == 0 || to.w == 0 {
		fail("conversion involving bool")
	}
	if to.w < from.w {
		return fmt.Sprintf("(BitVec.setWidth %d %s)", to.w, s)
	}
	if from.signed {
		return fmt.Sprintf("(BitVec.signExtend %d %s)", to.w, s)
	}
	return fmt.Sprintf("(BitVec.setWidth %d %s)", to.w, s)
}

func (t *tr) call(x *ast.CallExpr, tv types.TypeAndValue) (string, ty) {
	// conversion?
	if ftv, ok := t.p.info.Types[x.Fun]; ok && ftv.IsType() {
		to := goTy(ftv.Type, t.pos(x))
		s, from := t.expr(x.Args[0])
		return convert(s, from, to), to
	}
	name := t.exprString(x.Fun)
	// time.Duration constant .Nanoseconds(): the constant itself, as int64
	if se, ok := x.Fun.(*ast.SelectorExpr); ok && se.Sel.Name == "Nanoseconds" && len(x.Args) == 0 {
		if ctv, ok := t.p.info.Types[se.X]; ok && ctv.Value != nil {
			return constLit(ctv.Value, ty{64, true}, t.pos(x)), ty{64, true}
		}
	}
	switch name {
	case "len":
		if ln, ok := knownTables[t.exprString(x.Args[0])]; ok && len(x.Args) == 1 {
			return "(OtterVerif.Bv.tblLen " + ln + ")", ty{64, true}
		}
		if t.siteMod && len(x.Args) == 1 {
			return t.useFree("len_"+t.exprString(x.Args[0]), ty{64, true}), ty{64, true}
		}
	case "min", "max":
		a, ta := t.expr(x.Args[0])
		for _, arg := range x.Args[1:] {
			b, _ := t.expr(arg)
			pre := "u"
			if ta.signed {
				pre = "s"
			}
			a = fmt.Sprintf("(OtterVerif.Bv.%s%s %s %s)", pre, name, a, b)
		}
		return a, ta
	case "bits.TrailingZeros64":
		a, _ := t.expr(x.Args[0])
		return fmt.Sprintf("(OtterVerif.Bv.trailingZeros64 %s)", a), ty{64, true}
	case "bits.OnesCount64":
		a, _ := t.expr(x.Args[0])
		return fmt.Sprintf("(OtterVerif.Bv.onesCount64 %s)", a), ty{64, true}
	}
	if ln, ok := t.calls[name]; ok {
		var args []string
		for _, a := range x.Args {
			s, _ := t.expr(a)
			args = append(args, s)
		}
		rt := goTy(tv.Type, t.pos(x))
		return "(" + ln + " " + strings.Join(args, " ") + ")", rt
	}
	// a helper function of the same package: translate it on demand (must itself be in the subset)
	if id, ok := x.Fun.(*ast.Ident); ok {
		if fd := findFunc(t.p, id.Name); fd != nil && fd.Recv == nil {
			ln := "h_" + id.Name
			if !onDemandDone[t.p.dir+"/"+id.Name] {
				onDemandDone[t.p.dir+"/"+id.Name] = true
				onDemandDefs = append(onDemandDefs, transFunc(t.p, id.Name, ln, t.calls))
			}
			t.calls[name] = ln
			var args []string
			for _, a := range x.Args {
				s, _ := t.expr(a)
				args = append(args, s)
			}
			rt := goTy(tv.Type, t.pos(x))
			return "(" + ln + " " + strings.Join(args, " ") + ")", rt
		}
	}
	// a call with arguments whose result is a bool (node.Equals(a, nil), d.Contains(n), p.admit(...)): an opaque
	// boolean named after the whole printed call, so that the decision's shape and its operands stay pinned
	if t.siteMod && opaqueBoolCalls && len(x.Args) > 0 {
		if b, ok := tv.Type.Underlying().(*types.Basic); ok && b.Info()&types.IsBoolean != 0 {
			return t.useFree(sanitizeFull(types.ExprString(x)), ty{0, false}), ty{0, false}
		}
		if b, ok := tv.Type.Underlying().(*types.Basic); ok && b.Info()&types.IsInteger != 0 {
			if _, isLocalFn := x.Fun.(*ast.Ident); !isLocalFn || findFunc(t.p, name) == nil {
				tt := goTy(tv.Type, t.pos(x))
				return t.useFree(sanitizeFull(types.ExprString(x)), tt), tt
			}
		}
	}
	// method call / unknown call with basic result: free variable in site mode
	if t.siteMod && len(x.Args) == 0 {
		tt := goTy(tv.Type, t.pos(x))
		return t.useFree(name, tt), tt
	}
	fail("%s: call to untranslated function %s", t.pos(x), name)
	return "", ty{}
}

// ---------- statements (function mode) ----------

func (t *tr) assignedVars(stmts []ast.Stmt) []string {
	seen := map[string]bool{}
	var out []string
	var walk func(s ast.Stmt)
	walk = func(s ast.Stmt) {
		switch x := s.(type) {
		case *ast.AssignStmt:
			for _, l := range x.Lhs {
				if id, ok := l.(*ast.Ident); ok && x.Tok != token.DEFINE && !seen[id.Name] {
					seen[id.Name] = true
					out = append(out, id.Name)
				}
			}
		case *ast.IncDecStmt:
			if id, ok := x.X.(*ast.Ident); ok && !seen[id.Name] {
				seen[id.Name] = true
				out = append(out, id.Name)
			}
		case *ast.IfStmt:
			for _, b := range x.Body.List {
				walk(b)
			}
			if x.Else != nil {
				if eb, ok := x.Else.(*ast.BlockStmt); ok {
					for _, b := range eb.List {
						walk(b)
					}
				} else {
					walk(x.Else.(ast.Stmt))
				}
			}
		case *ast.BlockStmt:
			for _, b := range x.List {
				walk(b)
			}
		}
	}
	for _, s := range stmts {
		walk(s)
	}
	return out
}

func endsInReturn(stmts []ast.Stmt) bool {
	if len(stmts) == 0 {
		return false
	}
	switch x := stmts[len(stmts)-1].(type) {
	case *ast.ReturnStmt:
		return true
	case *ast.IfStmt:
		if x.Else == nil {
			return false
		}
		eb, ok := x.Else.(*ast.BlockStmt)
		if !ok {
			return endsInReturn([]ast.Stmt{x.Else.(ast.Stmt)}) && endsInReturn(x.Body.List)
		}
		return endsInReturn(x.Body.List) && endsInReturn(eb.List)
	}
	return false
}

// block translates stmts followed by continuation k (a Lean term or "" meaning must return).
func (t *tr) block(stmts []ast.Stmt, k string, ind string) string {
	if len(stmts) == 0 {
		if k == "" {
			fail("function falls off the end without return")
		}
		return k
	}
	s := stmts[0]
	rest := func() string { return t.block(stmts[1:], k, ind) }
	switch x := s.(type) {
	case *ast.ReturnStmt:
		var parts []string
		for _, r := range x.Results {
			e, _ := t.expr(r)
			parts = append(parts, e)
		}
		if len(parts) == 1 {
			return parts[0]
		}
		return "(" + strings.Join(parts, ", ") + ")"
	case *ast.DeclStmt:
		gd := x.Decl.(*ast.GenDecl)
		out := ""
		for _, sp := range gd.Specs {
			vs, ok := sp.(*ast.ValueSpec)
			if !ok {
				fail("%s: unsupported decl", t.pos(x))
			}
			for i, n := range vs.Names {
				obj := t.p.info.Defs[n]
				tt := goTy(obj.Type(), t.pos(n))
				val := "(0#" + fmt.Sprint(tt.w) + ")"
				if tt.w == 0 {
					val = "false"
				}
				if i < len(vs.Values) {
					val, _ = t.expr(vs.Values[i])
				}
				t.locals[n.Name] = true
				out += fmt.Sprintf("let %s : %s := %s\n%s", n.Name, tt.lean(), val, ind)
			}
		}
		return out + rest()
	case *ast.AssignStmt:
		if len(x.Lhs) != 1 || len(x.Rhs) != 1 {
			fail("%s: multi-assignment", t.pos(x))
		}
		id, ok := x.Lhs[0].(*ast.Ident)
		if !ok {
			fail("%s: assignment to non-identifier", t.pos(x))
		}
		var val string
		var tt ty
		if x.Tok == token.ASSIGN || x.Tok == token.DEFINE {
			val, tt = t.expr(x.Rhs[0])
		} else {
			ops := map[token.Token]token.Token{token.ADD_ASSIGN: token.ADD, token.SUB_ASSIGN: token.SUB, token.MUL_ASSIGN: token.MUL,
				token.AND_ASSIGN: token.AND, token.OR_ASSIGN: token.OR, token.XOR_ASSIGN: token.XOR, token.SHL_ASSIGN: token.SHL,
				token.SHR_ASSIGN: token.SHR, token.AND_NOT_ASSIGN: token.AND_NOT}
			op, ok := ops[x.Tok]
			if !ok {
				fail("%s: assignment operator %s", t.pos(x), x.Tok)
			}
			be := &ast.BinaryExpr{X: x.Lhs[0], Op: op, Y: x.Rhs[0], OpPos: x.TokPos}
			// type info for synthesized node: copy from lhs
			t.p.info.Types[be] = types.TypeAndValue{Type: t.p.info.Types[x.Lhs[0]].Type}
			if t.p.info.Types[x.Lhs[0]].Type == nil {
				t.p.info.Types[be] = types.TypeAndValue{Type: t.p.info.Uses[id].Type()}
			}
			val, tt = t.binary(be)
		}
		t.locals[id.Name] = true
		return fmt.Sprintf("let %s : %s := %s\n%s", id.Name, tt.lean(), val, ind) + rest()
	case *ast.IncDecStmt:
		id, ok := x.X.(*ast.Ident)
		if !ok {
			fail("%s: inc/dec of non-identifier", t.pos(x))
		}
		v, tt := t.expr(x.X)
		op := "+"
		if x.Tok == token.DEC {
			op = "-"
		}
		return fmt.Sprintf("let %s : %s := %s %s (1#%d)\n%s", id.Name, tt.lean(), v, op, tt.w, ind) + rest()
	case *ast.IfStmt:
		if x.Init != nil {
			fail("%s: if with init", t.pos(x))
		}
		c, _ := t.expr(x.Cond)
		if endsInReturn(x.Body.List) && x.Else == nil {
			saved := copyMap(t.locals)
			th := t.block(x.Body.List, "", ind+"  ")
			t.locals = saved
			return fmt.Sprintf("if %s then\n%s  %s\n%selse\n%s", c, ind, th, ind, ind) + rest()
		}
		if x.Else != nil && endsInReturn([]ast.Stmt{x}) {
			saved := copyMap(t.locals)
			th := t.block(x.Body.List, "", ind+"  ")
			t.locals = copyMap(saved)
			var el string
			if eb, ok := x.Else.(*ast.BlockStmt); ok {
				el = t.block(eb.List, "", ind+"  ")
			} else {
				el = t.block([]ast.Stmt{x.Else.(ast.Stmt)}, "", ind+"  ")
			}
			t.locals = saved
			return fmt.Sprintf("if %s then\n%s  %s\n%selse\n%s  %s", c, ind, th, ind, ind, el)
		}
		// no returns inside: state update of assigned variables
		var all []ast.Stmt
		all = append(all, x.Body.List...)
		var elseList []ast.Stmt
		if x.Else != nil {
			if eb, ok := x.Else.(*ast.BlockStmt); ok {
				elseList = eb.List
			} else {
				elseList = []ast.Stmt{x.Else.(ast.Stmt)}
			}
			all = append(all, elseList...)
		}
		vars := t.assignedVars(all)
		for _, v := range vars {
			if !t.locals[v] {
				fail("%s: if-branch assigns non-local %s", t.pos(x), v)
			}
		}
		if len(vars) == 0 {
			return rest()
		}
		tup := vars[0]
		if len(vars) > 1 {
			tup = "(" + strings.Join(vars, ", ") + ")"
		}
		saved := copyMap(t.locals)
		th := t.block(x.Body.List, tup, ind+"  ")
		t.locals = copyMap(saved)
		el := t.block(elseList, tup, ind+"  ")
		t.locals = saved
		return fmt.Sprintf("let %s := if %s then\n%s  %s\n%selse\n%s  %s\n%s", tup, c, ind, th, ind, ind, el, ind) + rest()
	case *ast.BlockStmt:
		return t.block(append(append([]ast.Stmt{}, x.List...), stmts[1:]...), k, ind)
	}
	fail("%s: unsupported statement %T", t.pos(s), s)
	return ""
}

func copyCalls(m map[string]string) map[string]string {
	o := map[string]string{}
	for k, v := range m {
		o[k] = v
	}
	return o
}

func copyMap(m map[string]bool) map[string]bool {
	o := map[string]bool{}
	for k, v := range m {
		o[k] = v
	}
	return o
}

func findFunc(p *pkg, name string) *ast.FuncDecl {
	for _, f := range p.files {
		for _, d := range f.Decls {
			fd, ok := d.(*ast.FuncDecl)
			if !ok {
				continue
			}
			n := fd.Name.Name
			if fd.Recv != nil && len(fd.Recv.List) > 0 {
				n = recvName(fd.Recv.List[0].Type) + "." + n
			}
			if n == name {
				return fd
			}
		}
	}
	return nil
}

func recvName(e ast.Expr) string {
	switch x := e.(type) {
	case *ast.StarExpr:
		return recvName(x.X)
	case *ast.IndexExpr:
		return recvName(x.X)
	case *ast.IndexListExpr:
		return recvName(x.X)
	case *ast.Ident:
		return x.Name
	}
	return "?"
}

// transFunc translates a pure integer function. recvFields: receiver fields used are
// turned into leading parameters (e.g. m.maxQueueCapacity).
func transFunc(p *pkg, goName, leanName string, calls map[string]string) string {
	fd := findFunc(p, goName)
	if fd == nil {
		fail("function %s not found in %s", goName, p.dir)
	}
	t := &tr{p: p, locals: map[string]bool{}, calls: calls, freeTy: map[string]ty{}}
	var params []string
	for _, f := range fd.Type.Params.List {
		for _, n := range f.Names {
			obj := p.info.Defs[n]
			tt := goTy(obj.Type(), t.pos(n))
			t.locals[n.Name] = true
			params = append(params, fmt.Sprintf("(%s : %s)", n.Name, tt.lean()))
		}
	}
	// receiver fields become free variables (site mode for selectors on receiver)
	t.siteMod = fd.Recv != nil
	var rts []string
	if fd.Type.Results != nil {
		for _, f := range fd.Type.Results.List {
			n := 1
			if len(f.Names) > 0 {
				n = len(f.Names)
			}
			for i := 0; i < n; i++ {
				rts = append(rts, goTy(p.info.Types[f.Type].Type, t.pos(f.Type)).lean())
			}
		}
	}
	body := t.block(fd.Body.List, "", "  ")
	var fparams []string
	for _, fv := range t.free {
		fparams = append(fparams, fmt.Sprintf("(%s : %s)", fv, t.freeTy[fv].lean()))
	}
	params = append(fparams, params...)
	rt := strings.Join(rts, " × ")
	return fmt.Sprintf("/-- %s (%s) -/\ndef %s %s : %s :=\n  %s\n", goName, p.fset.Position(fd.Pos()), leanName, strings.Join(params, " "), rt, body)
}

// ---------- sites ----------

type site struct {
	fn   string // enclosing function (with receiver)
	meth string
	expr ast.Expr
}

func enclosingName(fd *ast.FuncDecl) string {
	n := fd.Name.Name
	if fd.Recv != nil && len(fd.Recv.List) > 0 {
		n = recvName(fd.Recv.List[0].Type) + "." + n
	}
	return n
}

// callSites finds calls x.<meth>(..., arg) in package p and returns the last argument.
func callSites(p *pkg, meths map[string]bool) []site {
	var out []site
	for _, f := range p.files {
		for _, d := range f.Decls {
			fd, ok := d.(*ast.FuncDecl)
			if !ok || fd.Body == nil {
				continue
			}
			ast.Inspect(fd.Body, func(n ast.Node) bool {
				ce, ok := n.(*ast.CallExpr)
				if !ok {
					return true
				}
				se, ok := ce.Fun.(*ast.SelectorExpr)
				if !ok || !meths[se.Sel.Name] || len(ce.Args) == 0 {
					return true
				}
				out = append(out, site{fn: enclosingName(fd), meth: se.Sel.Name, expr: ce.Args[len(ce.Args)-1]})
				return true
			})
		}
	}
	sort.SliceStable(out, func(i, j int) bool { return out[i].expr.Pos() < out[j].expr.Pos() })
	return out
}

func transSite(p *pkg, leanName string, e ast.Expr, calls map[string]string, doc string) (string, []string) {
	t := &tr{p: p, locals: map[string]bool{}, calls: calls, freeTy: map[string]ty{}, siteMod: true}
	body, rt := t.expr(e)
	if sortSiteParams {
		sort.Strings(t.free)
	}
	var ps []string
	for _, fv := range t.free {
		ps = append(ps, fmt.Sprintf("(%s : %s)", fv, t.freeTy[fv].lean()))
	}
	return fmt.Sprintf("/-- %s -/\ndef %s %s : %s :=\n  %s\n", doc, leanName, strings.Join(ps, " "), rt.lean(), body), t.free
}

// ---------- main ----------

func header(mod string, imports ...string) string {
	s := "-- GENERATED by /verif/tools/gen from /repo's working tree. DO NOT EDIT.\n"
	s += "import OtterVerif.Basic\n"
	for _, i := range imports {
		s += "import " + i + "\n"
	}
	s += "\nnamespace OtterVerif.Gen." + mod + "\n\n"
	return s
}

func footer(mod string) string { return "\nend OtterVerif.Gen." + mod + "\n" }

func write(out, mod, content string) {
	if err := os.WriteFile(filepath.Join(out, mod+".lean"), []byte(content), 0o644); err != nil {
		fail("write: %v", err)
	}
}

func main() {
	if len(os.Args) < 2 {
		fail("usage: verifgen <outdir>")
	}
	if os.Args[1] == "-survey" {
		survey(os.Args[2], os.Args[3:])
		return
	}
	out := os.Args[1]
	os.MkdirAll(out, 0o755)
	old, _ := filepath.Glob(filepath.Join(out, "*.lean"))
	for _, f := range old {
		os.Remove(f)
	}
	imp = importer.ForCompiler(fset, "source", nil)

	// ---- Xmath
	xm := loadPkg("internal/xmath")
	xmCalls := map[string]string{}
	s := header("Xmath")
	for _, fn := range []string{"Abs", "RoundUpPowerOf2", "RoundUpPowerOf264", "SaturatedAdd"} {
		s += transFunc(xm, fn, fn, xmCalls) + "\n"
		xmCalls[fn] = "OtterVerif.Gen.Xmath." + fn
		xmCalls["xmath."+fn] = "OtterVerif.Gen.Xmath." + fn
	}
	s += footer("Xmath")
	write(out, "Xmath", s)

	// ---- package otter: sketch mixers, deadline sites, persistence filter
	ot := loadPkg(".")
	s = header("SketchMix", "OtterVerif.Gen.Xmath")
	for _, fn := range []string{"spread", "rehash"} {
		s += transFunc(ot, fn, fn, xmCalls) + "\n"
	}
	// constants
	for _, cn := range []string{"resetMask", "oneMask"} {
		obj := ot.tpkg.Scope().Lookup(cn)
		c, ok := obj.(*types.Const)
		if !ok {
			fail("constant %s not found", cn)
		}
		s += fmt.Sprintf("def %s : BitVec 64 := %s\n\n", cn, constLit(c.Val(), ty{64, false}, cn))
	}
	s += footer("SketchMix")
	write(out, "SketchMix", s)

	s = ""
	onDemandDefs = nil
	intModeGlobal = true
	sites := callSites(ot, map[string]bool{"SetExpiresAt": true, "CASExpiresAt": true, "SetRefreshableAt": true})
	var names []string
	cnt := map[string]int{}
	for _, st := range sites {
		base := sanitize(strings.TrimPrefix(st.fn, "cache.")) + "_" + st.meth
		cnt[base]++
		ln := base
		if cnt[base] > 1 {
			ln = fmt.Sprintf("%s_%d", base, cnt[base])
		}
		def, free := transSite(ot, ln, st.expr, xmCalls, fmt.Sprintf("argument of %s in %s (%s)", st.meth, st.fn, ot.fset.Position(st.expr.Pos())))
		s += def + "\n"
		names = append(names, fmt.Sprintf("(\"%s\", %d)", ln, len(free)))
	}
	s += "def siteNames : List (String × Nat) := [" + strings.Join(names, ", ") + "]\n"
	// persistence filter: the comparison involving entry.ExpiresAtNano in LoadCacheFrom
	lf := findFunc(ot, "LoadCacheFrom")
	if lf == nil {
		fail("LoadCacheFrom not found")
	}
	nfilt := 0
	ast.Inspect(lf.Body, func(n ast.Node) bool {
		is, ok := n.(*ast.IfStmt)
		if !ok {
			return true
		}
		// look for a comparison mentioning entry.ExpiresAtNano and nowNano whose body is `continue`
		if len(is.Body.List) != 1 {
			return true
		}
		if bs, ok := is.Body.List[0].(*ast.BranchStmt); !ok || bs.Tok != token.CONTINUE {
			return true
		}
		var cmp *ast.BinaryExpr
		ast.Inspect(is.Cond, func(m ast.Node) bool {
			if be, ok := m.(*ast.BinaryExpr); ok {
				str := (&tr{p: ot}).exprString(be.X) + " " + (&tr{p: ot}).exprString(be.Y)
				if strings.Contains(str, "ExpiresAtNano") && (be.Op == token.LSS || be.Op == token.LEQ || be.Op == token.GTR || be.Op == token.GEQ) {
					cmp = be
				}
			}
			return true
		})
		if cmp != nil {
			nfilt++
			def, _ := transSite(ot, "loadFilterSkips", cmp, xmCalls, "LoadCacheFrom: entry is skipped (not loaded) when this holds")
			s += "\n" + def
		}
		return true
	})
	if nfilt != 1 {
		fail("LoadCacheFrom: expected exactly one expiry filter, found %d", nfilt)
	}
	s = header("Deadline", "OtterVerif.Gen.Xmath") + "-- Int-level semantics: every variable ranges over its Go type (int64: [-2^63, 2^63)); wrapS/wrapU make overflow explicit.\n\n" + strings.Join(onDemandDefs, "\n") + "\n" + s + footer("Deadline")
	write(out, "Deadline", s)
	intModeGlobal = false

	// ---- node predicates
	np := loadPkg("internal/generated/node")
	s = header("NodePred")
	layouts := []string{"B", "BE", "BER", "BERW", "BEW", "BR", "BRW", "BS", "BSE", "BSER", "BSR", "BW"}
	var rows []string
	for _, L := range layouts {
		for _, m := range []string{"HasExpired", "IsFresh"} {
			fd := findFunc(np, L+"."+m)
			if fd == nil {
				fail("method %s.%s not found", L, m)
			}
			if len(fd.Body.List) != 1 {
				fail("%s.%s: expected single return", L, m)
			}
			rs, ok := fd.Body.List[0].(*ast.ReturnStmt)
			if !ok || len(rs.Results) != 1 {
				fail("%s.%s: expected single return", L, m)
			}
			t := &tr{p: np, locals: map[string]bool{"now": true}, calls: map[string]string{}, freeTy: map[string]ty{}, siteMod: true}
			body, _ := t.expr(rs.Results[0])
			for _, fv := range t.free {
				switch fv {
				case "n_ExpiresAt", "n_RefreshableAt", "n_IsAlive":
				default:
					fail("%s.%s: unexpected operand %s", L, m, fv)
				}
			}
			s += fmt.Sprintf("/-- %s.%s -/\ndef %s_%s (n_ExpiresAt n_RefreshableAt : BitVec 64) (n_IsAlive : Bool) (now : BitVec 64) : Bool :=\n  %s\n\n", L, m, m, L, body)
		}
		// which accessors panic
		pan := func(m string) bool {
			fd := findFunc(np, L+"."+m)
			if fd == nil {
				fail("method %s.%s not found", L, m)
			}
			p := false
			ast.Inspect(fd.Body, func(n ast.Node) bool {
				if ce, ok := n.(*ast.CallExpr); ok {
					if id, ok := ce.Fun.(*ast.Ident); ok && id.Name == "panic" {
						p = true
					}
				}
				return true
			})
			return p
		}
		rows = append(rows, fmt.Sprintf("(\"%s\", %v, %v, %v)", strings.ToLower(L), pan("ExpiresAt"), pan("RefreshableAt"), pan("Next")))
	}
	// the cache's own "does a read of n start a reload" predicate (cache_impl.go: isStale)
	{
		fd := findFunc(ot, "cache.isStale")
		if fd == nil {
			fail("method cache.isStale not found")
		}
		if len(fd.Body.List) != 1 {
			fail("cache.isStale: expected single return")
		}
		rs, ok := fd.Body.List[0].(*ast.ReturnStmt)
		if !ok || len(rs.Results) != 1 {
			fail("cache.isStale: expected single return")
		}
		t := &tr{p: ot, locals: map[string]bool{"nowNano": true}, calls: map[string]string{}, freeTy: map[string]ty{}, siteMod: true}
		body, _ := t.expr(rs.Results[0])
		for _, fv := range t.free {
			switch fv {
			case "c_withRefresh", "n_RefreshableAt", "n_IsAlive":
			default:
				fail("cache.isStale: unexpected operand %s", fv)
			}
		}
		s += fmt.Sprintf("/-- cache.isStale -/\ndef isStale (c_withRefresh : Bool) (n_RefreshableAt : BitVec 64) (n_IsAlive : Bool) (nowNano : BitVec 64) : Bool :=\n  %s\n\n", body)
	}
	s += "/-- layout, ExpiresAt panics, RefreshableAt panics, Next panics -/\ndef panics : List (String × Bool × Bool × Bool) := [" + strings.Join(rows, ", ") + "]\n"
	s += footer("NodePred")
	write(out, "NodePred", s)

	// ---- MPSC index arithmetic
	qp := loadPkg("internal/deque/queue")
	s = header("MpscIdx", "OtterVerif.Gen.Xmath")
	qCalls := map[string]string{}
	for k, v := range xmCalls {
		qCalls[k] = v
	}
	for _, fn := range []string{"modifiedCalcElementOffset", "nextArrayOffset"} {
		s += transFunc(qp, fn, fn, qCalls) + "\n"
		qCalls[fn] = "OtterVerif.Gen.MpscIdx." + fn
	}
	for _, fn := range []string{"MPSC.getCurrentBufferCapacity", "MPSC.availableInQueue"} {
		ln := strings.TrimPrefix(fn, "MPSC.")
		s += transFunc(qp, fn, ln, qCalls) + "\n"
	}
	s += footer("MpscIdx")
	write(out, "MpscIdx", s)

	// ---- hashmap SWAR
	hp := loadPkg("internal/hashmap")
	s = header("Swar")
	hCalls := map[string]string{}
	for _, cn := range []string{"defaultMeta", "metaMask", "defaultMetaMasked"} {
		obj := hp.tpkg.Scope().Lookup(cn)
		c, ok := obj.(*types.Const)
		if !ok {
			fail("constant %s not found", cn)
		}
		s += fmt.Sprintf("def %s : BitVec 64 := %s\n\n", cn, constLit(c.Val(), ty{64, false}, cn))
	}
	for _, cn := range []string{"emptyMetaSlot"} {
		obj := hp.tpkg.Scope().Lookup(cn)
		c, ok := obj.(*types.Const)
		if !ok {
			fail("constant %s not found", cn)
		}
		s += fmt.Sprintf("def %s : BitVec 8 := %s\n\n", cn, constLit(c.Val(), ty{8, false}, cn))
	}
	for _, cn := range []string{"nodesPerMapBucket", "mapShrinkFraction", "defaultMinMapTableLen"} {
		obj := hp.tpkg.Scope().Lookup(cn)
		c, ok := obj.(*types.Const)
		if !ok {
			fail("constant %s not found", cn)
		}
		s += fmt.Sprintf("def %s : Nat := %s\n\n", cn, constant.ToInt(c.Val()).ExactString())
	}
	for _, fn := range []string{"h1", "h2", "broadcast", "markZeroBytes", "setByte"} {
		s += transFunc(hp, fn, fn, hCalls) + "\n"
		hCalls[fn] = "OtterVerif.Gen.Swar." + fn
	}
	s += footer("Swar")
	write(out, "Swar", s)

	// ---- timer wheel: tables, time maps and every pure computation of findBucket / DeleteExpired / deleteExpiredFromBucket
	ep := loadPkg("internal/expiration")
	s = header("Wheel", "OtterVerif.Gen.Xmath")
	wCalls := map[string]string{}
	for k, v := range xmCalls {
		wCalls[k] = v
	}
	for _, tb := range []string{"buckets", "spans", "shift"} {
		s += globalTable(ep, tb, "OtterVerif.Gen.Wheel."+tb, wCalls) + "\n"
	}
	for _, fn := range []string{"wheelTime", "clockTime"} {
		s += transFunc(ep, fn, fn, wCalls) + "\n"
		wCalls[fn] = "OtterVerif.Gen.Wheel." + fn
	}
	s += transPicks(ep, []pick{
		{"fb_due", "cond", "Variable.findBucket", "", 0, 3},
		{"fb_clamped", "assign", "Variable.findBucket", "expiration", 0, 1},
		{"fb_duration", "assign", "Variable.findBucket", "duration", 0, 1},
		{"fb_length", "assign", "Variable.findBucket", "length", 0, 1},
		{"fb_loop", "cond", "Variable.findBucket", "", 1, 3},
		{"fb_fits", "cond", "Variable.findBucket", "", 2, 3},
		{"fb_ticks", "assign", "Variable.findBucket", "ticks", 0, 1},
		{"fb_index", "assign", "Variable.findBucket", "index", 0, 1},
		{"add_arg", "callarg0", "Variable.Add", "v.findBucket", 0, 1},
		{"de_currentTime", "assign", "Variable.DeleteExpired", "currentTime", 0, 1},
		{"de_loop", "cond", "Variable.DeleteExpired", "", 0, 2},
		{"de_previousTicks", "assign", "Variable.DeleteExpired", "previousTicks", 0, 1},
		{"de_currentTicks", "assign", "Variable.DeleteExpired", "currentTicks", 0, 1},
		{"de_delta", "assign", "Variable.DeleteExpired", "delta", 0, 1},
		{"de_stop", "cond", "Variable.DeleteExpired", "", 1, 2},
		{"db_mask", "assign", "Variable.deleteExpiredFromBucket", "mask", 0, 1},
		{"db_steps", "assign", "Variable.deleteExpiredFromBucket", "steps", 0, 1},
		{"db_start", "assign", "Variable.deleteExpiredFromBucket", "start", 0, 1},
		{"db_end", "assign", "Variable.deleteExpiredFromBucket", "end", 0, 1},
		{"db_loop", "cond", "Variable.deleteExpiredFromBucket", "", 0, 3},
		{"db_slot", "index", "Variable.deleteExpiredFromBucket", "timerWheel", 0, 1},
		{"db_expired", "cond", "Variable.deleteExpiredFromBucket", "", 2, 3},
		{"db_reportedNow", "callarg1", "Variable.deleteExpiredFromBucket", "expireNode", 0, 1},
	}, wCalls)
	s += footer("Wheel")
	write(out, "Wheel", s)

	// ---- eviction policy: every pure decision and counter update of policy.go
	autoModule(out, "Policy", ot, [][2]string{
		{"policy.access", "access"}, {"policy.add", "add"}, {"policy.update", "update"}, {"policy.queueOf", "queueOf"},
		{"policy.discount", "discount"}, {"policy.makeDead", "makeDead"}, {"policy.setMaximumSize", "setMaximumSize"},
		{"policy.reorderProbation", "reorderProbation"}, {"policy.evictFromWindow", "evictFromWindow"},
		{"policy.evictFromMain", "evictFromMain"}, {"policy.admit", "admit"}, {"policy.climb", "climb"},
		{"policy.determineAdjustment", "determineAdjustment"}, {"policy.demoteFromMainProtected", "demote"},
		{"policy.increaseWindow", "increaseWindow"}, {"policy.decreaseWindow", "decreaseWindow"}, {"reorder", "reorder"},
	}, map[string]string{}, "")

	// ---- every other file with modelled logic: all pure computations of all functions (pinned by Pin.*)
	lpS := loadPkg("internal/lossy")
	xsS := loadPkg("internal/xsync")
	dqS := loadPkg("internal/deque")
	stS := loadPkg("stats")
	skCalls := map[string]string{"spread": "OtterVerif.Gen.SketchMix.spread", "rehash": "OtterVerif.Gen.SketchMix.rehash"}
	for k, v := range xmCalls {
		skCalls[k] = v
	}
	autoModule(out, "SketchSites", ot, allFuncs(ot, "sketch.go"), skCalls, "", "OtterVerif.Gen.Xmath", "OtterVerif.Gen.SketchMix")
	// cache_impl.go in five groups, so that a changed computation is charged to the properties it can affect
	cacheGroups := [][]string{
		{"CacheRead", "deadlineAfter", "getCause", "cache.getNode", "cache.getNodeQuietly", "cache.has", "cache.calcExpiresAtAfterRead", "cache.setExpiresAfterRead",
			"cache.SetExpiresAfter", "cache.SetRefreshableAfter", "cache.calcExpiresAtAfterWrite", "cache.calcRefreshableAt", "cache.isStale", "cache.nodeToEntry",
			"cache.newNode", "cache.GetIfPresent", "cache.GetEntry", "cache.GetEntryQuietly", "cache.nodes", "cache.entries", "cache.All", "cache.Keys", "cache.Values",
			"cache.evictionOrder", "cache.Hottest", "cache.Coldest"},
		{"CacheWrite", "cache.Set", "cache.SetIfAbsent", "cache.set", "cache.atomicSet", "cache.atomicDelete", "cache.Compute", "cache.ComputeIfAbsent",
			"cache.ComputeIfPresent", "cache.doCompute", "cache.afterWrite", "cache.Invalidate", "cache.deleteNodeFromMap", "cache.deleteNode", "cache.afterDelete",
			"cache.notifyDeletion", "cache.notifyAtomicDeletion", "cache.evictNode", "cache.evictNodeBySize", "cache.InvalidateAll", "cache.runTask", "cache.getTask",
			"cache.putTask", "cache.makeRetired", "cache.makeDead", "cache.onAccess", "cache.expireNodes", "cache.evictNodes", "cache.climb"},
		{"CacheLoad", "cache.refreshKey", "cache.Get", "cache.afterDeleteCall", "cache.bulkRefreshKeys", "cache.BulkGet", "cache.wrapLoad", "cache.Refresh", "cache.BulkRefresh"},
		{"CacheMaint", "init", "cache.afterRead", "cache.CleanUp", "cache.shouldDrainBuffers", "cache.skipReadBuffer", "cache.afterWriteTask", "cache.scheduleAfterWrite",
			"cache.scheduleDrainBuffers", "cache.drainBuffers", "cache.performCleanUp", "cache.rescheduleCleanUpIfIncomplete", "cache.maintenance", "cache.drainReadBuffer",
			"cache.drainWriteBuffer", "cache.periodicCleanUp", "cache.SetMaximum", "cache.GetMaximum", "cache.WeightedSize", "cache.StopAllGoroutines"},
	}
	grouped := map[string]bool{}
	for _, g := range cacheGroups {
		var fns [][2]string
		for _, fn := range g[1:] {
			if findFunc(ot, fn) == nil {
				fail("cache_impl.go: function %s (group %s) not found", fn, g[0])
			}
			grouped[fn] = true
			fns = append(fns, [2]string{fn, sanitize(strings.Replace(fn, ".", "_", 1))})
		}
		autoModule(out, g[0], ot, fns, copyCalls(xmCalls), "", "OtterVerif.Gen.Xmath")
	}
	var misc [][2]string
	for _, f := range allFuncs(ot, "cache_impl.go") {
		if !grouped[f[0]] {
			misc = append(misc, f)
		}
	}
	autoModule(out, "CacheMisc", ot, misc, copyCalls(xmCalls), "", "OtterVerif.Gen.Xmath")
	autoModule(out, "FlightSites", ot, allFuncs(ot, "singleflight.go"), map[string]string{}, "")
	autoModule(out, "PersistSites", ot, allFuncs(ot, "persistence.go"), map[string]string{}, "")
	autoModule(out, "LossySites", lpS, allFuncs(lpS, "ring.go", "striped.go"), copyCalls(xmCalls), "", "OtterVerif.Gen.Xmath")
	autoModule(out, "MpscSites", qp, allFuncs(qp, "mpsc.go"), copyCalls(xmCalls), "", "OtterVerif.Gen.Xmath")
	autoModule(out, "MapSites", hp, allFuncs(hp, "map.go"), copyCalls(xmCalls), "", "OtterVerif.Gen.Xmath")
	autoModule(out, "AdderSites", xsS, allFuncs(xsS, "adder.go"), copyCalls(xmCalls), "", "OtterVerif.Gen.Xmath")
	autoModule(out, "DequeSites", dqS, allFuncs(dqS, "linked.go"), map[string]string{}, "")
	autoModule(out, "StatsSites", stS, allFuncs(stS, "counter.go", "stats.go"), map[string]string{}, "")

	// built-in calculators and the Entry snapshot (what cfgOf in Proofs/TableRefine assumes about them), options, clock
	autoModule(out, "CalcSites", ot, allFuncs(ot, "expiry_calculator.go", "refresh_calculator.go", "entry.go"), map[string]string{}, "")
	autoModule(out, "OptSites", ot, allFuncs(ot, "options.go", "clock.go", "cache.go"), map[string]string{}, "")
	// the twelve generated node layouts, every method
	var nodeFiles []string
	for _, f := range np.files {
		nodeFiles = append(nodeFiles, filepath.Base(np.fset.Position(f.Pos()).Filename))
	}
	autoModule(out, "NodeSites", np, allFuncs(np, nodeFiles...), map[string]string{}, "")

	// ---- protocol skeletons
	s = header("Skeleton")
	type sk struct {
		p     *pkg
		funcs []string
		extra []string // further callee names recorded as "call f" inside this group only
	}
	lp := loadPkg("internal/lossy")
	xs := loadPkg("internal/xsync")
	groups := []sk{
		{ot, []string{"cache.afterWriteTask", "cache.scheduleAfterWrite", "cache.scheduleDrainBuffers", "cache.drainBuffers", "cache.performCleanUp",
			"cache.rescheduleCleanUpIfIncomplete", "cache.maintenance", "cache.drainWriteBuffer", "cache.shouldDrainBuffers", "cache.afterRead", "cache.getNode",
			"cache.SetMaximum", "cache.GetMaximum", "cache.WeightedSize", "cache.InvalidateAll", "cache.CleanUp", "cache.evictionOrder",
			"group.startCall", "group.deleteCall", "group.delete", "group.doCall", "group.doBulkCall", "cache.afterDeleteCall",
			"cache.Get", "cache.BulkGet", "cache.refreshKey", "cache.bulkRefreshKeys", "cache.wrapLoad", "call.cancel", "call.wait"}, nil},
		// how an entry leaves the cache and how that is reported (Conc.Events)
		{ot, []string{"cache.atomicSet", "cache.atomicDelete", "cache.deleteNodeFromMap", "cache.afterWrite", "cache.afterDelete", "cache.deleteNode",
			"cache.evictNode", "cache.runTask", "cache.notifyDeletion", "cache.notifyAtomicDeletion", "cache.makeRetired", "cache.makeDead",
			"cache.set", "cache.Invalidate", "cache.doCompute"},
			[]string{"notifyDeletion", "notifyAtomicDeletion", "makeRetired", "makeDead", "deleteNodeFromMap", "afterDelete", "afterWriteTask", "getTask", "putTask",
				"afterWrite", "afterRead", "atomicSet", "atomicDelete", "calcExpiresAtAfterRead",
				"Compute", "delete", "Delete", "Add", "add", "update", "RecordEviction", "Retire", "Die", "executor", "onDeletion", "onAtomicDeletion"}},
		// the eviction decision: which node is compared with which, where the sketch is consulted (C18, C04)
		{ot, []string{"policy.evictFromMain", "policy.evictFromWindow", "policy.evictNodes", "policy.admit"},
			[]string{"admit", "frequency", "evictNode", "evictFromMain", "evictFromWindow", "rand", "makeDead", "IsDead", "IsAlive"}},
		// persistence: where the clock is read and what is done per entry (C19)
		{ot, []string{"LoadCacheFrom", "SaveCacheTo"},
			[]string{"NowNano", "Decode", "Encode", "Set", "SetExpiresAfter", "SetRefreshableAfter", "GetEntryQuietly", "GetIfPresent", "Coldest", "Hottest", "GetMaximum", "WeightedSize", "IsWeighted"}},
		{qp, []string{"MPSC.TryPush", "MPSC.pushSlowPath", "MPSC.resize", "MPSC.TryPop", "MPSC.getNextBuffer", "MPSC.newBufferTryPush", "MPSC.newBufferAndOffset"}, nil},
		{lp, []string{"ring.add", "ring.drainTo", "Striped.Add", "Striped.expandOrRetry", "Striped.DrainTo"}, nil},
		{xs, []string{"Adder.Add", "Adder.Value"}, nil},
		{hp, []string{"Map.Get", "Map.Compute", "Map.resize", "Map.waitForResize", "Map.Range", "Map.copyBucket", "Map.copyBucketWithDestLock", "Map.newerTableExists", "Map.resizeInProgress"}, nil},
	}
	for _, g := range groups {
		listed := map[string]bool{}
		for _, f := range g.funcs {
			listed[f[strings.Index(f, ".")+1:]] = true
		}
		for _, extra := range []string{"evictNode", "runTask", "TryPush", "TryPop", "DrainTo", "drainReadBuffer", "expireNodes", "evictNodes", "climb", "deleteNode", "Invalidate", "wait", "cancel", "Wait", "Done"} {
			listed[extra] = true
		}
		for _, extra := range g.extra {
			listed[extra] = true
		}
		for _, f := range g.funcs {
			s += fmt.Sprintf("/-- %s -/\ndef %s : List (Nat × String) :=\n  %s\n\n", f, sanitize(strings.Replace(f, ".", "_", 1)), skeletonOf(g.p, f, listed))
		}
	}
	s += footer("Skeleton")
	write(out, "Skeleton", s)

	fmt.Println("verifgen: ok")
}
