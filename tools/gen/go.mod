module verifgen

go 1.24
