#!/bin/bash
# usage: keepseed.sh <seed-dir> <name> : archive a confirmed seeded change under /verif/seeded/<name>/
D=$1; N=$2
mkdir -p /verif/seeded/$N
cp $D/patch.diff $D/demo.sh $D/meta.json /verif/seeded/$N/ 2>/dev/null
for f in $D/*.go $D/*.go.txt $D/*.txt; do [ -f "$f" ] && cp "$f" /verif/seeded/$N/; done
[ -f $D/confirm.json ] && cp $D/confirm.json /verif/seeded/$N/
echo kept $N: $(ls /verif/seeded/$N | tr '\n' ' ')
