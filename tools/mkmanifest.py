#!/usr/bin/env python3
"""Regenerates /verif/MANIFEST.json from checklib/props.py and tools/manifest_notes.py."""
import json, sys
sys.path.insert(0, '/verif/checklib')
sys.path.insert(0, '/verif/tools')
from props import PROPS
from manifest_notes import NOTES, NOT_APPLICABLE, HOOK_COMMITS

props = [json.loads(l) for l in open('/verif/properties.jsonl')]
checks = []
for p in props:
    pid = p['id']
    if pid not in PROPS:
        continue
    n = NOTES[pid]
    checks.append({
        'property_id': pid,
        'quick_cmd': f'./check {pid} --tier quick',
        'thorough_cmd': f'./check {pid} --tier thorough',
        'evidence_file': f'evidence/{pid}.json',
        'replay_cmd_template': f'./check {pid} --replay {{path}}',
        'engine': n.get('engine', 'proof+seq'),
        'level_claimed': {'category': 'proof', 'text': n['text'], 'design_ref': n.get('design_ref', 'DESIGN.md section 6 ' + pid)},
        'level_note': n['note'],
        'technique': n['technique'],
    })
na = [{'property_id': p['id'], 'reason': NOT_APPLICABLE.get(p['id'], 'check not built yet; planned per DESIGN.md section 6')}
      for p in props if p['id'] not in PROPS]
m = {
    'version': 1,
    'setup_cmd': './setup.sh',
    'hooks': {
        'guard': 'verif',
        'enable': 'harness/build.sh: go build -tags verif -overlay <generated overlay.json> ./cmd/verifh (harness files are added by overlay; /repo is not edited by the harness)',
        'baseline_off_cmd': 'cd /repo && GOFLAGS=-mod=mod GOPROXY=off go test -vet=off -count=1 ./... && cd plugin/pslog && GOFLAGS=-mod=mod GOPROXY=off go test -vet=off -count=1 ./...',
        'source_commits': HOOK_COMMITS,
        'add_only': True,
    },
    'engines': [
        {'name': 'gen', 'path': 'tools/gen', 'serves_properties': sorted(PROPS), 'kind_free_text': 'Go AST/go-types -> Lean translator (regenerated tie)'},
        {'name': 'proof', 'path': 'lean/OtterVerif/Props', 'serves_properties': sorted(PROPS), 'kind_free_text': 'Lean 4 theorems, lake build + #print axioms audit (+ leanchecker in thorough tier)'},
        {'name': 'seq', 'path': 'harness/verifh/seq.go + lean/OtterVerif/Spec/Check.lean', 'serves_properties': [p for p in sorted(PROPS) if any(e['kind'] == 'seq' for e in PROPS[p]['engines'])],
         'kind_free_text': 'sequential differential correspondence: real cache (public API, manual clock) vs Spec, judged by the Lean executable seqdrv'},
    ],
    'checks': checks,
    'notes': 'Technique family: machine-checked proof in Lean 4 + checked model/code tie (translator + correspondence). See DESIGN.md; findings in KNOWN_FINDINGS.',
    'not_applicable': na,
}
json.dump(m, open('/verif/MANIFEST.json', 'w'), indent=1)
print('claimed', [c['property_id'] for c in checks])
